"""Abstract domain objects (assumed contracts on what the verified functions are handed: samplers, datasets,
callables). Each is a statement of the property's *domain*, not of KappaData code."""
import z3
from .values import *  # noqa
from .state import *  # noqa
from . import expr as _e


# ghost variables written by methods of abstract objects: a loop whose body contains a call of that name havocs them
GHOST_METHODS = {
    "set_epoch": ["g_announced"], "collate": ["g_ncollate"], "default_collate": ["g_ndc"],
    "scale_strength": ["g_scaled", "g_scaled_f", "g_nscaled"], "set_rng": ["g_rng", "g_rng_set", "g_rng_key"],
    "worker_init_fn": ["g_winit", "g_worker_init_fn", "g_last_worker_init_fn"],
    "_worker_init_fn": ["g_winit", "g_worker_init_fn"], "dispose": ["g_dispose", "g_last_dispose"],
}
# written by calling an abstract callable / transform under any name
GHOST_ANY_CALL = ["g_base_reads", "g_nunzip", "g_unzipped", "g_ncalls", "g_called", "g_called_arg", "g_napplied", "g_applied", "g_fn_calls", "g_fn_ctx"]


def _nonneg(st, name, idx):
    """len(...) >= 0, for an indexed family as a universally quantified domain axiom"""
    if not idx:
        st.assume(z3.Const(name, z3.IntSort()) >= 0)
        return
    vs = [z3.Int(uid("ix")) for _ in idx]
    f = z3.Function(name, *([z3.IntSort()] * len(idx)), z3.IntSort())
    ax = z3.ForAll(vs, f(*vs) >= 0)
    if not any(ax.eq(p) for p in st.pc[-40:]) and name not in getattr(st, "_nn", set()):
        st.assume(ax)
        if not hasattr(st, "_nn"):
            st._nn = set()
        st._nn.add(name)


def _fn(name, idx, sort, extra=()):
    """term name(idx..., extra...)"""
    args = list(idx) + list(extra)
    if not args:
        return z3.Const(name, sort)
    return z3.Function(name, *([z3.IntSort()] * len(args)), sort)(*args)


class AbsDataset(VAbs):
    """a map-style dataset: len >= 0, item k is an opaque value Item(ds, k)"""
    label = "dataset"

    nullable = False      # may a sample be None?

    def __init__(self, name, idx=()):
        self.name, self.idx = name, tuple(idx)
        self.n = _fn(name + "$len", idx, z3.IntSort())

    def length(self, st, eng):
        _nonneg(st, self.name + "$len", self.idx)
        return VInt(self.n)

    def getitem(self, i, st, eng):
        i = _e.to_int(eng.deref(i, st))
        eng.safety(st, "dataset:index-inbounds", z3.And(-self.n <= i, i < self.n), None, "dataset index out of range")
        j = z3.If(i < 0, i + self.n, i)
        if not eng.spec_depth and "g_base_reads" in st.ghost:
            st.ghost["g_base_reads"] = VInt(st.ghost["g_base_reads"].t + 1)
        v = VVal(_fn(self.name + "$item", self.idx, ValSort, (j,)))
        if self.nullable:
            return VOpt(_fn(self.name + "$item_is_none", self.idx, z3.BoolSort(), (j,)), v)
        return v

    def hasattr(self, name, st, eng):
        return z3.BoolVal(name in ("worker_init_fn",))

    def call_method(self, name, args, kwargs, st, eng):
        if name == "worker_init_fn":
            return [(st, NONEV)]
        raise Unsupported(f"dataset.{name}")

    def key(self):
        return (self.name, self.idx)


class AbsSampler(VAbs):
    """a sampler: len(s) = N >= 0; every iteration yields exactly N indices (domain of C04); the t-th iteration
    ever started (global ghost counter g_iters) yields Elem(s, t, 0..N-1); exposes its dataset as .data_source or
    .dataset; may or may not have set_epoch."""
    label = "sampler"

    def __init__(self, name, idx=()):
        self.name, self.idx = name, tuple(idx)
        self.n = _fn(name + "$N", idx, z3.IntSort())
        self.has_set_epoch = _fn(name + "$has_set_epoch", idx, z3.BoolSort())
        self.has_data_source = _fn(name + "$has_data_source", idx, z3.BoolSort())
        self.ds = AbsDataset(name + "$ds", idx)

    def length(self, st, eng):
        _nonneg(st, self.name + "$N", self.idx)
        return VInt(self.n)

    def hasattr(self, name, st, eng):
        if name == "set_epoch": return self.has_set_epoch
        if name == "data_source": return self.has_data_source
        if name == "dataset": return z3.Not(self.has_data_source)
        return z3.BoolVal(False)

    def getattr(self, name, st, eng):
        if name in ("data_source", "dataset"):
            return self.ds
        if name == "set_epoch":
            def f(args, kwargs, s, e):
                if "g_announced" in s.ghost:
                    s.ghost["g_announced"] = args[0]
                return NONEV
            return VFunc("sampler.set_epoch", f)
        raise KeyError(name)

    def elem(self, t, k):
        return VInt(_fn(self.name + "$elem", self.idx, z3.IntSort(), (t, k)))

    def iterate(self, st, eng):
        if eng.spec_depth:
            raise SpecError("iteration of a sampler inside a spec")
        _nonneg(st, self.name + "$N", self.idx)
        if "g_iters" in st.ghost:
            t = st.ghost["g_iters"].t
            st.ghost["g_iters"] = VInt(t + 1)
        else:
            t = z3.Int(uid("iter"))
        return VSeq(self.n, lambda k, t=t: self.elem(t, k), INT)


class AbsCallable(VAbs):
    """an opaque callable (collator, transform): result is an opaque value; the call is recorded in ghost
    g_called (index of the callable in its list) and g_ncalls"""
    label = "callable"

    def __init__(self, name, idx=()):
        self.name, self.idx = name, tuple(idx)

    def key(self):
        return (self.name, self.idx)

    def call_method(self, name, args, kwargs, st, eng):
        if name != "__call__":
            raise Unsupported(f"callable.{name}")
        if "g_ncalls" in st.ghost:
            st.ghost["g_ncalls"] = VInt(st.ghost["g_ncalls"].t + 1)
            st.ghost["g_called"] = VInt(self.idx[0] if self.idx else z3.IntVal(0))
            if args and "g_called_arg" in st.ghost:
                st.ghost["g_called_arg"] = args[0]
        return [(st, fresh(VAL, "callres"))]


class AbsKDDataset(VAbs):
    """the layer below a wrapper, given by its abstract contract (structural induction hypothesis of C02):
    Len, Item(name, k), All(name)[k] == Item(name, k) with len Len, Root, Wrappers, WrapperTypes; `dispose`,
    `worker_init_fn` are recorded in ghost counters."""
    label = "kd-dataset"

    def __init__(self, name, idx=()):
        self.name, self.idx = name, tuple(idx)
        self.n = _fn(name + "$len", idx, z3.IntSort())

    def key(self):
        return (self.name, self.idx)

    def length(self, st, eng):
        _nonneg(st, self.name + "$len", self.idx)
        return VInt(self.n)

    int_labels = False       # are `class` items integer labels in [-1, C)?
    owned_lists = False      # does getall_*() hand out the dataset's own list object (aliasing matters)?

    def ncls(self):
        return _fn(self.name + "$num_classes", self.idx, z3.IntSort())

    def item(self, name_t, k):
        if self.int_labels and name_t.eq(VStr("class").t):
            return VInt(_fn(self.name + "$label", self.idx, z3.IntSort(), (k,)))
        return VVal(_fn(self.name + "$item", self.idx, ValSort, (name_t, k)))

    def label_axioms(self, st):
        if not self.int_labels or self.idx or getattr(st, "_lab_" + self.name, False):
            return
        setattr(st, "_lab_" + self.name, True)
        k = z3.Int(uid("k"))
        lab = _fn(self.name + "$label", self.idx, z3.IntSort(), (k,))
        st.assume(self.ncls() >= 1, z3.ForAll([k], z3.And(-1 <= lab, lab < self.ncls()), patterns=[lab]))

    def all_of(self, name_t, kind=None):
        sq = VSeq(self.n, lambda k: self.item(name_t, k), INT if (self.int_labels and name_t.eq(VStr("class").t)) else VAL)
        sq.kind = _fn(self.name + "$allkind", self.idx, z3.IntSort(), (name_t,)) if kind is None else kind
        return sq

    def _name_term(self, name):
        for pre in ("getitem_", "getall_"):
            if name.startswith(pre):
                name = name[len(pre):]
        return VStr(name).t

    def hasattr(self, name, st, eng):
        if name.startswith("getall_") or name.startswith("getitem_"):
            # a bulk accessor and the per-sample accessor of the same item exist independently of each other
            kind = "$has_getall" if name.startswith("getall_") else "$has_getitem"
            return _fn(self.name + kind, self.idx, z3.BoolSort(), (self._name_term(name),))
        return z3.BoolVal(name in ("root_dataset", "all_wrappers", "all_wrapper_types", "dispose", "worker_init_fn",
                                   "collators", "fused_operations", "requires_propagate_ctx", "has_wrapper",
                                   "has_wrapper_type", "get_wrappers_of_type", "getshape_class", "getdim_class"))

    def _getter(self, name_t, kind):
        if kind == "getitem":
            def f(args, kwargs, s, e):
                k = _e.to_int(e.deref(args[0], s))
                e.safety(s, "lower-dataset:index-inbounds", z3.And(0 <= k, k < self.n), None,
                         "index passed to the wrapped dataset is out of its range")
                return self.item(name_t, k)
            return VFunc("lower.getitem", f)

        def g(args, kwargs, s, e):
            _nonneg(s, self.name + "$len", self.idx)
            sq = self.all_of(name_t)
            if e.spec_depth or not self.owned_lists:
                return sq
            sq.kind = None          # a python list that the wrapped dataset may hand out by reference
            ref = s.alloc(sq)
            s.owned = getattr(s, "owned", frozenset()) | {ref.oid}
            return ref
        return VFunc("lower.getall", g)

    def getattr(self, name, st, eng):
        self.label_axioms(st)
        if name in ("getdim_class",) and self.int_labels:
            return VFunc("lower.getdim_class", lambda a, k, s, e: VInt(self.ncls()))
        if name in ("getshape_class",) and self.int_labels:
            return VFunc("lower.getshape_class", lambda a, k, s, e: VTuple([VInt(self.ncls())]))
        if name.startswith("getitem_"):
            return self._getter(self._name_term(name), "getitem")
        if name.startswith("getall_"):
            return self._getter(self._name_term(name), "getall")
        if name == "root_dataset":
            return VVal(_fn(self.name + "$root", self.idx, ValSort))
        if name in ("all_wrappers", "all_wrapper_types", "collators", "fused_operations"):
            ln = _fn(self.name + "$" + name + "$len", self.idx, z3.IntSort())
            st.assume(ln >= 0) if not self.idx else None
            return VSeq(z3.If(ln >= 0, ln, 0), lambda k: VVal(_fn(self.name + "$" + name, self.idx, ValSort, (k,))), VAL)
        if name == "requires_propagate_ctx":
            return VBool(_fn(self.name + "$rpc", self.idx, z3.BoolSort()))
        if name in ("dispose", "worker_init_fn"):
            def f(args, kwargs, s, e):
                g = "g_" + name
                if g in s.ghost:
                    s.ghost[g] = VInt(s.ghost[g].t + 1)
                if "g_last_" + name in s.ghost:
                    s.ghost["g_last_" + name] = VInt(self.idx[0] if self.idx else z3.IntVal(0))
                return NONEV
            return VFunc("lower." + name, f)
        if name in ("get_wrappers_of_type", "has_wrapper", "has_wrapper_type"):
            def f(args, kwargs, s, e):
                a = args[0]
                at = a.t if hasattr(a, "t") else VStr(getattr(a, "name", "obj")).t
                if at.sort() != z3.IntSort():
                    at = z3.Function("val2int", ValSort, z3.IntSort())(at)
                if name == "get_wrappers_of_type":
                    ln = _fn(self.name + "$wot$len", self.idx, z3.IntSort(), (at,))
                    return VSeq(z3.If(ln >= 0, ln, 0), lambda k: VVal(_fn(self.name + "$wot", self.idx, ValSort, (at, k))), VAL)
                return VBool(_fn(self.name + "$" + name, self.idx, z3.BoolSort(), (at,)))
            return VFunc("lower." + name, f)
        raise KeyError(name)

    def call_method(self, name, args, kwargs, st, eng):
        if name == "__getattr_sym__":
            nm = args[0]
            # symbolic accessor name: the caller has established its prefix; both getitem_ and getall_ are offered
            kind = kwargs.get("kind")
            raise Unsupported("symbolic accessor name on the lower dataset")
        raise Unsupported(f"kd-dataset.{name}")


KDDATASET = TAbs(lambda name, idx: AbsKDDataset(name, idx), "kd-dataset")


class _LabelDataset(AbsKDDataset):
    int_labels = True
    owned_lists = True


LABELDATASET = TAbs(lambda name, idx: _LabelDataset(name, idx), "kd-dataset(int labels)")

def _upd(seq, k, v):
    return VSeq(seq.len, lambda i, seq=seq, k=k, v=v: ite(i == k, v, seq.elem(i)), seq.etype)


class AbsTransform(VAbs):
    """a member transform (any object handed to a composition): calls that matter for C07/C09/C15 are recorded in
    ghost maps indexed by the member's position: g_scaled / g_scaled_f (scale_strength), g_rng (set_rng), g_winit
    (worker_init_fn / _worker_init_fn), g_applied (__call__). isinstance(t, KDTransform) is a symbolic fact per member."""
    label = "transform"

    def __init__(self, name, idx=()):
        self.name, self.idx = name, tuple(idx)
        self.is_kd = _fn(name + "$is_kd", idx, z3.BoolSort())

    def key(self):
        return (self.name, self.idx)

    def pos(self):
        return self.idx[0] if self.idx else z3.IntVal(0)

    def isinstance(self, clsname, st, eng):
        if clsname.endswith("KDTransform"):
            return self.is_kd
        return _fn(self.name + "$isinst$" + clsname.split("::")[-1], self.idx, z3.BoolSort())

    def hasattr(self, name, st, eng):
        return z3.BoolVal(True)

    def _record(self, st, g, value):
        if g in st.ghost:
            st.ghost[g] = _upd(st.ghost[g], self.pos(), value)

    def getattr(self, name, st, eng):
        if name == "scale_strength":
            def f(args, kwargs, s, e):
                self._record(s, "g_scaled", VBool(True))
                self._record(s, "g_scaled_f", VReal(_e.to_real(e.deref(args[0], s))))
                if "g_nscaled" in s.ghost:
                    s.ghost["g_nscaled"] = VInt(s.ghost["g_nscaled"].t + 1)
                return NONEV
            return VFunc("member.scale_strength", f)
        if name == "set_rng":
            def f(args, kwargs, s, e):
                r = args[0]
                if isinstance(r, (VVal, VRef, VClass)):
                    self._record(s, "g_rng", as_val(r))
                if hasattr(r, "keyterm"):
                    self._record(s, "g_rng_key", VInt(r.keyterm()))
                self._record(s, "g_rng_set", VBool(True))
                return self
            return VFunc("member.set_rng", f)
        if name in ("worker_init_fn", "_worker_init_fn"):
            def f(args, kwargs, s, e):
                self._record(s, "g_winit", VBool(True))
                return NONEV
            return VFunc("member." + name, f)
        if name == "is_deterministic":
            return VBool(_fn(self.name + "$det", self.idx, z3.BoolSort()))
        raise KeyError(name)

    def call_method(self, name, args, kwargs, st, eng):
        if name == "__call__":
            x = args[0]
            xt = x.t if isinstance(x, VVal) else fresh(VAL, "x").t
            n = st.ghost["g_napplied"].t if "g_napplied" in st.ghost else z3.IntVal(0)
            if "g_napplied" in st.ghost:
                st.ghost["g_napplied"] = VInt(n + 1)
            self._record(st, "g_applied", VBool(True))
            f = z3.Function(self.name + "$apply", *([z3.IntSort()] * len(self.idx)), ValSort, z3.IntSort(), ValSort)
            return [(st, VVal(f(*self.idx, xt, n)))]
        raise Unsupported(f"transform.{name}")


class AbsSchedule(VAbs):
    label = "schedule"

    def __init__(self, name, idx=()):
        self.name, self.idx = name, tuple(idx)

    def getattr(self, name, st, eng):
        if name == "get_value":
            def f(args, kwargs, s, e):
                a, b = _e.to_int(e.deref(args[0], s)), _e.to_int(e.deref(args[1], s))
                return VReal(z3.Function(self.name + "$value", z3.IntSort(), z3.IntSort(), z3.RealSort())(a, b))
            return VFunc("schedule.get_value", f)
        raise KeyError(name)


Comp = z3.Function("Comp", ValSort, z3.IntSort(), ValSort)          # component j of a jointly loaded value


class AbsFusedEntry(VAbs):
    """one entry of ModeWrapper.fused_to_idxs: either a single mode position (int) or the positions of a fused group (list)"""
    label = "fused-entry"

    def __init__(self, name, idx=()):
        self.name, self.idx = name, tuple(idx)
        self.is_list = _fn(name + "$is_list", idx, z3.BoolSort())
        self.as_int = _fn(name + "$single", idx, z3.IntSort())
        self.n = _fn(name + "$nmulti", idx, z3.IntSort())

    def isinstance(self, clsname, st, eng):
        if clsname == "list":
            return self.is_list
        if clsname == "int":
            return z3.Not(self.is_list)
        return z3.BoolVal(False)

    def multi(self, j):
        return VInt(_fn(self.name + "$multi", self.idx, z3.IntSort(), (j,)))

    def iterate(self, st, eng):
        return VSeq(z3.If(self.n >= 0, self.n, 0), self.multi, INT)

    def length(self, st, eng):
        return VInt(z3.If(self.n >= 0, self.n, 0))


class AbsGetter(VAbs):
    """a per-item loader of the dataset stack: fn(idx, ctx) -> opaque value Out(entry, idx); calls are counted per entry
    in g_fn_calls and the ctx object each call received is recorded in g_fn_ctx"""
    label = "getter"

    def __init__(self, name, idx=()):
        self.name, self.idx = name, tuple(idx)

    def key(self):
        return (self.name, self.idx)

    def out(self, k):
        return VVal(_fn(self.name + "$out", self.idx, ValSort, (k,)))

    def call_method(self, name, args, kwargs, st, eng):
        if name != "__call__":
            raise Unsupported(f"getter.{name}")
        k = _e.to_int(eng.deref(args[0], st))
        if "g_fn_calls" in st.ghost:
            st.ghost["g_fn_calls"] = VInt(st.ghost["g_fn_calls"].t + 1)
        if "g_fn_ctx" in st.ghost and len(args) > 1:
            c = args[1]
            st.ghost["g_fn_ctx"] = _upd(st.ghost["g_fn_ctx"], self.idx[0] if self.idx else z3.IntVal(0),
                                        as_val(c) if isinstance(c, (VRef, VVal)) else VVal(z3.Const("ctx!none", ValSort)))
        return [(st, self.out(k))]


class AbsModeStr(VAbs):
    """a dataset mode string, abstracted to the list of its space separated item names"""
    label = "mode-string"

    def __init__(self, name, idx=()):
        self.name = name
        self.items = fresh(TSeq(STR), name + "$items", unique=False)

    def getattr(self, name, st, eng):
        if name == "split":
            def f(args, kwargs, s, e):
                if not (args and isinstance(args[0], VStr) and args[0].s == " "):
                    raise Unsupported("mode.split with a separator other than ' '")
                s.assume(self.items.len >= 1)       # "".split(" ") == [""]: never empty
                return self.items
            return VFunc("mode.split", f)
        raise KeyError(name)


MODESTR = TAbs(lambda name, idx: AbsModeStr(name, idx), "mode-string")
FUSEDENTRY = TAbs(lambda name, idx: AbsFusedEntry(name, idx), "fused-entry")
GETTER = TAbs(lambda name, idx: AbsGetter(name, idx), "getter")


class AbsSharedMap(VAbs):
    """multiprocessing.Manager().dict(): every single operation (in, [], []=, clear) is atomic; values read are equal to
    values written. State lives in ghost g_present / g_val (maps over integer keys). Between any two operations other
    processes may interfere according to the ghost flag g_rely: 0 nobody (sequential), 1 other readers add k -> Base[k],
    2 additionally clear() at any time."""
    label = "shared-dict"

    def __init__(self, name, idx=()):
        self.name = name

    def interfere(self, st, eng):
        mode = st.ghost.get("g_rely")
        if mode is None:
            return
        m = mode.t
        pres, val = st.ghost["g_present"], st.ghost["g_val"]
        np_, nv = fresh(TSeq(BOOL), "present_after"), fresh(TSeq(val.etype), "val_after")
        k = z3.Int(uid("k"))
        base = st.consts["BaseItem"]
        bk = base.fn([VInt(k)], {}, st, eng)[0][1]
        # guarantee: at every point where others may look, the map invariant holds (our own writes keep it)
        kk = z3.Int(uid("k"))
        bkk = base.fn([VInt(kk)], {}, st, eng)[0][1]
        eng.oblige(st, "guarantee:map-invariant-before-interference", "vc",
                   z3.Implies(z3.And(kk >= 0, pres.elem(kk).t), veq(val.elem(kk), bkk)), getattr(eng, "cur_call_node", None),
                   note="every cached entry equals the wrapped dataset's sample whenever another process may observe the map")
        st.assume(z3.ForAll([k], z3.Implies(z3.And(k >= 0, np_.elem(k).t), veq(nv.elem(k), bk))))
        grow = z3.ForAll([k], z3.Implies(pres.elem(k).t, z3.And(np_.elem(k).t, veq(nv.elem(k), val.elem(k)))))
        sound = z3.ForAll([k], z3.Implies(np_.elem(k).t, z3.Or(z3.And(pres.elem(k).t, veq(nv.elem(k), val.elem(k))), veq(nv.elem(k), bk))))
        same = z3.ForAll([k], z3.And(np_.elem(k).t == pres.elem(k).t, veq(nv.elem(k), val.elem(k))))
        st.assume(z3.If(m == 0, same, z3.If(m == 1, z3.And(grow, sound), sound)))
        st.ghost["g_present"], st.ghost["g_val"] = np_, nv

    def call_method(self, name, args, kwargs, st, eng):
        if name == "__contains__":
            self.interfere(st, eng)
            k = _e.to_int(eng.deref(args[0], st))
            return [(st, VBool(st.ghost["g_present"].elem(k).t))]
        if name == "__setitem__":
            self.interfere(st, eng)
            k = _e.to_int(eng.deref(args[0], st))
            st.ghost["g_present"] = _upd(st.ghost["g_present"], k, VBool(True))
            st.ghost["g_val"] = _upd(st.ghost["g_val"], k, args[1])
            return [(st, NONEV)]
        raise Unsupported(f"shared dict .{name}")

    def getitem(self, idx, st, eng):
        self.interfere(st, eng)
        k = _e.to_int(eng.deref(idx, st))
        p = st.ghost["g_present"].elem(k).t
        ok, bad = st.fork().assume(p), st.fork().assume(z3.Not(p))
        out = []
        if feasible(bad.pc):
            eng.pending_raises.append((bad, "KeyError"))
        if feasible(ok.pc):
            out.append((ok, ok.ghost["g_val"].elem(k)))
        return out

    def getattr(self, name, st, eng):
        if name == "clear":
            def f(a, kw, s, e):
                s.ghost["g_present"] = VSeq(s.ghost["g_present"].len, lambda i: VBool(False), BOOL)
                return NONEV
            return VFunc("shared.clear", f)
        if name == "get":
            def f(a, kw, s, e):
                self.interfere(s, e)
                k = _e.to_int(e.deref(a[0], s))
                p = s.ghost["g_present"].elem(k).t
                d = a[1] if len(a) > 1 else NONEV
                return ite(p, s.ghost["g_val"].elem(k), d)
            return VFunc("shared.get", f)
        raise KeyError(name)


SHAREDMAP = TAbs(lambda name, idx: AbsSharedMap(name, idx), "shared-dict")

RAW, RAW_CTX, COLLATED, COLLATED_PAIR, CTXLIST, CTXDICT = range(6)


class AbsBatch(VAbs):
    """a batch travelling through the collator pipeline, abstracted to its layout and its origin:
    0 RAW (list of samples) 1 RAW_CTX (list of (sample, ctx)) 2 COLLATED 3 COLLATED_PAIR (collated (batch, ctx))
    4 CTXLIST (tuple of per-sample ctx dicts) 5 CTXDICT (one batched ctx dict). default_collate / zip(*batch) /
    tuple unpacking are the only layout-changing operations (torch default_collate contract, DESIGN section 4)."""
    label = "batch"

    def __init__(self, layout, origin):
        self.layout = layout if not isinstance(layout, int) else z3.IntVal(layout)
        self.origin = origin

    def havoc(self, label):
        return AbsBatch(z3.Int(uid(label + "$layout")), z3.Const(uid(label + "$origin"), ValSort))

    def isinstance(self, clsname, st, eng):
        if clsname == "dict":
            return self.layout == CTXDICT
        if clsname in ("tuple", "list"):
            return z3.Or(self.layout == RAW, self.layout == RAW_CTX, self.layout == CTXLIST, self.layout == COLLATED_PAIR)
        return None

    def unpack(self, n, st, eng, node):
        eng.safety(st, "batch:unpack-pair", z3.And(self.layout == COLLATED_PAIR, n == 2), node,
                   "`batch, ctx = batch` on something that is not a collated (batch, ctx) pair")
        return [AbsBatch(COLLATED, self.origin), AbsBatch(CTXDICT, self.origin)]

    def zip_star(self, st, eng, node):
        eng.safety(st, "batch:zip-star-needs-raw-ctx", self.layout == RAW_CTX, node,
                   "zip(*batch) on a batch that is not a list of (sample, ctx) pairs")
        return VTuple([AbsBatch(RAW, self.origin), AbsBatch(CTXLIST, self.origin)])


def default_collate_handler(args, kwargs, st, eng):
    b = eng.deref(args[0], st)
    if isinstance(b, AbsBatch):
        eng.safety(st, "default_collate:not-yet-collated", z3.Or(b.layout == RAW, b.layout == RAW_CTX, b.layout == CTXLIST), None,
                   "default_collate applied to an already collated batch")
        if "g_ndc" in st.ghost:
            st.ghost["g_ndc"] = VInt(st.ghost["g_ndc"].t + z3.If(b.layout == CTXLIST, 0, 1))
        lay = z3.If(b.layout == RAW, COLLATED, z3.If(b.layout == RAW_CTX, COLLATED_PAIR, CTXDICT))
        return AbsBatch(lay, b.origin)
    return fresh(VAL, "collated")


class AbsCollator(VAbs):
    """a KDSingleCollator member: default_collate_mode in {None, 'before', 'after'}; collate() must be handed the
    layout its mode asks for (collated for 'before', raw otherwise) and returns a batch of the same layout"""
    label = "collator"

    def __init__(self, name, idx=()):
        self.name, self.idx = name, tuple(idx)
        self.mode = _fn(name + "$mode", idx, z3.IntSort())      # 0 None, 1 before, 2 after

    def key(self):
        return (self.name, self.idx)

    def isinstance(self, clsname, st, eng):
        return z3.BoolVal(clsname.endswith("KDSingleCollator") or clsname.endswith("KDCollatorBase"))

    def getattr(self, name, st, eng):
        if name == "default_collate_mode":
            st.assume(z3.And(0 <= self.mode, self.mode <= 2)) if not self.idx else None
            m = self.mode
            return VOpt(m == 0, VStr(t=z3.If(m == 1, VStr("before").t, VStr("after").t)))
        if name == "collate":
            def f(args, kwargs, s, e):
                b = kwargs.get("batch", args[0] if args else None)
                b = e.deref(b, s)
                if isinstance(b, AbsBatch):
                    e.safety(s, "collate:layout-matches-mode", z3.If(self.mode == 1, b.layout == COLLATED, b.layout == RAW), None,
                             "a member collator is handed a batch layout other than the one its default_collate_mode asks for", assume=False)
                    if "g_ncollate" in s.ghost:
                        s.ghost["g_ncollate"] = VInt(s.ghost["g_ncollate"].t + 1)
                    return AbsBatch(b.layout, b.origin)
                return fresh(VAL, "collated")
            return VFunc("collator.collate", f)
        if name == "set_rng":
            def f(args, kwargs, s, e):
                if "g_rng_set" in s.ghost:
                    s.ghost["g_rng_set"] = _upd(s.ghost["g_rng_set"], self.idx[0] if self.idx else z3.IntVal(0), VBool(True))
                return self
            return VFunc("collator.set_rng", f)
        raise KeyError(name)


COLLATOR = TAbs(lambda name, idx: AbsCollator(name, idx), "collator")
BATCH = TAbs(lambda name, idx: AbsBatch(z3.Int(name + "$layout"), z3.Const(name + "$origin", ValSort)), "batch")

TRANSFORM = TAbs(lambda name, idx: AbsTransform(name, idx), "transform")
SCHEDULE = TAbs(lambda name, idx: AbsSchedule(name, idx), "schedule")

SAMPLER = TAbs(lambda name, idx: AbsSampler(name, idx), "sampler")
DATASET = TAbs(lambda name, idx: AbsDataset(name, idx), "dataset")


class _NullableDataset(AbsDataset):
    nullable = True


DATASET_NULLABLE = TAbs(lambda name, idx: _NullableDataset(name, idx), "dataset(nullable samples)")
CALLABLE = TAbs(lambda name, idx: AbsCallable(name, idx), "callable")


def install_spec_builtins(eng):
    def sampler_elem(args, kwargs, st, eng):
        s = args[0]
        return s.elem(_e.to_int(args[1]), _e.to_int(args[2]))
    eng.spec_builtins["SamplerElem"] = VFunc("SamplerElem", sampler_elem)

    def has_set_epoch(args, kwargs, st, eng):
        return VBool(args[0].has_set_epoch)
    eng.spec_builtins["HasSetEpoch"] = VFunc("HasSetEpoch", has_set_epoch)

    def data_of(args, kwargs, st, eng):
        return args[0].ds
    eng.spec_builtins["DataOf"] = VFunc("DataOf", data_of)

    def item(args, kwargs, st, eng):
        return args[0].getitem(args[1], st, eng)
    eng.spec_builtins["Item"] = VFunc("Item", item)

    def kitem(args, kwargs, st, eng):           # KItem(ds, "getitem_x" | "getall_x" -> "x", k)
        nm = args[1].s
        return args[0].item(VStr(nm).t, _e.to_int(args[2]))
    eng.spec_builtins["KItem"] = VFunc("KItem", kitem)

    def label_of(args, kwargs, st, eng):
        args[0].label_axioms(st)
        return args[0].item(VStr("class").t, _e.to_int(args[1]))
    eng.spec_builtins["LabelOf"] = VFunc("LabelOf", label_of)
    eng.spec_builtins["NumClasses"] = VFunc("NumClasses", lambda a, k, s, e: VInt(a[0].ncls()))

    def root(args, kwargs, st, eng):
        return args[0].getattr("root_dataset", st, eng)
    eng.spec_builtins["Root"] = VFunc("Root", root)

    def attr(args, kwargs, st, eng):
        return args[0].getattr(args[1].s, st, eng)
    eng.spec_builtins["Attr"] = VFunc("Attr", attr)

    def iskd(args, kwargs, st, eng):
        return VBool(args[0].is_kd)
    eng.spec_builtins["IsKD"] = VFunc("IsKD", iskd)

    def sched(args, kwargs, st, eng):
        f = args[0].getattr("get_value", st, eng)
        return f.fn(list(args[1:]), {}, st, eng)
    eng.spec_builtins["SchedValue"] = VFunc("SchedValue", sched)

    def dict_get(args, kwargs, st, eng):
        d = args[0].inner if isinstance(args[0], VOpt) else args[0]
        present, val = eng.dict_get(d, args[1], st)
        return val if val is not None else NONEV
    eng.spec_builtins["DictGet"] = VFunc("DictGet", dict_get)

    def dict_has(args, kwargs, st, eng):
        d = args[0].inner if isinstance(args[0], VOpt) else args[0]
        return VBool(eng.dict_get(d, args[1], st)[0])
    eng.spec_builtins["DictHas"] = VFunc("DictHas", dict_has)

    def layout(args, kwargs, st, eng):
        b = eng.deref(args[0], st)
        if isinstance(b, AbsBatch):
            return VInt(b.layout)
        if isinstance(b, HObj) and b.cls == "builtins.dict":
            return VInt(CTXDICT)
        return VInt(-1)
    eng.spec_builtins["Layout"] = VFunc("Layout", layout)

    def origin(args, kwargs, st, eng):
        b = eng.deref(args[0], st)
        return VVal(b.origin) if isinstance(b, AbsBatch) else fresh(VAL, "noorigin")
    eng.spec_builtins["Origin"] = VFunc("Origin", origin)

    def mode_of(args, kwargs, st, eng):
        return VInt(args[0].mode)
    eng.spec_builtins["ModeOf"] = VFunc("ModeOf", mode_of)

    eng.spec_builtins["ModeItems"] = VFunc("ModeItems", lambda a, k, s, e: a[0].items)

    def comp(args, kwargs, st, eng):
        return VVal(Comp(args[0].t, _e.to_int(args[1])))
    eng.spec_builtins["CompOf"] = VFunc("CompOf", comp)

    def getter_out(args, kwargs, st, eng):
        return args[0].out(_e.to_int(args[1]))
    eng.spec_builtins["Out"] = VFunc("Out", getter_out)
    eng.spec_builtins["IsList"] = VFunc("IsList", lambda a, k, s, e: VBool(a[0].is_list))
    eng.spec_builtins["Single"] = VFunc("Single", lambda a, k, s, e: VInt(a[0].as_int))
    eng.spec_builtins["Multi"] = VFunc("Multi", lambda a, k, s, e: a[0].multi(_e.to_int(a[1])))
    eng.spec_builtins["NMulti"] = VFunc("NMulti", lambda a, k, s, e: VInt(z3.If(a[0].n >= 0, a[0].n, 0)))

    def has_field(args, kwargs, st, eng):
        h = st.heap[args[0].oid]
        return VBool(args[1].s in h.fields)
    eng.spec_builtins["HasField"] = VFunc("HasField", has_field)

    def call_attr(args, kwargs, st, eng):
        f = args[0].getattr(args[1].s, st, eng)
        r = f.fn(list(args[2:]), {}, st, eng)
        return r[0][1] if isinstance(r, list) else r
    eng.spec_builtins["CallAttr"] = VFunc("CallAttr", call_attr)
