"""Expression evaluation: python `ast` expressions -> symbolic values.

ev(node, st) -> list[(State, V)]   (may fork, may emit safety/defined obligations)
In spec mode (self.spec_depth > 0) evaluation never forks and never emits obligations.
"""
import ast
import z3
from .values import *  # noqa
from .state import *  # noqa


def py_floordiv(a, b):
    """python floor division on z3 ints (z3 div is euclidean: equals floor for positive divisors)"""
    if z3.is_int_value(b):
        return a / b if b.as_long() > 0 else (-a) / (-b)
    return z3.If(b > 0, a / b, (-a) / (-b))


def py_mod(a, b):
    if z3.is_int_value(b):
        return a % b if b.as_long() > 0 else -((-a) % (-b))
    return z3.If(b > 0, a % b, -((-a) % (-b)))


def to_real(v):
    if isinstance(v, VReal): return v.t
    if isinstance(v, VInt): return z3.ToReal(v.t)
    if isinstance(v, VBool): return z3.If(v.t, z3.RealVal(1), z3.RealVal(0))
    raise Unsupported(f"to_real({v!r})")


def to_int(v):
    if isinstance(v, VInt): return v.t
    if isinstance(v, VAbs) and hasattr(v, "as_int"): return v.as_int
    if isinstance(v, VOpt): return to_int(v.inner)     # callers have established / obliged non-None
    if isinstance(v, VBool): return z3.If(v.t, z3.IntVal(1), z3.IntVal(0))
    raise Unsupported(f"to_int({v!r})")


class ExprMixin:
    # ------------------------------------------------------------------ helpers
    def deref(self, v, st):
        if isinstance(v, VRef):
            return st.heap[v.oid]
        return v

    def truth(self, v, st):
        v = self.deref(v, st)
        if isinstance(v, VBool): return v.t
        if isinstance(v, VInt): return v.t != 0
        if isinstance(v, VReal): return v.t != 0
        if isinstance(v, VNone): return z3.BoolVal(False)
        if isinstance(v, VOpt): return z3.And(z3.Not(v.isnone), self.truth(v.inner, st))
        if isinstance(v, VSeq): return v.len > 0
        if isinstance(v, VTuple): return z3.BoolVal(len(v.elems) > 0)
        if isinstance(v, VStr):
            if v.s is not None: return z3.BoolVal(len(v.s) > 0)
            raise Unsupported("truthiness of symbolic string")
        if isinstance(v, (HObj, VRec, VFunc, VClass)): return z3.BoolVal(True)
        if isinstance(v, VAbs): return v.truth(st, self)
        if isinstance(v, VVal): return z3.BoolVal(True)
        raise Unsupported(f"truthiness of {v!r}")

    def unopt(self, v, st, node, what="operand"):
        """strip Optional for use as an operand; code mode: obligation that it is not None"""
        if isinstance(v, VOpt):
            if not self.spec_depth:
                self.oblige(st, f"notnone:{what}", "safety", z3.Not(v.isnone), node,
                            note=f"{what} may be None")
                st.assume(z3.Not(v.isnone))
            return v.inner
        if isinstance(v, VNone) and not self.spec_depth:
            self.oblige(st, f"notnone:{what}", "safety", z3.BoolVal(False), node, note=f"{what} is None")
        return v

    def ev1(self, node, st):
        """spec-mode evaluation: exactly one result"""
        self.spec_depth += 1
        try:
            res = self.ev(node, st)
        finally:
            self.spec_depth -= 1
        if len(res) != 1:
            raise SpecError(f"spec expression forks: {ast.unparse(node)}")
        return res[0][1]

    def ev_join(self, node, st):
        """evaluate a side-effect free expression that may fork internally (calls with branches) and join the
        results into one value; obligations are not emitted (the expression is re-evaluated per use)"""
        self.spec_depth += 1          # no obligations, no allocation
        saved_raises = self.pending_raises
        saved_env = self.spec_env
        self.spec_env = []            # code names, not spec names (`result`, `value`, bound variables)
        self.pending_raises = []
        self.join_mode += 1
        try:
            res = self.ev(node, st.fork())
            raised = self.pending_raises
        finally:
            self.spec_depth -= 1
            self.join_mode -= 1
            self.pending_raises = saved_raises
            self.spec_env = saved_env
        raised = [(s_, e) for s_, e in raised if feasible(s_.pc)]
        if raised:
            raise Unsupported(f"element expression may raise {raised[0][1]}", node)
        if len(res) == 1:
            return self.deref(res[0][1], res[0][0])
        for s_, v in res:
            s_.locals = dict(s_.locals, __join=self.deref(v, s_))
        m = merge_states([s_ for s_, _ in res])
        if m is None:
            raise Unsupported("cannot join forked element expression", node)
        return m.locals["__join"]

    def ev_seq(self, nodes, st):
        """evaluate nodes left to right -> list[(st, [values])]"""
        acc = [(st, [])]
        for n in nodes:
            nxt = []
            for s, vals in acc:
                for s2, v in self.ev(n, s):
                    nxt.append((s2, vals + [v]))
            acc = nxt
        return acc

    # ------------------------------------------------------------------ dispatcher
    def ev(self, node, st):
        m = getattr(self, "ev_" + type(node).__name__, None)
        if m is None:
            raise Unsupported(f"expression {type(node).__name__}: {ast.unparse(node)[:60]}", node)
        return m(node, st)

    def ev_Constant(self, node, st):
        c = node.value
        if c is None: return [(st, NONEV)]
        if isinstance(c, bool): return [(st, VBool(c))]
        if isinstance(c, int): return [(st, VInt(c))]
        if isinstance(c, float): return [(st, VReal(c))]
        if isinstance(c, str): return [(st, VStr(c))]
        if c is Ellipsis: return [(st, VStr("..."))]
        raise Unsupported(f"constant {c!r}", node)

    def ev_JoinedStr(self, node, st):
        parts = []
        for v in node.values:
            if isinstance(v, ast.Constant):
                parts.append(str(v.value))
            elif isinstance(v, ast.FormattedValue) and v.format_spec is None and v.conversion == -1:
                try:
                    r = self.ev(v.value, st)
                except (Unsupported, PathEnd):
                    r = []
                if len(r) == 1 and isinstance(r[0][1], VStr) and r[0][1].s is not None:
                    parts.append(r[0][1].s)
                else:
                    return [(st, VStr(t=fresh(STR, "fstr").t))]
            else:
                return [(st, VStr(t=fresh(STR, "fstr").t))]
        return [(st, VStr("".join(parts)))]

    def ev_Name(self, node, st):
        v = self.lookup(node.id, st, node)
        return [(st, v)]

    def lookup(self, name, st, node=None):
        if self.spec_depth:
            for env in reversed(self.spec_env):
                if name in env:
                    return env[name]
        if name in st.locals:
            v = st.locals[name]
            if v is MAYBE_MARK[0]:
                raise Unsupported(f"local '{name}' is only bound inside a loop body and read after it", node)
            if v is UNBOUND:
                if self.spec_depth:
                    raise SpecError(f"spec reads unbound local '{name}'")
                self.oblige(st, f"defined:{name}", "defined", z3.BoolVal(False), node,
                            note=f"local '{name}' read before assignment on this path")
                raise PathEnd("unbound")
            return v
        if self.spec_depth:
            if name in st.ghost: return st.ghost[name]
            if name in st.consts: return st.consts[name]
            if name in self.defs:
                if not self.defs[name][0]:
                    return self.spec_val(self.defs[name][1], st, {})
                return VFunc(name, self.make_macro(name))
            if name in self.spec_builtins: return self.spec_builtins[name]
        elif name in st.ghost and name in self.ghost_visible:
            return st.ghost[name]
        v = self.module_name(name)
        if v is not None:
            return v
        if name in self.builtins:
            return self.builtins[name]
        if self.spec_depth:
            raise SpecError(f"spec name '{name}' not resolvable in {self.cur_func}")
        import builtins as _b
        if hasattr(_b, name):
            raise Unsupported(f"python builtin '{name}' is not modelled", node)
        self.oblige(st, f"defined:{name}", "defined", z3.BoolVal(False), node,
                    note=f"name '{name}' is not bound (no local, no module-level binding, no builtin)")
        raise PathEnd("unbound")

    def ev_Attribute(self, node, st):
        out = []
        for s, base in self.ev(node.value, st):
            out.extend(self.getattr(base, node.attr, s, node))
        return out

    def getattr(self, base, attr, st, node=None):
        if isinstance(base, VRef):
            h = st.heap[base.oid]
            if isinstance(h, HObj):
                if attr in h.fields:
                    return [(st, h.fields[attr])]
                bm = self.bound_method(base, h, attr, st)
                if bm is not None:
                    return bm if isinstance(bm, list) else [(st, bm)]
                if self.spec_depth:
                    raise SpecError(f"no attribute {h.cls}.{attr}")
                if h.typ is not None and self.class_assigns(h.cls, attr):
                    # the class does set this field somewhere: the sidecar's field list is out of date, not the code
                    raise Unsupported(f"field {attr} of {h.cls.split('::')[-1]} is not declared in the sidecar contract", node)
                self.oblige(st, f"attr:{attr}", "defined", z3.BoolVal(False), node,
                            note=f"{h.cls} object has no attribute '{attr}' on this path")
                raise PathEnd("attr")
            if isinstance(h, VSeq):
                if attr in ("ndim", "shape", "dtype", "device", "T"):
                    return [(st, self.seq_data_attr(h, attr, node))]
                f_ = VFunc(f"list.{attr}", self.list_method(base, attr))
                f_.any_args = attr in ("view", "reshape")
                return [(st, f_)]
        if isinstance(base, VRec):
            if attr in base.fields:
                return [(st, base.fields[attr])]
            raise Unsupported(f"record {base.name} has no field {attr}", node)
        if isinstance(base, VOpt):
            inner = self.unopt(base, st, node, what=f"receiver of .{attr}")
            return self.getattr(inner, attr, st, node)
        if isinstance(base, VAbs):
            try:
                r = base.getattr(attr, st, self)
            except KeyError:
                raise Unsupported(f"{base.label}.{attr}", node)
            return r if isinstance(r, list) else [(st, r)]
        if isinstance(base, VModule):
            return [(st, self.module_attr(base, attr, node))]
        if isinstance(base, VSeq):
            if attr in ("ndim", "shape", "dtype", "device", "T"):
                return [(st, self.seq_data_attr(base, attr, node))]
            f_ = VFunc(f"seq.{attr}", self.seq_method(base, attr))
            f_.any_args = attr in ("view", "reshape")
            return [(st, f_)]
        if isinstance(base, (VReal, VInt)) and attr in ("view", "float", "long", "item", "type", "double"):
            f_ = VFunc(f"scalar.{attr}", lambda a, k, s, e, base=base: base)      # 0-d tensors / numpy scalars
            f_.any_args = True
            return [(st, f_)]
        if isinstance(base, VStr) and base.s is not None and attr in ("startswith", "endswith"):
            def strfn(args, kwargs, s_, eng, base=base, attr=attr):
                a = args[0]
                if not isinstance(a, VStr) or a.s is None:
                    raise Unsupported("str method with symbolic argument")
                return VBool(getattr(base.s, attr)(a.s))
            return [(st, VFunc(f"str.{attr}", strfn))]
        if isinstance(base, VStr) and attr in ("startswith", "endswith", "format", "split", "join", "lower", "upper"):
            raise Unsupported(f"str.{attr} on a symbolic string", node)
        if isinstance(base, VClass) and "::" in base.name and attr != "__name__":
            r = self.find_method(base.name, attr)
            if r is not None and r[0] == "repo" and f"{base.name}.{attr}" in self.externals:
                key = f"{base.name}.{attr}"

                def ext(a, k, s, e, key=key):
                    e.used_trusted.add(f"assumed-contract:{key}")
                    rr = e.externals[key](a, k, s, e)
                    return rr if isinstance(rr, list) else [(s, rr)]
                return [(st, VFunc(key, ext))]
            if r is not None and r[0] == "repo":
                fi = r[1]
                return [(st, VFunc(f"{base.name}.{attr}", lambda a, k, s, e, fi=fi: e.inline(fi, None, a, k, s)
                                   if not e.spec_depth else e.pure_call(fi, None, a, k, s)))]
        if isinstance(base, VClass) and attr == "__name__":
            return [(st, VStr(base.name))]
        raise Unsupported(f"attribute .{attr} on {base!r}", node)

    # ------------------------------------------------------------------ operators
    def ev_UnaryOp(self, node, st):
        out = []
        for s, v in self.ev(node.operand, st):
            if isinstance(node.op, ast.Not):
                out.append((s, VBool(z3.Not(self.truth(v, s)))))
            elif isinstance(node.op, ast.USub):
                v = self.unopt(v, s, node)
                out.append((s, VReal(-v.t) if isinstance(v, VReal) else VInt(-to_int(v))))
            elif isinstance(node.op, ast.UAdd):
                out.append((s, v))
            elif isinstance(node.op, ast.Invert) and isinstance(self.deref(v, s), VSeq) and isinstance(self.deref(v, s).etype, TBool):
                m = self.deref(v, s)
                r = VSeq(m.len, lambda k, m=m: VBool(z3.Not(m.elem(k).t)), BOOL)
                r.kind = m.kind
                out.append((s, r))
            else:
                raise Unsupported("unary op", node)
        return out

    def ev_BinOp(self, node, st):
        out = []
        for s, (a, b) in self.ev_seq([node.left, node.right], st):
            out.extend(self.binop(node.op, a, b, s, node))
        return out

    def is_numeric_tensor(self, v, st):
        return isinstance(v, VSeq) and isinstance(v.etype, (TInt, TReal)) and v.kind is not None and \
            self.decide(st, z3.Or(v.kind == 1, v.kind == 2)) is True

    def elementwise(self, op, a, b, st, node):
        """a (op) b for numeric tensors; None when neither operand is one (python list semantics apply)"""
        ta, tb = self.is_numeric_tensor(a, st), self.is_numeric_tensor(b, st)
        if not (ta or tb):
            return None
        if (isinstance(a, VSeq) and not ta) or (isinstance(b, VSeq) and not tb):
            return None
        if not all(isinstance(x, (VSeq, VInt, VReal, VBool)) for x in (a, b)):
            return None
        self.used_trusted.add("model:elementwise arithmetic of numeric tensors / arrays with broadcasting of scalars and one-element operands")
        if ta and tb:
            same = z3.Or(a.len == b.len, a.len == 1, b.len == 1)
            self.safety(st, "tensor:broadcastable", same, node, "elementwise operands have equal lengths or one of them has length one")
            n = z3.If(a.len == 1, b.len, a.len)
        else:
            n = a.len if ta else b.len
        real = isinstance(op, ast.Div) or any(isinstance(x, VReal) or (isinstance(x, VSeq) and isinstance(x.etype, TReal)) for x in (a, b))

        def at(x, k):
            if isinstance(x, VSeq):
                return x.elem(z3.If(x.len == 1, 0, k) if (ta and tb) else k)
            return x

        def el(k):
            x, y = at(a, k), at(b, k)
            if real:
                x, y = to_real(x), to_real(y)
                if isinstance(op, ast.Div):
                    return VReal(x / y)
                return VReal({ast.Add: x + y, ast.Sub: x - y, ast.Mult: x * y}[type(op)])
            x, y = to_int(x), to_int(y)
            return VInt({ast.Add: x + y, ast.Sub: x - y, ast.Mult: x * y}[type(op)])
        if isinstance(op, ast.Div):
            k = z3.Int(uid("k"))
            self.safety(st, "div:nonzero", z3.ForAll([k], z3.Implies(z3.And(0 <= k, k < n), to_real(at(b, k)) != 0)), node, "division by zero")
        r = VSeq(n, el, REAL if real else INT)
        r.kind = (a if ta else b).kind
        return r

    def binop(self, op, a, b, st, node):
        a = self.unopt(self.deref(a, st), st, node, "left operand")
        b = self.unopt(self.deref(b, st), st, node, "right operand")
        # numeric tensors / arrays: elementwise arithmetic with broadcasting of scalars and one-element operands
        if (isinstance(a, VSeq) or isinstance(b, VSeq)) and isinstance(op, (ast.Add, ast.Sub, ast.Mult, ast.Div)):
            r = self.elementwise(op, a, b, st, node)
            if r is not None:
                return [(st, r)]
        # sequences
        if isinstance(a, VSeq) or isinstance(b, VSeq):
            if isinstance(op, ast.Add) and isinstance(a, VSeq) and isinstance(b, VSeq):
                return [(st, self.fresh_list(self.seq_concat(a, b), st))]
            if isinstance(op, ast.Mult):
                sq, n = (a, b) if isinstance(a, VSeq) else (b, a)
                n = to_int(n)
                res = VSeq(z3.If(n > 0, sq.len * n, 0), lambda i: sq.elem(py_mod(i, sq.len)), sq.etype)
                return [(st, self.fresh_list(res, st))]
            raise Unsupported("sequence operator", node)
        if isinstance(a, VTuple) and isinstance(b, VTuple) and isinstance(op, ast.Add):
            return [(st, VTuple(a.elems + b.elems))]
        if isinstance(a, VAbs):
            r = a.call_method({ast.Add: "__add__", ast.Sub: "__sub__", ast.Mult: "__mul__", ast.Div: "__truediv__"}.get(type(op), "?"),
                              [b], {}, st, self)
            return r
        if isinstance(b, VAbs):
            return b.call_method({ast.Add: "__radd__", ast.Sub: "__rsub__", ast.Mult: "__rmul__", ast.Div: "__rtruediv__"}.get(type(op), "?"),
                                 [a], {}, st, self)
        if isinstance(a, VStr) or isinstance(b, VStr):
            return [(st, VStr(t=fresh(STR, "strop").t))]
        if isinstance(op, (ast.BitXor, ast.BitAnd, ast.BitOr)) and isinstance(a, VBool) and isinstance(b, VBool):
            f = {ast.BitXor: z3.Xor, ast.BitAnd: z3.And, ast.BitOr: z3.Or}[type(op)]
            return [(st, VBool(f(a.t, b.t)))]
        real = isinstance(a, VReal) or isinstance(b, VReal)
        if isinstance(op, ast.Div):
            x, y = to_real(a), to_real(b)
            self.safety(st, "div:nonzero", y != 0, node, "division by zero")
            r = VReal(x / y)
            if not real and not isinstance(a, VReal) and not isinstance(b, VReal):
                r.ratio = (to_int(a), to_int(b))      # int / int: lets int(a / b) be computed exactly
            return [(st, r)]
        if real:
            x, y = to_real(a), to_real(b)
            if isinstance(op, ast.Add): return [(st, VReal(x + y))]
            if isinstance(op, ast.Sub): return [(st, VReal(x - y))]
            if isinstance(op, ast.Mult): return [(st, VReal(x * y))]
            if isinstance(op, ast.Pow) and z3.is_rational_value(y) and y.denominator_as_long() == 1 \
                    and 0 <= y.numerator_as_long() <= 4:
                r = z3.RealVal(1)
                for _ in range(y.numerator_as_long()):
                    r = r * x
                return [(st, VReal(r))]
            if isinstance(op, ast.FloorDiv):
                self.safety(st, "div:nonzero", y != 0, node, "division by zero")
                return [(st, VReal(z3.ToReal(z3.ToInt(x / y))))]
            raise Unsupported("real operator", node)
        x, y = to_int(a), to_int(b)
        if isinstance(op, ast.Add): return [(st, VInt(x + y))]
        if isinstance(op, ast.Sub): return [(st, VInt(x - y))]
        if isinstance(op, ast.Mult): return [(st, VInt(x * y))]
        if isinstance(op, ast.FloorDiv):
            self.safety(st, "div:nonzero", y != 0, node, "integer division by zero")
            self.safety(st, "div:positive-divisor", y > 0, node, "only positive divisors are modelled", kind="model")
            return [(st, VInt(x / y))]
        if isinstance(op, ast.Mod):
            self.safety(st, "mod:nonzero", y != 0, node, "modulo by zero")
            self.safety(st, "mod:positive-divisor", y > 0, node, "only positive divisors are modelled", kind="model")
            return [(st, VInt(x % y))]
        if isinstance(op, ast.Pow) and z3.is_int_value(y) and 0 <= y.as_long() <= 4:
            r = z3.IntVal(1)
            for _ in range(y.as_long()):
                r = r * x
            return [(st, VInt(r))]
        raise Unsupported(f"operator {type(op).__name__}", node)

    def seq_data_attr(self, sq, attr, node):
        """data attributes of tensors / arrays are values, not methods (a method object would compare unequal to everything):
        ndim of a sequence of scalars is 1 (only the leading dimension is modelled); anything else is outside the subset"""
        if attr == "ndim" and isinstance(sq.etype, (TInt, TReal, TBool)):
            return VInt(1)
        raise Unsupported(f"seq.{attr} (data attribute of a tensor / array)", node)

    def ev_BoolOp(self, node, st):
        is_and = isinstance(node.op, ast.And)

        def go(vals_nodes, st):
            head, rest = vals_nodes[0], vals_nodes[1:]
            out = []
            for s, v in self.ev(head, st):
                if not rest:
                    out.append((s, v))
                    continue
                c = self.truth(v, s)
                # short circuit: value is v when (and: falsy / or: truthy), else value of the rest
                take_v = z3.Not(c) if is_and else c
                take_v = z3.simplify(take_v)
                if z3.is_true(take_v):
                    out.append((s, v)); continue
                if z3.is_false(take_v):
                    out.extend(go(rest, s)); continue
                if self.spec_depth:
                    r = go(rest, s)
                    if len(r) != 1:
                        raise SpecError("spec boolop forks")
                    out.append((s, self.merge_short(take_v, v, r[0][1], is_and, s)))
                    continue
                # code mode: evaluate the rest under the assumption it is reached
                s_rest = s.fork().assume(z3.Not(take_v))
                rs = go(rest, s_rest)
                merged = None
                if len(rs) == 1 and len(rs[0][0].pc) == len(s_rest.pc) and not self.effects_since(s_rest, rs[0][0]):
                    try:
                        rv = rs[0][1]
                        if isinstance(rv, VRef) and isinstance(rs[0][0].heap.get(rv.oid), VSeq):
                            vv = v.inner if isinstance(v, VOpt) else v
                            if isinstance(vv, VSeq):
                                rv = rs[0][0].heap[rv.oid]
                        merged = self.merge_short(take_v, v, rv, is_and, s)
                    except MergeError:
                        merged = None
                if merged is not None:
                    out.append((s, merged))
                else:
                    s_v = s.fork().assume(take_v)
                    if feasible(s_v.pc):
                        out.append((s_v, v))
                    for s2, v2 in rs:
                        if feasible(s2.pc):
                            out.append((s2, v2))
            return out
        return go(node.values, st)

    def effects_since(self, a, b):
        return a.heap.keys() != b.heap.keys() or any(a.heap[k] is not b.heap[k] and not isinstance(a.heap[k], HObj)
                                                     for k in a.heap) or a.ghost != b.ghost

    def merge_short(self, take_v, v, rest, is_and, st):
        """value of `v and rest` / `v or rest` as one term"""
        v = self.deref(v, st) if not isinstance(v, VRef) else v
        if isinstance(v, VBool) and isinstance(rest, VBool):
            return VBool(z3.And(v.t, rest.t) if is_and else z3.Or(v.t, rest.t))
        if not is_and and isinstance(v, VOpt):
            v = v.inner          # taken only when truthy, hence not None
        if not is_and and isinstance(v, VNone):
            return rest
        return ite(take_v, v, rest)

    def ev_Compare(self, node, st):
        out = []
        operands = [node.left] + list(node.comparators)
        for s, vals in self.ev_seq(operands, st):
            if len(node.ops) == 1:
                out.append((s, self.compare_val(node.ops[0], vals[0], vals[1], s, node)))
                continue
            conj = []
            for op, a, b in zip(node.ops, vals, vals[1:]):
                conj.append(self.compare(op, a, b, s, node))
            out.append((s, VBool(z3.And(conj) if len(conj) > 1 else conj[0])))
        return out

    def compare_val(self, op, a, b, st, node):
        """comparison result as a value: elementwise for tensors / numpy arrays"""
        da, db = self.deref(a, st), self.deref(b, st)
        for x, y, flip in ((da, db, False), (db, da, True)):
            if isinstance(x, VSeq) and x.kind is not None and isinstance(y, (VInt, VReal, VBool)) and \
                    isinstance(op, (ast.Eq, ast.NotEq, ast.Lt, ast.LtE, ast.Gt, ast.GtE)) and \
                    self.decide(st, z3.Or(x.kind == 1, x.kind == 2)) is True:
                r = VSeq(x.len, lambda k, x=x, y=y, flip=flip: VBool(self.compare(op, y, x.elem(k), st, node) if flip
                                                                     else self.compare(op, x.elem(k), y, st, node)), BOOL)
                r.kind = x.kind
                return r
        return VBool(self.compare(op, a, b, st, node))

    def compare(self, op, a, b, st, node):
        a = a if isinstance(a, VRef) and isinstance(st.heap.get(a.oid), HObj) else self.deref(a, st)
        b = b if isinstance(b, VRef) and isinstance(st.heap.get(b.oid), HObj) else self.deref(b, st)
        if isinstance(op, (ast.Is, ast.IsNot)):
            if isinstance(b, VNone):
                r = a.isnone if isinstance(a, VOpt) else z3.BoolVal(isinstance(a, VNone))
            elif isinstance(a, VNone):
                r = b.isnone if isinstance(b, VOpt) else z3.BoolVal(isinstance(b, VNone))
            elif isinstance(a, VBool) and isinstance(b, VBool):
                r = a.t == b.t
            else:
                r = veq(a, b)
            return z3.Not(r) if isinstance(op, ast.IsNot) else r
        if isinstance(op, (ast.Eq, ast.NotEq)):
            r = veq(a, b)
            return z3.Not(r) if isinstance(op, ast.NotEq) else r
        if isinstance(op, (ast.In, ast.NotIn)):
            r = self.contains(b, a, st, node)
            return z3.Not(r) if isinstance(op, ast.NotIn) else r
        a = self.unopt(a, st, node, "comparison operand")
        b = self.unopt(b, st, node, "comparison operand")
        if isinstance(a, VReal) or isinstance(b, VReal):
            x, y = to_real(a), to_real(b)
        else:
            x, y = to_int(a), to_int(b)
        if isinstance(op, ast.Lt): return x < y
        if isinstance(op, ast.LtE): return x <= y
        if isinstance(op, ast.Gt): return x > y
        if isinstance(op, ast.GtE): return x >= y
        raise Unsupported("comparison", node)

    def contains(self, container, item, st, node):
        if isinstance(container, HObj) and container.cls == "builtins.dict":
            ents = container.fields["entries"].elems
            return z3.Or([veq(e.elems[0], item) for e in ents]) if ents else z3.BoolVal(False)
        if isinstance(container, VTuple):
            return z3.Or([veq(item, e) for e in container.elems]) if container.elems else z3.BoolVal(False)
        if isinstance(container, VSeq):
            if container.concrete is not None:
                return z3.Or([veq(item, e) for e in container.concrete]) if container.concrete else z3.BoolVal(False)
            k = z3.Int(uid("ink"))
            return z3.Exists([k], z3.And(0 <= k, k < container.len, veq(container.elem(k), item)))
        if isinstance(container, VAbs):
            return self.truth(container.call_method("__contains__", [item], {}, st, self)[0][1], st)
        raise Unsupported("`in` on this container", node)

    def ev_IfExp(self, node, st):
        out = []
        for s, c in self.ev(node.test, st):
            ct = z3.simplify(self.truth(c, s))
            if z3.is_true(ct):
                out.extend(self.ev(node.body, s)); continue
            if z3.is_false(ct):
                out.extend(self.ev(node.orelse, s)); continue
            if self.spec_depth:
                # the path condition may settle the choice (e.g. a flag the executed path has already tested)
                if not feasible(list(s.pc) + [ct], 300):
                    out.extend(self.ev(node.orelse, s)); continue
                if not feasible(list(s.pc) + [z3.Not(ct)], 300):
                    out.extend(self.ev(node.body, s)); continue
                a = self.ev(node.body, s)[0][1]
                b = self.ev(node.orelse, s)[0][1]
                try:
                    out.append((s, ite(ct, a, b)))
                except MergeError:
                    # branches of different shape (a bare value / a tuple): keep the choice symbolic; equality distributes over it
                    out.append((s, VSpecIte(ct, a, b)))
                continue
            sa = s.fork().assume(ct)
            sb = s.fork().assume(z3.Not(ct))
            if feasible(sa.pc):
                out.extend(self.ev(node.body, sa))
            if feasible(sb.pc):
                out.extend(self.ev(node.orelse, sb))
        return out

    def ev_Dict(self, node, st):
        if any(k is None for k in node.keys):
            raise Unsupported("dict unpacking", node)
        out = []
        for s, vals in self.ev_seq(list(node.keys) + list(node.values), st):
            n = len(node.keys)
            entries = [VTuple([k, v]) for k, v in zip(vals[:n], vals[n:])]
            out.append((s, s.alloc(HObj("builtins.dict", {"entries": VTuple(entries)}))))
        return out

    def dict_get(self, ref, key, st, default=None):
        """value stored under key (last write wins), or default / a `present` condition"""
        ents = st.heap[ref.oid].fields["entries"].elems
        present = z3.BoolVal(False)
        val = default
        for e in ents:
            k, v = e.elems
            hit = veq(k, key)
            present = z3.Or(present, hit)
            val = v if val is None else ite(hit, v, val)
        return present, val

    def is_dict(self, v, st):
        return isinstance(v, VRef) and isinstance(st.heap.get(v.oid), HObj) and st.heap[v.oid].cls == "builtins.dict"

    def ev_Tuple(self, node, st):
        if any(isinstance(e, ast.Starred) for e in node.elts):
            raise Unsupported("starred in tuple", node)
        return [(s, VTuple(vals)) for s, vals in self.ev_seq(node.elts, st)]

    def ev_List(self, node, st):
        out = []
        for s, vals in self.ev_seq(node.elts, st):
            out.append((s, self.fresh_list(VSeq.of(vals), s)))
        return out

    def fresh_list(self, payload, st):
        if self.spec_depth:
            return payload
        return st.alloc(payload)

    def ev_Subscript(self, node, st):
        out = []
        if isinstance(node.slice, ast.Slice):
            sl = node.slice
            parts = [sl.lower or ast.Constant(None), sl.upper or ast.Constant(None), sl.step or ast.Constant(None)]
            for s, vals in self.ev_seq([node.value] + parts, st):
                out.append((s, self.slice(vals[0], vals[1], vals[2], vals[3], s, node)))
            return out
        if isinstance(node.slice, ast.Tuple) and any(isinstance(e, ast.Slice) for e in node.slice.elts):
            for s, base in self.ev(node.value, st):
                b = self.deref(base, s)
                if not isinstance(b, VAbs):
                    raise Unsupported("multi-dimensional slice of a non-abstract value", node)
                vals = []
                for p_ in node.slice.elts:
                    if isinstance(p_, ast.Slice):
                        lo = self.ev1_code(p_.lower, s) if p_.lower is not None else NONEV
                        hi = self.ev1_code(p_.upper, s) if p_.upper is not None else NONEV
                        vals.append(VTuple([VStr("slice"), lo, hi]))
                    elif isinstance(p_, ast.Constant) and p_.value is Ellipsis:
                        vals.append(VStr("..."))
                    else:
                        vals.append(self.ev1_code(p_, s))
                self.cur_call_node = node
                out.extend(b.call_method("__getitem__", [VTuple(vals)], {}, s, self))
            return out
        for s, (base, idx) in self.ev_seq([node.value, node.slice], st):
            out.extend(self.getitem(base, idx, s, node))
        return out

    def norm_index(self, seq, i, st, node, what="index"):
        """python index normalisation with bounds obligation"""
        i = to_int(self.unopt(i, st, node, "index"))
        j = z3.If(i < 0, i + seq.len, i)
        if z3.is_int_value(i):
            j = i if i.as_long() >= 0 else i + seq.len
        elif self.spec_depth and getattr(self, "spec_nowrap", False):
            j = i          # (contracts with spec_nowrap=True) specification subscripts with a symbolic index do not wrap around (they are written with 0 <= k guards);
            #                keeps quantified spec formulas free of if-then-else index terms, which defeat pattern inference
        self.safety(st, f"{what}:inbounds", z3.And(0 <= j, j < seq.len), node, "sequence index out of range")
        return j

    def getitem(self, base, idx, st, node):
        if self.is_dict(base, st):
            present, val = self.dict_get(base, idx, st)
            self.safety(st, "dict:key-present", present, node, "KeyError: key not in dict")
            if val is None and self.spec_depth:
                return [(st, fresh(VAL, "absent_key"))]      # only meaningful under a guard that makes the key present
            if val is None:
                raise PathEnd("keyerror")
            return [(st, val)]
        b = self.deref(base, st)
        if isinstance(b, VOpt):
            b = self.unopt(b, st, node, "subscripted value")
            if self.is_dict(b, st):
                return self.getitem(b, idx, st, node)
        if isinstance(b, VNone) and self.spec_depth:
            r = fresh(INT, "subscript_of_none")      # only meaningful under a guard that excludes None
            r.placeholder = True
            return [(st, r)]
        if getattr(b, "placeholder", False) and self.spec_depth:
            r = fresh(INT, "subscript_of_none")
            r.placeholder = True
            return [(st, r)]
        if isinstance(b, VVal) and isinstance(self.deref(idx, st), VStr) and self.spec_depth:
            return [(st, fresh(VAL, "absent_key"))]
        if isinstance(b, VVal):
            from .absobj import Comp
            return [(st, VVal(Comp(b.t, to_int(self.deref(idx, st)))))]
        if isinstance(b, HObj) and isinstance(base, VRef):
            bm = self.bound_method(base, b, "__getitem__", st)
            if bm is None:
                raise Unsupported(f"{b.cls} object is not subscriptable", node)
            return self.call(bm, [idx], {}, st, node)
        if isinstance(b, VSeq):
            idx_d = self.deref(idx, st)
            if isinstance(idx_d, VOpt) and isinstance(idx_d.inner, VSeq):
                idx_d = self.unopt(idx_d, st, node, "index array")
            if isinstance(idx_d, VSeq) and isinstance(idx_d.etype, TBool):   # boolean mask: order preserving filter
                from .libtorch import seq_filter
                res = seq_filter(st, self, b.len, lambda p: idx_d.elem(p).t, b.elem, b.etype, "mask")
                res.kind = b.kind
                return [(st, self.fresh_list(res, st))]
            if isinstance(idx_d, VSeq):   # gather: a[p]
                res = VSeq(idx_d.len, lambda k: b.elem(to_int(idx_d.elem(k))), b.etype)
                return [(st, self.fresh_list(res, st))]
            j = self.norm_index(b, idx_d, st, node)
            if b.concrete is not None and z3.is_int_value(z3.simplify(j)):
                return [(st, b.concrete[z3.simplify(j).as_long()])]
            return [(st, b.elem(j))]
        if isinstance(b, VTuple):
            i = z3.simplify(to_int(self.deref(idx, st)))
            if z3.is_int_value(i):
                k = i.as_long()
                if not -len(b.elems) <= k < len(b.elems):
                    self.safety(st, "index:inbounds", z3.BoolVal(False), node, "tuple index out of range")
                    raise PathEnd("index")
                return [(st, b.elems[k])]
            sq = VSeq.of(b.elems)
            j = self.norm_index(sq, VInt(i), st, node)
            return [(st, sq.elem(j))]
        if isinstance(b, VAbs):
            r = b.getitem(idx, st, self)
            return r if isinstance(r, list) else [(st, r)]
        raise Unsupported(f"subscript on {b!r}", node)

    def decide(self, st, cond, timeout_ms=120):
        """True / False when the path condition settles `cond` quickly, else None (used only to simplify terms)"""
        c = z3.simplify(cond)
        if z3.is_true(c): return True
        if z3.is_false(c): return False
        if self.spec_depth:
            return None
        sol = z3.Solver()
        sol.set("timeout", timeout_ms)
        for p in st.pc:
            if not z3.is_quantifier(p):
                sol.add(p)
        sol.push()
        sol.add(z3.Not(c))
        if sol.check() == z3.unsat:
            return True
        sol.pop()
        sol.add(c)
        if sol.check() == z3.unsat:
            return False
        return None

    def sif(self, st, c, a, b):
        d = self.decide(st, c)
        if d is True: return a
        if d is False: return b
        return z3.If(c, a, b)

    def named(self, st, term, label):
        """give a compound integer term a name (definitional constant) to keep later formulas small"""
        term = z3.simplify(term)
        if self.spec_depth or z3.is_int_value(term) or z3.is_const(term):
            return term
        c = z3.Int(uid(label))
        st.assume(c == term)
        return c

    def slice(self, base, lo, hi, step, st, node):
        b = self.deref(base, st)
        if isinstance(b, VStr) and b.s is not None:
            def c(v):
                v = self.deref(v, st)
                if isinstance(v, VNone):
                    return None
                t = z3.simplify(to_int(v))
                if not z3.is_int_value(t):
                    raise Unsupported("symbolic slice of a string", node)
                return t.as_long()
            return VStr(b.s[c(lo):c(hi):c(step)])
        if isinstance(b, VTuple):
            b = VSeq.of(b.elems)
        if not isinstance(b, VSeq):
            if isinstance(b, VAbs):
                return b.call_method("__slice__", [lo, hi, step], {}, st, self)[0][1]
            raise Unsupported(f"slice of {b!r}", node)
        n = b.len

        def clamp(t):
            neg = self.decide(st, t < 0)
            if neg is False:
                return self.sif(st, t > n, n, t)
            if neg is True:
                return self.sif(st, t + n < 0, z3.IntVal(0), t + n)
            return z3.If(t < 0, z3.If(t + n < 0, 0, t + n), z3.If(t > n, n, t))

        def bound(v, default):
            v = self.deref(v, st)
            if isinstance(v, VNone):
                return default
            if isinstance(v, VOpt):
                return self.sif(st, v.isnone, default, clamp(to_int(v.inner)))
            return clamp(to_int(v))
        stp = self.deref(step, st)
        if isinstance(stp, VNone):
            stp_t = z3.IntVal(1)
        else:
            stp_t = to_int(self.unopt(stp, st, node, "slice step"))
            self.safety(st, "slice:step-positive", stp_t > 0, node, "only positive slice steps are modelled")
        lo_t = bound(lo, z3.IntVal(0))
        hi_t = bound(hi, n)
        if z3.is_int_value(stp_t) and stp_t.as_long() == 1:
            ln = self.sif(st, hi_t > lo_t, hi_t - lo_t, z3.IntVal(0))
            res = VSeq(self.named(st, ln, "slicelen"), lambda k: b.elem(lo_t + k), b.etype)
        else:
            ln = self.sif(st, hi_t > lo_t, (hi_t - lo_t + stp_t - 1) / stp_t, z3.IntVal(0))
            res = VSeq(self.named(st, ln, "slicelen"), lambda k: b.elem(lo_t + k * stp_t), b.etype)
        if b.concrete is not None and all(z3.is_int_value(z3.simplify(x)) for x in (lo_t, hi_t, stp_t)):
            l, h, s_ = (z3.simplify(x).as_long() for x in (lo_t, hi_t, stp_t))
            res = VSeq.of(b.concrete[l:h:s_], b.etype)
        return self.fresh_list(res, st)

    def seq_concat(self, a, b):
        if a.concrete is not None and not a.concrete:
            return VSeq(b.len, b.elem, b.etype, b.concrete)
        if a.concrete is not None and b.concrete is not None:
            return VSeq.of(a.concrete + b.concrete, a.etype if a.concrete else b.etype)
        return VSeq(a.len + b.len, lambda i: ite(i < a.len, a.elem(i), b.elem(i - a.len)), a.etype)

    def ev_ListComp(self, node, st):
        if len(node.generators) != 1 or node.generators[0].is_async:
            raise Unsupported("nested comprehension", node)
        g = node.generators[0]
        out = []
        for s, it in self.ev(g.iter, st):
            sq = self.as_seq(it, s, node)
            if sq.concrete is not None:
                # unroll
                accs = [(s, [])]
                for el in sq.concrete:
                    nxt = []
                    for s2, vals in accs:
                        s3 = s2.fork() if not self.spec_depth else s2
                        saved = dict(s3.locals)
                        self.assign_target(g.target, el, s3)
                        conds = [self.truth(self.ev1(c, s3), s3) for c in g.ifs]
                        keep = z3.simplify(z3.And(conds)) if conds else z3.BoolVal(True)
                        if z3.is_false(keep):
                            s3.locals = saved
                            nxt.append((s3, vals)); continue
                        if not z3.is_true(keep):
                            raise Unsupported("comprehension filter with symbolic condition over concrete list", node)
                        for s4, v in self.ev(node.elt, s3):
                            s4.locals = {k: saved[k] for k in saved} | {k: v2 for k, v2 in s4.locals.items()
                                                                         if k in saved and False}
                            nxt.append((s4, vals + [v]))
                    accs = nxt
                for s2, vals in accs:
                    out.append((s2, self.fresh_list(VSeq.of(vals), s2)))
                continue
            if g.ifs:
                raise Unsupported("filtering comprehension over symbolic sequence", node)
            # pointwise map over a symbolic sequence
            probe = s.fork()
            k0 = z3.Int(uid("ck"))
            site = z3.Int(uid("site"))
            self.assign_target(g.target, sq.elem(k0), probe)
            saved_ci = (self.comp_index, self.comp_site)
            self.comp_index, self.comp_site = k0, site
            try:
                pv = self.ev_join(node.elt, probe)
            finally:
                self.comp_index, self.comp_site = saved_ci
            if hasattr(pv, "on_pointwise_alloc") and hasattr(pv, "init_ver"):
                pv.on_pointwise_alloc(s, k0, sq.len, pv.init_ver)
            try:
                etype = typeof(pv)
            except TypeError:
                etype = VAL

            snap = s.fork()

            def elem(k, s=snap, sq=sq, site=site):
                s2 = s.fork()
                self.assign_target(g.target, sq.elem(k), s2)
                saved_ci = (self.comp_index, self.comp_site)
                self.comp_index, self.comp_site = k, site
                try:
                    return self.ev_join(node.elt, s2)
                finally:
                    self.comp_index, self.comp_site = saved_ci
            out.append((s, self.fresh_list(VSeq(sq.len, elem, etype), s)))
        return out

    ev_GeneratorExp = ev_ListComp

    def as_seq(self, v, st, node=None):
        v = self.deref(v, st)
        if isinstance(v, VSeq): return v
        if isinstance(v, VTuple): return VSeq.of(v.elems)
        if isinstance(v, VAbs):
            return v.iterate(st, self)
        if isinstance(v, VOpt):
            return self.as_seq(self.unopt(v, st, node, "iterable"), st, node)
        raise Unsupported(f"not iterable in the model: {v!r}", node)

    def ev_Lambda(self, node, st):
        captured = dict(st.locals)

        def fn(args, kwargs, s, eng, node=node, captured=captured):
            s2 = s.fork() if not eng.spec_depth else s
            saved = s2.locals
            s2.locals = dict(captured)
            for a, v in zip(node.args.args, args):
                s2.locals[a.arg] = v
            res = eng.ev(node.body, s2)
            for s3, _ in res:
                s3.locals = dict(saved)
            return res
        return [(st, VFunc("lambda", fn))]

    def ev_Starred(self, node, st):
        raise Unsupported("starred expression", node)

    # ------------------------------------------------------------------ calls
    def ev_Call(self, node, st):
        if any(isinstance(a, ast.Starred) for a in node.args) or any(k.arg is None for k in node.keywords):
            return self.call_star(node, st)
        out = []
        # spec-only special forms
        if self.spec_depth and isinstance(node.func, ast.Name):
            f = node.func.id
            if f == "old":
                if st.old is None:
                    raise SpecError("old() outside a two-state context")
                return [(st, self.ev1_in(node.args[0], st.old))]
            if f in ("forall", "exists"):
                return [(st, self.quantifier(f, node, st))]
            if f == "implies" and len(node.args) == 2 and not node.keywords:
                # lazy: a consequent that only makes sense under the antecedent (ctx['k'] when ctx is not None) is not
                # evaluated on paths where the antecedent is excluded by the path condition
                ante = self.truth(self.ev1_in(node.args[0], st), st)
                a_s = z3.simplify(ante)
                if z3.is_false(a_s) or (not z3.is_true(a_s) and not feasible(list(st.pc) + [ante], 300)):
                    return [(st, VBool(True))]
                cons = self.truth(self.ev1_in(node.args[1], st), st)
                return [(st, VBool(z3.Implies(ante, cons)))]
        for s, fv in self.ev(node.func, st):
            for s2, vals in self.ev_seq(list(node.args) + [k.value for k in node.keywords], s):
                args = vals[:len(node.args)]
                kwargs = {k.arg: v for k, v in zip(node.keywords, vals[len(node.args):])}
                out.extend(self.call(fv, args, kwargs, s2, node))
        return out

    def call_star(self, node, st):
        # zip(*rows): transposition of a sequence of k-tuples into a k-tuple of sequences
        if isinstance(node.func, ast.Name) and node.func.id == "zip" and len(node.args) == 1 and not node.keywords \
                and isinstance(node.args[0], ast.Starred):
            out = []
            for s, v in self.ev(node.args[0].value, st):
                if isinstance(self.deref(v, s), VAbs) and hasattr(self.deref(v, s), "zip_star"):
                    out.append((s, self.deref(v, s).zip_star(s, self, node)))
                    continue
                sq = self.as_seq(v, s, node)
                if not isinstance(sq.etype, TTuple):
                    raise Unsupported("zip(*x) over non-tuple rows", node)
                k = len(sq.etype.elems)
                cols = [VSeq(sq.len, (lambda i, c=c: sq.elem(i).elems[c]), sq.etype.elems[c]) for c in range(k)]
                self.safety(s, "zip-star:nonempty", sq.len > 0, node, "zip(*[]) unpacks to nothing")
                out.append((s, VTuple(cols)))
            return out
        out = []
        for s, fv in self.ev(node.func, st):
            pos_nodes = [a.value if isinstance(a, ast.Starred) else a for a in node.args]
            kw_nodes = [k.value for k in node.keywords]
            for s2, vals in self.ev_seq(pos_nodes + kw_nodes, s):
                args, kwargs = [], {}
                for a, v in zip(node.args, vals[:len(node.args)]):
                    if isinstance(a, ast.Starred):
                        vv = self.deref(v, s2)
                        if isinstance(vv, VTuple):
                            args.extend(vv.elems)
                        elif isinstance(vv, VSeq) and vv.concrete is not None:
                            args.extend(vv.concrete)
                        elif getattr(fv, "any_args", False):
                            args.append(v)          # the callee ignores its positional arguments
                        else:
                            raise Unsupported("*args of symbolic length", node)
                    else:
                        args.append(v)
                for k, v in zip(node.keywords, vals[len(node.args):]):
                    if k.arg is None:
                        if isinstance(v, VRec):
                            kwargs.update(v.fields)
                        else:
                            raise Unsupported("**kwargs of unknown shape", node)
                    else:
                        kwargs[k.arg] = v
                out.extend(self.call(fv, args, kwargs, s2, node))
        return out

    def ev1_in(self, node, st):
        return self.ev1(node, st)

    def call(self, fv, args, kwargs, st, node):
        self.cur_call_node = node
        if isinstance(fv, VFunc):
            r = fv.fn(args, kwargs, st, self)
            return r if isinstance(r, list) else [(st, r)]
        if isinstance(fv, VClass):
            return self.construct(fv, args, kwargs, st, node)
        if isinstance(fv, VAbs):
            return fv.call_method("__call__", args, kwargs, st, self)
        if isinstance(fv, VOpt):
            return self.call(self.unopt(fv, st, node, "callee"), args, kwargs, st, node)
        raise Unsupported(f"call of {fv!r}", node)

    def quantifier(self, which, node, st):
        lam = node.args[0]
        if not isinstance(lam, ast.Lambda):
            raise SpecError("forall/exists need a lambda")
        names = [a.arg for a in lam.args.args]
        vars_ = [z3.Int(uid(n)) for n in names]
        self.spec_env.append({n: VInt(v) for n, v in zip(names, vars_)})
        try:
            body = self.truth(self.ev1(lam.body, st), st)
        finally:
            self.spec_env.pop()
        return VBool(z3.ForAll(vars_, body) if which == "forall" else z3.Exists(vars_, body))


class VModule(V):
    def __init__(self, name): self.name = name
    def __repr__(self): return f"VModule({self.name})"


class _Unbound:
    def __repr__(self): return "UNBOUND"


UNBOUND = _Unbound()
MAYBE_MARK = [None]


class PathEnd(Exception):
    """the current path cannot continue (an obligation for the reason has been emitted)"""
