"""Assumed contracts of torchvision.transforms.functional / PIL on an abstract image: only the geometry (width, height) and a
per-channel affine value map are modelled. crop / resized_crop / pad / resize / hflip / normalize are deterministic functions of
their arguments that read no RNG (DESIGN section 4). Every geometric call is recorded in the ghost list g_geo (one tuple of
integers per call) so that post-conditions can compare the arguments of two calls (image vs mask, ctx vs call)."""
import z3
from .values import *  # noqa
from .state import *  # noqa
from . import expr as _e
from .lib import lib, LIB, LIB_CLASSES, LIB_OBJECTS


class AbsImage(VAbs):
    """image / tensor of shape (c, h, w): geometry + affine value map per channel (value = a[c] * original + b[c])"""
    label = "image"

    def __init__(self, w, h, c=None, a=None, b=None, ident=None):
        self.w, self.h = w, h
        self.c = c if c is not None else z3.Int(uid("channels"))
        self.a = a            # VSeq REAL or None (unknown)
        self.b = b
        self.ident = ident if ident is not None else z3.Const(uid("img"), ValSort)

    def havoc(self, label):
        return AbsImage(z3.Int(uid(label + "$w")), z3.Int(uid(label + "$h")), self.c)

    def with_size(self, w, h):
        return AbsImage(w, h, self.c, self.a, self.b)

    def getattr(self, name, st, eng):
        if name == "shape":
            return VTuple([VInt(self.c), VInt(self.h), VInt(self.w)])
        if name == "height": return VInt(self.h)
        if name == "width": return VInt(self.w)
        if name == "ndim": return VInt(3)
        if name == "size":
            def f(a, k, s, e):
                if not a:
                    return VTuple([VInt(self.c), VInt(self.h), VInt(self.w)])
                d = z3.simplify(_e.to_int(e.deref(a[0], s)))
                return [VInt(self.c), VInt(self.h), VInt(self.w)][d.as_long()]
            return VFunc("tensor.size", f)
        if name == "unique":
            def f(a, k, s, e):
                n = z3.Int(uid("n_unique"))
                s.assume(n >= 0)
                lab, cnt = fresh(TSeq(INT), "unique_labels"), fresh(TSeq(INT), "unique_counts")
                lab, cnt = VSeq(n, lab.elem, INT), VSeq(n, cnt.elem, INT)
                lab.kind = cnt.kind = z3.IntVal(1)
                j = z3.Int(uid("j"))
                s.assume(z3.ForAll([j], z3.Implies(z3.And(0 <= j, j < n), _e.to_int(cnt.elem(j)) >= 1)))
                return VTuple([s.alloc(lab), s.alloc(cnt)])
            return VFunc("tensor.unique", f)
        if name in ("unsqueeze", "squeeze", "clone", "float"):
            return VFunc("tensor." + name, lambda a, k, s, e: self)
        raise KeyError(name)

    def call_method(self, name, args, kwargs, st, eng):
        if name == "__setitem__":
            idx, val = args
            parts = idx.elems if isinstance(idx, VTuple) else [idx]
            dims = [self.c, self.h, self.w]
            off = len(dims) - len(parts)
            for d, p in zip(dims[off:] if off >= 0 else dims, parts):
                if isinstance(p, VTuple) and len(p.elems) == 3 and isinstance(p.elems[0], VStr) and p.elems[0].s == "slice":
                    lo, hi = p.elems[1], p.elems[2]
                    if isinstance(lo, VNone) and isinstance(hi, VNone):
                        continue
                    lo_t = z3.IntVal(0) if isinstance(lo, VNone) else _e.to_int(lo)
                    hi_t = d if isinstance(hi, VNone) else _e.to_int(hi)
                    eng.oblige(st, "image:region-inside-bounds", "vc", z3.And(0 <= lo_t, lo_t <= hi_t, hi_t <= d), getattr(eng, "cur_call_node", None),
                               note="a written region [lo, hi) lies inside the image")
            return [(st, NONEV)]
        raise Unsupported(f"image.{name}")


    def ite_with(self, c, o):
        if self.a is None and o.a is None:
            a = b = None
        else:
            one = lambda im: im.a if im.a is not None else VSeq(im.c, lambda k: VReal(1), REAL)
            zero = lambda im: im.b if im.b is not None else VSeq(im.c, lambda k: VReal(0), REAL)
            a, b = ite(c, one(self), one(o)), ite(c, zero(self), zero(o))
        return AbsImage(z3.If(c, self.w, o.w), z3.If(c, self.h, o.h), z3.If(c, self.c, o.c), a, b, z3.If(c, self.ident, o.ident))


def _sym_image(name, idx, aff=False):
    im = AbsImage(z3.Int(name + "$w"), z3.Int(name + "$h"), z3.Int(name + "$c"))
    if aff:
        fa = z3.Function(name + "$scale", z3.IntSort(), z3.RealSort())
        fb = z3.Function(name + "$shift", z3.IntSort(), z3.RealSort())
        im.a = VSeq(im.c, lambda k: VReal(fa(_e.to_int(k) if not z3.is_expr(k) else k)), REAL)
        im.b = VSeq(im.c, lambda k: VReal(fb(_e.to_int(k) if not z3.is_expr(k) else k)), REAL)
    return im


IMAGE = TAbs(lambda name, idx: _sym_image(name, idx), "image")
IMAGE_AFF = TAbs(lambda name, idx: _sym_image(name, idx, True), "image-with-value-map")


def _img(eng, v, st):
    v = eng.deref(v, st)
    if not isinstance(v, AbsImage):
        raise Unsupported(f"expected an image, got {v!r}")
    return v


GEO = ["geo_n", "geo_k", "geo_a", "geo_b", "geo_c", "geo_d", "pgeo_k", "pgeo_a", "pgeo_b", "pgeo_c", "pgeo_d"]
GEO_GHOST = {g: (INT, "0") for g in GEO}
from .absobj import GHOST_METHODS as _GM
for _n in ("crop", "resized_crop", "pad", "resize", "hflip", "_pad_image"):
    _GM[_n] = sorted(set(_GM.get(_n, [])) | set(GEO))


def _record(st, k, a, b, c, d):
    """ghost: the integer arguments of the last (geo_*) and the previous (pgeo_*) geometric call, and the number of calls"""
    if "geo_n" not in st.ghost:
        return
    for x in "kabcd":
        st.ghost["pgeo_" + x] = st.ghost["geo_" + x]
    for x, t in zip("kabcd", (k, a, b, c, d)):
        st.ghost["geo_" + x] = VInt(t)
    st.ghost["geo_n"] = VInt(st.ghost["geo_n"].t + 1)


def _arg(args, kwargs, pos, name):
    return kwargs.get(name, args[pos] if len(args) > pos else None)


@lib("torchvision.transforms.functional.get_image_size")
def _get_image_size(args, kwargs, st, eng):
    im = _img(eng, args[0], st)
    eng.used_trusted.add("model:pyvc/libimg.py abstract image (width, height, channels, per-channel affine value map); images are non-empty")
    st.assume(im.w >= 1, im.h >= 1)
    return st.alloc(VSeq.of([VInt(im.w), VInt(im.h)], INT))


@lib("torchvision.transforms.functional.get_image_num_channels")
def _get_channels(args, kwargs, st, eng):
    return VInt(_img(eng, args[0], st).c)


@lib("torchvision.transforms.functional.crop")
def _crop(args, kwargs, st, eng):
    im = _img(eng, _arg(args, kwargs, 0, "img"), st)
    top, left, h, w = [_e.to_int(eng.deref(_arg(args, kwargs, k + 1, n), st)) for k, n in enumerate(("top", "left", "height", "width"))]
    eng.oblige(st, "crop:box-inside-image", "vc", z3.And(0 <= top, top + h <= im.h, 0 <= left, left + w <= im.w, h >= 0, w >= 0),
               getattr(eng, "cur_call_node", None), note="the crop box lies inside the input (torchvision would pad silently otherwise)")
    _record(st, z3.IntVal(1), top, left, h, w)
    return im.with_size(w, h)


@lib("torchvision.transforms.functional.resized_crop")
def _resized_crop(args, kwargs, st, eng):
    im = _img(eng, _arg(args, kwargs, 0, "img"), st)
    top, left, h, w = [_e.to_int(eng.deref(_arg(args, kwargs, k + 1, n), st)) for k, n in enumerate(("top", "left", "height", "width"))]
    size = eng.deref(_arg(args, kwargs, 5, "size"), st)
    eng.oblige(st, "crop:box-inside-image", "vc", z3.And(0 <= top, top + h <= im.h, 0 <= left, left + w <= im.w, h >= 1, w >= 1),
               getattr(eng, "cur_call_node", None), note="the crop box lies inside the input and is not empty")
    _record(st, z3.IntVal(2), top, left, h, w)
    sz = size.elems if isinstance(size, VTuple) else eng.as_seq(size, st).concrete
    return im.with_size(_e.to_int(sz[1]), _e.to_int(sz[0]))


@lib("torchvision.transforms.functional.pad")
def _pad(args, kwargs, st, eng):
    im = _img(eng, _arg(args, kwargs, 0, "img"), st)
    p = eng.deref(_arg(args, kwargs, 1, "padding"), st)
    if isinstance(p, VOpt):
        p = eng.deref(eng.unopt(p, st, getattr(eng, "cur_call_node", None), "padding"), st)
    ps = p.elems if isinstance(p, VTuple) else (eng.as_seq(p, st).concrete if isinstance(p, (VSeq,)) or isinstance(p, VRef) else [p])
    ts = [_e.to_int(eng.deref(x, st)) for x in ps]
    if len(ts) == 1:
        l = t = r = b = ts[0]
    elif len(ts) == 2:
        l, t = ts
        r, b = l, t
    else:
        l, t, r, b = ts
    eng.oblige(st, "pad:non-negative", "vc", z3.And(l >= 0, t >= 0, r >= 0, b >= 0), getattr(eng, "cur_call_node", None),
               note="padding amounts are non-negative (negative padding crops)")
    _record(st, z3.IntVal(3), l, t, r, b)
    return im.with_size(im.w + l + r, im.h + t + b)


@lib("torchvision.transforms.functional.resize")
def _resize(args, kwargs, st, eng):
    im = _img(eng, _arg(args, kwargs, 0, "img"), st)
    size = eng.deref(_arg(args, kwargs, 1, "size"), st)
    sz = size.elems if isinstance(size, VTuple) else eng.as_seq(size, st).concrete
    hh, ww = _e.to_int(eng.deref(sz[0], st)), _e.to_int(eng.deref(sz[1], st))
    _record(st, z3.IntVal(4), hh, ww, z3.IntVal(0), z3.IntVal(0))
    return im.with_size(ww, hh)


@lib("torchvision.transforms.functional.hflip")
def _hflip(args, kwargs, st, eng):
    im = _img(eng, args[0], st)
    _record(st, z3.IntVal(5), z3.IntVal(0), z3.IntVal(0), z3.IntVal(0), z3.IntVal(0))
    return im.with_size(im.w, im.h)


@lib("torchvision.transforms.functional.normalize")
def _normalize(args, kwargs, st, eng):
    """(x - mean[c]) / std[c] per channel"""
    im = _img(eng, _arg(args, kwargs, 0, "tensor"), st)
    mean = eng.as_seq(_arg(args, kwargs, 1, "mean"), st)
    std = eng.as_seq(_arg(args, kwargs, 2, "std"), st)
    a0 = im.a if im.a is not None else VSeq(im.c, lambda k: VReal(1), REAL)
    b0 = im.b if im.b is not None else VSeq(im.c, lambda k: VReal(0), REAL)
    k = z3.Int(uid("ch"))
    eng.safety(st, "normalize:std-nonzero", z3.ForAll([k], z3.Implies(z3.And(0 <= k, k < std.len), _e.to_real(std.elem(k)) != 0)), None,
               "normalize with a zero std divides by zero")
    a = VSeq(im.c, lambda c: VReal(_e.to_real(a0.elem(c)) / _e.to_real(std.elem(c))), REAL)
    b = VSeq(im.c, lambda c: VReal((_e.to_real(b0.elem(c)) - _e.to_real(mean.elem(c))) / _e.to_real(std.elem(c))), REAL)
    return AbsImage(im.w, im.h, im.c, a, b, im.ident)


LIB["torchvision.transforms.functional.to_tensor"] = lambda a, k, s, e: _img(e, a[0], s)
LIB["torch.stack"] = lambda a, k, s, e: fresh(VAL, "stacked")


def _is_tensor_img(args, kwargs, st, eng):
    v = eng.deref(args[0], st)
    if isinstance(v, AbsImage):
        return VBool(z3.Bool(uid("is_tensor_input")))
    return None


@lib("math.log")
def _log(args, kwargs, st, eng):
    return VReal(z3.Function("RLn", z3.RealSort(), z3.RealSort())(_e.to_real(eng.deref(args[0], st))))


def _uf(name):
    def f(args, kwargs, st, eng):
        r = z3.Function(name, z3.RealSort(), z3.RealSort())(_e.to_real(eng.deref(args[0], st)))
        st.assume(r > 0)          # exp(x) > 0
        return VReal(r)
    return f


LIB["math.exp"] = _uf("RExp")
LIB["numpy.exp"] = _uf("RExp")


def _sqrt(args, kwargs, st, eng):
    x = _e.to_real(eng.deref(args[0], st))
    r = z3.Function("RSqrt", z3.RealSort(), z3.RealSort())(x)
    st.assume(z3.Implies(x >= 0, r >= 0))
    return VReal(r)


LIB["math.sqrt"] = _sqrt
LIB["numpy.sqrt"] = _sqrt


def install_spec_builtins(eng):
    eng.spec_builtins["Width"] = VFunc("Width", lambda a, k, s, e: VInt(e.deref(a[0], s).w))
    eng.spec_builtins["Height"] = VFunc("Height", lambda a, k, s, e: VInt(e.deref(a[0], s).h))
    eng.spec_builtins["IsImage"] = VFunc("IsImage", lambda a, k, s, e: VBool(isinstance(e.deref(a[0], s), AbsImage)))
    eng.spec_builtins["Channels"] = VFunc("Channels", lambda a, k, s, e: VInt(e.deref(a[0], s).c))
    eng.spec_builtins["IsPlain"] = VFunc("IsPlain", lambda a, k, s, e: VBool(e.deref(a[0], s).a is None))
    eng.spec_builtins["ScaleOf"] = VFunc("ScaleOf", lambda a, k, s, e: e.deref(a[0], s).a.elem(_e.to_int(a[1])))
    eng.spec_builtins["ShiftOf"] = VFunc("ShiftOf", lambda a, k, s, e: e.deref(a[0], s).b.elem(_e.to_int(a[1])))
