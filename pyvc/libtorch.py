"""Assumed contracts for the torch / numpy functions the verified samplers and wrappers call (DESIGN section 4).
Index tensors are integer sequences; a generator is an abstract object with a seed key and a draw counter."""
import z3
from .values import *  # noqa
from .state import *  # noqa
from . import expr as _e
from .lib import lib, LIB, LIB_CLASSES, LIB_OBJECTS

Perm = z3.Function("Perm", z3.IntSort(), z3.IntSort(), z3.IntSort(), z3.IntSort(), z3.IntSort())       # key, draw, n, k
PermInv = z3.Function("PermInv", z3.IntSort(), z3.IntSort(), z3.IntSort(), z3.IntSort(), z3.IntSort())
RandInt = z3.Function("RandInt", z3.IntSort(), z3.IntSort(), z3.IntSort(), z3.IntSort(), z3.IntSort())  # key, draw, high, k
Multi = z3.Function("Multi", z3.IntSort(), z3.IntSort(), z3.IntSort(), z3.IntSort(), z3.IntSort())      # key, draw, wid, k


class AbsGenerator(VAbs):
    """torch.Generator: its stream is a function of the seed key; every draw advances a counter"""
    label = "torch.Generator"

    def __init__(self, key=None):
        self.key = key if key is not None else z3.Int(uid("entropy"))
        self.seeded = key is not None

    def getattr(self, name, st, eng):
        if name == "manual_seed":
            def f(args, kwargs, s, e):
                g = AbsGenerator(_e.to_int(e.deref(args[0], s)))
                ref = s.alloc(HObj("torch.Generator", {"gen": g, "draws": VInt(0)}))
                return GenRef(ref.oid)
            return VFunc("Generator.manual_seed", f)
        raise KeyError(name)


class GenRef(VRef):
    """reference to a seeded generator cell (key + draw counter in the heap)"""


def _gen_draw(gen, st, eng):
    """-> (key term, draw number term) and advance the generator's counter; None -> process-global RNG"""
    gen = gen
    if isinstance(gen, VOpt):
        gen = eng.unopt(gen, st, None, "generator")
    if isinstance(gen, VNone) or gen is None:
        eng.used_trusted.add("lib:global torch RNG read (unseeded)")
        return z3.Int(uid("globalrng")), z3.IntVal(0)
    if isinstance(gen, VRef) and isinstance(st.heap[gen.oid], HObj) and st.heap[gen.oid].cls == "torch.Generator":
        cell = st.heap[gen.oid]
        d = cell.fields["draws"].t
        cell.fields["draws"] = VInt(d + 1)
        return cell.fields["gen"].key, d
    if isinstance(gen, AbsGenerator):
        return gen.key, z3.IntVal(0)
    raise Unsupported(f"generator argument {gen!r}")


LIB_CLASSES["torch.Generator"] = {"bases": ["object"], "construct": lambda args, kwargs, st, eng: [(st, AbsGenerator())]}


def _perm_seq(key, draw, n, st):
    k, i = z3.Int(uid("k")), z3.Int(uid("i"))
    st.assume(z3.ForAll([k], z3.Implies(z3.And(0 <= k, k < n), z3.And(0 <= Perm(key, draw, n, k), Perm(key, draw, n, k) < n,
                                                                     PermInv(key, draw, n, Perm(key, draw, n, k)) == k)),
                        patterns=[Perm(key, draw, n, k)]))
    return VSeq(z3.If(n > 0, n, 0), lambda t: VInt(Perm(key, draw, n, t)), INT)


@lib("torch.randperm")
def _randperm(args, kwargs, st, eng):
    """a permutation of range(n) that is a function of (generator key, draw number, n) only"""
    n = _e.to_int(eng.deref(args[0], st))
    key, draw = _gen_draw(kwargs.get("generator"), st, eng)
    return _perm_seq(key, draw, n, st)


@lib("torch.randint")
def _randint(args, kwargs, st, eng):
    high = _e.to_int(eng.deref(kwargs.get("high", args[0] if args else None), st))
    size = eng.deref(kwargs.get("size", args[-1] if args else None), st)
    n = _e.to_int(size.elems[0]) if isinstance(size, VTuple) else _e.to_int(size)
    key, draw = _gen_draw(kwargs.get("generator"), st, eng)
    k = z3.Int(uid("k"))
    st.assume(z3.ForAll([k], z3.And(0 <= RandInt(key, draw, high, k), RandInt(key, draw, high, k) < high),
                        patterns=[RandInt(key, draw, high, k)]))
    return VSeq(n, lambda t: VInt(RandInt(key, draw, high, t)), INT)


@lib("torch.arange")
def _arange(args, kwargs, st, eng):
    n = _e.to_int(eng.deref(args[0], st))
    return VSeq(z3.If(n > 0, n, 0), lambda t: VInt(t), INT)


@lib("torch.multinomial")
def _multinomial(args, kwargs, st, eng):
    """k distinct indices < len(weights) (replacement=False), a function of (generator key, draw number, k) for the
    sampler's fixed weight vector"""
    w = eng.deref(args[0], st)
    k_ = _e.to_int(eng.deref(args[1] if len(args) > 1 else kwargs["num_samples"], st))
    repl = kwargs.get("replacement", VBool(False))
    key, draw = _gen_draw(kwargs.get("generator"), st, eng)
    wn = eng.builtins["len"].fn([w], {}, st, eng).t
    a, b = z3.Int(uid("a")), z3.Int(uid("b"))
    wid = k_
    eng.safety(st, "multinomial:enough", z3.Or(eng.truth(repl, st), k_ <= wn), None,
               "multinomial without replacement needs num_samples <= len(weights)")
    st.assume(z3.ForAll([a], z3.Implies(z3.And(0 <= a, a < k_), z3.And(0 <= Multi(key, draw, wid, a), Multi(key, draw, wid, a) < wn)),
                        patterns=[Multi(key, draw, wid, a)]))
    if z3.is_false(z3.simplify(eng.truth(repl, st))):
        st.assume(z3.ForAll([a, b], z3.Implies(z3.And(0 <= a, a < b, b < k_), Multi(key, draw, wid, a) != Multi(key, draw, wid, b)),
                            patterns=[z3.MultiPattern(Multi(key, draw, wid, a), Multi(key, draw, wid, b))]))
    return VSeq(k_, lambda t: VInt(Multi(key, draw, wid, t)), INT)


class GlobalRandomScalar(VAbs):
    """torch.empty((), dtype=...).random_()  -> a 0-d tensor drawn from the given generator or the global RNG"""
    label = "tensor0d"

    def __init__(self, val=None): self.val = val

    def getattr(self, name, st, eng):
        if name == "random_":
            def f(args, kwargs, s, e):
                key, draw = _gen_draw(kwargs.get("generator"), s, e)
                r = z3.Function("Rand0d", z3.IntSort(), z3.IntSort(), z3.IntSort())(key, draw)
                return GlobalRandomScalar(r)
            return VFunc("tensor.random_", f)
        if name == "item":
            return VFunc("tensor.item", lambda a, k, s, e: VInt(self.val if self.val is not None else z3.Int(uid("uninit"))))
        raise KeyError(name)


@lib("torch.empty")
def _empty(args, kwargs, st, eng):
    return GlobalRandomScalar()


@lib("torch.concat")
def _concat(args, kwargs, st, eng):
    """concatenation of a list of 1-D tensors: length is the sum of the lengths (tracked as .flat of the list)"""
    lst = eng.deref(args[0], st)
    if lst.concrete is not None:
        res = VSeq.of([], INT)
        for x in lst.concrete:
            res = eng.seq_concat(res, eng.as_seq(x, st))
        return res
    if getattr(lst, "flat", None) is None:
        raise Unsupported("torch.concat of a list without a tracked flat length")
    name = uid("concat")
    f = z3.Function(name, z3.IntSort(), z3.IntSort())
    return VSeq(lst.flat, lambda t: VInt(f(t)), INT)


LIB_OBJECTS["torch.int64"] = lambda: VStr("torch.int64")
LIB_OBJECTS["torch.int32"] = lambda: VStr("torch.int32")
LIB_OBJECTS["torch.long"] = lambda: VStr("torch.long")

LIB_CLASSES["torch.utils.data.DistributedSampler"] = {"bases": ["object"]}
LIB_CLASSES["torch.utils.data.RandomSampler"] = {"bases": ["object"]}


@lib("torch.utils.data.DistributedSampler.__iter__")
def _torch_dist_iter(args, kwargs, st, eng):
    """trusted: torch's own DistributedSampler.__iter__ (num_repeats == 1 delegates to it)"""
    return VSeq(z3.Int(uid("torchdist$len")), lambda t: VInt(z3.Function(uid("torchdist"), z3.IntSort(), z3.IntSort())(t)), INT)


@lib("torch.utils.data.RandomSampler.__iter__")
def _torch_rand_iter(args, kwargs, st, eng):
    return VSeq(z3.Int(uid("torchrand$len")), lambda t: VInt(z3.Function(uid("torchrand"), z3.IntSort(), z3.IntSort())(t)), INT)


def install_spec_builtins(eng):
    def perm(args, kwargs, st, eng):
        return VInt(Perm(*[_e.to_int(a) for a in args]))
    eng.spec_builtins["Perm"] = VFunc("Perm", perm)
    eng.spec_builtins["RandIntF"] = VFunc("RandIntF", lambda args, kwargs, st, eng: VInt(RandInt(*[_e.to_int(a) for a in args])))
    eng.spec_builtins["MultiF"] = VFunc("MultiF", lambda args, kwargs, st, eng: VInt(Multi(*[_e.to_int(a) for a in args])))

    def genkey(args, kwargs, st, eng):
        def key_of(g):
            if isinstance(g, VOpt):
                return key_of(g.inner)
            if isinstance(g, VAbsIte):
                return z3.If(g.c, key_of(g.a), key_of(g.b))
            if isinstance(g, VRef):
                return st.heap[g.oid].fields["gen"].key
            return g.key
        return VInt(key_of(args[0]))
    eng.spec_builtins["GenKey"] = VFunc("GenKey", genkey)

    def flatlen(args, kwargs, st, eng):
        v = eng.deref(args[0], st)
        if getattr(v, "flat", None) is None:
            raise SpecError("FlatLen of a list without flat length")
        return VInt(v.flat)
    eng.spec_builtins["FlatLen"] = VFunc("FlatLen", flatlen)


LIB_CLASSES["numpy.ndarray"] = {"bases": ["object"]}
LIB_CLASSES["torch.Tensor"] = {"bases": ["object"]}


@lib("torch.is_tensor")
def _is_tensor(args, kwargs, st, eng):
    v = eng.deref(args[0], st)
    if isinstance(v, VSeq) and v.kind is not None:
        return VBool(v.kind == 1)
    return VBool(False)


def _as_kind(kind):
    def f(args, kwargs, st, eng):
        v = eng.as_seq(args[0], st)
        r = VSeq(v.len, v.elem, v.etype)
        r.kind = z3.IntVal(kind)
        return r
    return f


LIB["torch.tensor"] = _as_kind(1)
LIB["torch.from_numpy"] = _as_kind(1)
LIB["numpy.array"] = _as_kind(2)


class AbsWorkerInfo(VAbs):
    label = "worker-info"

    def __init__(self):
        self.nw = z3.Int(uid("info$num_workers"))
        self.wid = z3.Int(uid("info$id"))

    def getattr(self, name, st, eng):
        if name == "num_workers":
            st.assume(self.nw >= 1)
            return VInt(self.nw)
        if name == "id":
            st.assume(z3.And(0 <= self.wid, self.wid < self.nw))
            return VInt(self.wid)
        raise KeyError(name)


@lib("torch.utils.data.get_worker_info")
def _get_worker_info(args, kwargs, st, eng):
    """None in the main process; inside a DataLoader worker an info object with num_workers >= 1 and 0 <= id < num_workers"""
    return VOpt(z3.Bool(uid("worker_info$none")), AbsWorkerInfo())


class AbsRng(VAbs):
    """numpy Generator: its stream is a function of its seed key; draws advance a counter kept in ghost-free closure
    (each draw returns a fresh uninterpreted value of (key, draw number))"""
    label = "np-rng"

    def __init__(self, key):
        self.key = key
        self.draws = 0

    def keyterm(self):
        return self.key

    def getattr(self, name, st, eng):
        if name in ("random", "uniform", "normal", "beta"):
            def f(args, kwargs, s, e, name=name):
                self.draws += 1
                r = z3.Function("RngReal", z3.IntSort(), z3.IntSort(), z3.RealSort())(self.key, z3.IntVal(self.draws))
                if name == "random":
                    s.assume(z3.And(r >= 0, r < 1))
                if name == "uniform" and len(args) >= 2:
                    lo, hi = _e.to_real(e.deref(args[0], s)), _e.to_real(e.deref(args[1], s))
                    s.assume(z3.Or(z3.And(lo <= r, r <= hi), z3.And(hi <= r, r <= lo)))
                if name == "beta":
                    s.assume(z3.And(r >= 0, r <= 1))
                return VReal(r)
            return VFunc("rng." + name, f)
        if name == "integers":
            def f(args, kwargs, s, e):
                self.draws += 1
                lo = _e.to_int(e.deref(args[0], s))
                hi = _e.to_int(e.deref(args[1], s)) if len(args) > 1 else None
                if hi is None:
                    lo, hi = z3.IntVal(0), lo
                e.safety(s, "rng.integers:low<high", lo < hi, None, "rng.integers(low, high) raises ValueError when low >= high")
                r = z3.Function("RngInt", z3.IntSort(), z3.IntSort(), z3.IntSort())(self.key, z3.IntVal(self.draws))
                s.assume(z3.And(lo <= r, r < hi))
                return VInt(r)
            return VFunc("rng.integers", f)
        raise KeyError(name)


def _global_rng(args, kwargs, st, eng):
    """kappadata.utils.random.get_rng_from_global(): a generator seeded from the process-global numpy RNG (one global read)"""
    if "g_global_reads" in st.ghost:
        st.ghost["g_global_reads"] = VInt(st.ghost["g_global_reads"].t + 1)
    return AbsRng(z3.Int(uid("global_seed")))


DEFAULT_EXTERNALS = {"kappadata/utils/random.py::get_rng_from_global": _global_rng}


@lib("numpy.random.default_rng")
def _default_rng(args, kwargs, st, eng):
    seed = kwargs.get("seed", args[0] if args else NONEV)
    seed = eng.deref(seed, st)
    if isinstance(seed, VNone):
        return AbsRng(z3.Int(uid("os_entropy")))
    return AbsRng(_e.to_int(seed))


@lib("torch.full")
def _full(args, kwargs, st, eng):
    size = eng.deref(kwargs.get("size", args[0] if args else None), st)
    v = eng.deref(kwargs.get("fill_value", args[1] if len(args) > 1 else None), st)
    n = _e.to_int(size.elems[0]) if isinstance(size, VTuple) else _e.to_int(size)
    r = VSeq(z3.If(n >= 0, n, 0), lambda i, v=v: v, typeof(v))
    r.kind = z3.IntVal(1)
    return st.alloc(r)
