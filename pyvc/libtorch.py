"""Assumed contracts for the torch / numpy functions the verified samplers and wrappers call (DESIGN section 4).
Index tensors are integer sequences; a generator is an abstract object with a seed key and a draw counter."""
import z3
from .values import *  # noqa
from .state import *  # noqa
from . import expr as _e
from .lib import lib, LIB, LIB_CLASSES, LIB_OBJECTS

Perm = z3.Function("Perm", z3.IntSort(), z3.IntSort(), z3.IntSort(), z3.IntSort(), z3.IntSort())       # key, draw, n, k
PermInv = z3.Function("PermInv", z3.IntSort(), z3.IntSort(), z3.IntSort(), z3.IntSort(), z3.IntSort())
RandInt = z3.Function("RandInt", z3.IntSort(), z3.IntSort(), z3.IntSort(), z3.IntSort(), z3.IntSort())  # key, draw, high, k
Multi = z3.Function("Multi", z3.IntSort(), z3.IntSort(), z3.IntSort(), z3.IntSort(), z3.IntSort())      # key, draw, wid, k


class AbsGenerator(VAbs):
    """torch.Generator: its stream is a function of the seed key; every draw advances a counter"""
    label = "torch.Generator"

    def __init__(self, key=None):
        self.key = key if key is not None else z3.Int(uid("entropy"))
        self.seeded = key is not None

    def getattr(self, name, st, eng):
        if name == "manual_seed":
            def f(args, kwargs, s, e):
                g = AbsGenerator(_e.to_int(e.deref(args[0], s)))
                ref = s.alloc(HObj("torch.Generator", {"gen": g, "draws": VInt(0)}))
                return GenRef(ref.oid)
            return VFunc("Generator.manual_seed", f)
        raise KeyError(name)


class GenRef(VRef):
    """reference to a seeded generator cell (key + draw counter in the heap)"""


def _gen_draw(gen, st, eng):
    """-> (key term, draw number term) and advance the generator's counter; None -> process-global RNG"""
    gen = gen
    if isinstance(gen, VOpt):
        gen = eng.unopt(gen, st, None, "generator")
    if isinstance(gen, VNone) or gen is None:
        eng.used_trusted.add("lib:global torch RNG read (unseeded)")
        return z3.Int(uid("globalrng")), z3.IntVal(0)
    if isinstance(gen, VRef) and isinstance(st.heap[gen.oid], HObj) and st.heap[gen.oid].cls == "torch.Generator":
        cell = st.heap[gen.oid]
        d = cell.fields["draws"].t
        cell.fields["draws"] = VInt(d + 1)
        return cell.fields["gen"].key, d
    if isinstance(gen, AbsGenerator):
        return gen.key, z3.IntVal(0)
    raise Unsupported(f"generator argument {gen!r}")


LIB_CLASSES["torch.Generator"] = {"bases": ["object"], "construct": lambda args, kwargs, st, eng: [(st, AbsGenerator())]}


def _perm_seq(key, draw, n, st):
    k, i = z3.Int(uid("k")), z3.Int(uid("i"))
    body = z3.Implies(z3.And(0 <= k, k < n), z3.And(0 <= Perm(key, draw, n, k), Perm(key, draw, n, k) < n,
                                                     PermInv(key, draw, n, Perm(key, draw, n, k)) == k))
    if z3.is_const(n) or z3.is_int_value(n):
        st.assume(z3.ForAll([k], body, patterns=[Perm(key, draw, n, k)]))
    else:
        st.assume(z3.ForAll([k], body))
    return VSeq(z3.If(n > 0, n, 0), lambda t: VInt(Perm(key, draw, n, t)), INT)


@lib("torch.randperm")
def _randperm(args, kwargs, st, eng):
    """a permutation of range(n) that is a function of (generator key, draw number, n) only"""
    n = _e.to_int(eng.deref(args[0], st))
    key, draw = _gen_draw(kwargs.get("generator"), st, eng)
    return _perm_seq(key, draw, n, st)


@lib("torch.randint")
def _randint(args, kwargs, st, eng):
    high = _e.to_int(eng.deref(kwargs.get("high", args[0] if args else None), st))
    size = eng.deref(kwargs.get("size", args[-1] if args else None), st)
    n = _e.to_int(size.elems[0]) if isinstance(size, VTuple) else _e.to_int(size)
    key, draw = _gen_draw(kwargs.get("generator"), st, eng)
    k = z3.Int(uid("k"))
    st.assume(z3.ForAll([k], z3.And(0 <= RandInt(key, draw, high, k), RandInt(key, draw, high, k) < high),
                        patterns=[RandInt(key, draw, high, k)]))
    return VSeq(n, lambda t: VInt(RandInt(key, draw, high, t)), INT)


@lib("torch.arange")
def _arange(args, kwargs, st, eng):
    n = _e.to_int(eng.deref(args[0], st))
    return VSeq(z3.If(n > 0, n, 0), lambda t: VInt(t), INT)


@lib("torch.multinomial")
def _multinomial(args, kwargs, st, eng):
    """k distinct indices < len(weights) (replacement=False), a function of (generator key, draw number, k) for the
    sampler's fixed weight vector"""
    w = eng.deref(args[0], st)
    k_ = _e.to_int(eng.deref(args[1] if len(args) > 1 else kwargs["num_samples"], st))
    repl = kwargs.get("replacement", VBool(False))
    key, draw = _gen_draw(kwargs.get("generator"), st, eng)
    wn = eng.builtins["len"].fn([w], {}, st, eng).t
    a, b = z3.Int(uid("a")), z3.Int(uid("b"))
    wid = k_
    eng.safety(st, "multinomial:enough", z3.Or(eng.truth(repl, st), k_ <= wn), None,
               "multinomial without replacement needs num_samples <= len(weights)")
    st.assume(z3.ForAll([a], z3.Implies(z3.And(0 <= a, a < k_), z3.And(0 <= Multi(key, draw, wid, a), Multi(key, draw, wid, a) < wn)),
                        patterns=[Multi(key, draw, wid, a)]))
    if z3.is_false(z3.simplify(eng.truth(repl, st))):
        st.assume(z3.ForAll([a, b], z3.Implies(z3.And(0 <= a, a < b, b < k_), Multi(key, draw, wid, a) != Multi(key, draw, wid, b)),
                            patterns=[z3.MultiPattern(Multi(key, draw, wid, a), Multi(key, draw, wid, b))]))
    return VSeq(k_, lambda t: VInt(Multi(key, draw, wid, t)), INT)


class GlobalRandomScalar(VAbs):
    """torch.empty((), dtype=...).random_()  -> a 0-d tensor drawn from the given generator or the global RNG"""
    label = "tensor0d"

    def __init__(self, val=None): self.val = val

    def getattr(self, name, st, eng):
        if name == "random_":
            def f(args, kwargs, s, e):
                key, draw = _gen_draw(kwargs.get("generator"), s, e)
                r = z3.Function("Rand0d", z3.IntSort(), z3.IntSort(), z3.IntSort())(key, draw)
                return GlobalRandomScalar(r)
            return VFunc("tensor.random_", f)
        if name == "item":
            return VFunc("tensor.item", lambda a, k, s, e: VInt(self.val if self.val is not None else z3.Int(uid("uninit"))))
        raise KeyError(name)


@lib("torch.empty")
def _empty(args, kwargs, st, eng):
    return GlobalRandomScalar()


@lib("torch.concat")
def _concat(args, kwargs, st, eng):
    """concatenation of a list of 1-D tensors: length is the sum of the lengths (tracked as .flat of the list)"""
    lst = eng.deref(args[0], st)
    if lst.concrete is not None:
        res = VSeq.of([], INT)
        for x in lst.concrete:
            res = eng.seq_concat(res, eng.as_seq(x, st))
        return res
    if getattr(lst, "flat", None) is None:
        raise Unsupported("torch.concat of a list without a tracked flat length")
    name = uid("concat")
    f = z3.Function(name, z3.IntSort(), z3.IntSort())
    return VSeq(lst.flat, lambda t: VInt(f(t)), INT)


LIB_OBJECTS["torch.int64"] = lambda: VStr("torch.int64")
LIB_OBJECTS["torch.int32"] = lambda: VStr("torch.int32")
LIB_OBJECTS["torch.long"] = lambda: VStr("torch.long")

LIB_CLASSES["torch.utils.data.DistributedSampler"] = {"bases": ["object"]}
LIB_CLASSES["torch.utils.data.RandomSampler"] = {"bases": ["object"]}


@lib("torch.utils.data.DistributedSampler.__iter__")
def _torch_dist_iter(args, kwargs, st, eng):
    """trusted: torch's own DistributedSampler.__iter__ (num_repeats == 1 delegates to it)"""
    return VSeq(z3.Int(uid("torchdist$len")), lambda t: VInt(z3.Function(uid("torchdist"), z3.IntSort(), z3.IntSort())(t)), INT)


@lib("torch.utils.data.RandomSampler.__iter__")
def _torch_rand_iter(args, kwargs, st, eng):
    return VSeq(z3.Int(uid("torchrand$len")), lambda t: VInt(z3.Function(uid("torchrand"), z3.IntSort(), z3.IntSort())(t)), INT)


def install_spec_builtins(eng):
    def perm(args, kwargs, st, eng):
        return VInt(Perm(*[_e.to_int(a) for a in args]))
    eng.spec_builtins["Perm"] = VFunc("Perm", perm)
    eng.spec_builtins["RandIntF"] = VFunc("RandIntF", lambda args, kwargs, st, eng: VInt(RandInt(*[_e.to_int(a) for a in args])))
    eng.spec_builtins["MultiF"] = VFunc("MultiF", lambda args, kwargs, st, eng: VInt(Multi(*[_e.to_int(a) for a in args])))

    def genkey(args, kwargs, st, eng):
        def key_of(g):
            if isinstance(g, VOpt):
                return key_of(g.inner)
            if isinstance(g, VAbsIte):
                return z3.If(g.c, key_of(g.a), key_of(g.b))
            if isinstance(g, VRef):
                return st.heap[g.oid].fields["gen"].key
            return g.key
        return VInt(key_of(args[0]))
    eng.spec_builtins["GenKey"] = VFunc("GenKey", genkey)
    eng.spec_builtins["IsGlobalSeededRng"] = VFunc("IsGlobalSeededRng", lambda a, k, s, e: VBool(bool(getattr(a[0], "from_global", False))))

    def flatlen(args, kwargs, st, eng):
        v = eng.deref(args[0], st)
        if getattr(v, "flat", None) is None:
            raise SpecError("FlatLen of a list without flat length")
        return VInt(v.flat)
    eng.spec_builtins["FlatLen"] = VFunc("FlatLen", flatlen)


LIB_CLASSES["numpy.ndarray"] = {"bases": ["object"]}
LIB_CLASSES["torch.Tensor"] = {"bases": ["object"]}


@lib("torch.is_tensor")
def _is_tensor(args, kwargs, st, eng):
    v = eng.deref(args[0], st)
    from .libimg import AbsImage
    if isinstance(v, AbsImage):
        if not hasattr(v, "_is_tensor"):
            v._is_tensor = z3.Bool(uid("input_is_tensor"))
        return VBool(v._is_tensor)
    if isinstance(v, VSeq) and v.kind is not None:
        return VBool(v.kind == 1)
    return VBool(False)


def _as_kind(kind):
    def f(args, kwargs, st, eng):
        v = eng.as_seq(args[0], st)
        r = VSeq(v.len, v.elem, v.etype)
        r.kind = z3.IntVal(kind)
        return r
    return f


LIB["torch.tensor"] = _as_kind(1)
LIB["torch.from_numpy"] = _as_kind(1)
LIB["numpy.array"] = _as_kind(2)


class AbsWorkerInfo(VAbs):
    label = "worker-info"

    def __init__(self):
        self.nw = z3.Int(uid("info$num_workers"))
        self.wid = z3.Int(uid("info$id"))

    def getattr(self, name, st, eng):
        if name == "num_workers":
            st.assume(self.nw >= 1)
            return VInt(self.nw)
        if name == "id":
            st.assume(z3.And(0 <= self.wid, self.wid < self.nw))
            return VInt(self.wid)
        raise KeyError(name)


@lib("torch.utils.data.get_worker_info")
def _get_worker_info(args, kwargs, st, eng):
    """None in the main process; inside a DataLoader worker an info object with num_workers >= 1 and 0 <= id < num_workers"""
    return VOpt(z3.Bool(uid("worker_info$none")), AbsWorkerInfo())


class AbsRng(VAbs):
    """numpy Generator: its stream is a function of its seed key; draws advance a counter kept in ghost-free closure
    (each draw returns a fresh uninterpreted value of (key, draw number))"""
    label = "np-rng"

    def __init__(self, key):
        self.key = key
        self.draws = 0
        self.noted = False

    def keyterm(self):
        return self.key

    def ite_with(self, c, o):
        r = AbsRng(z3.If(c, self.key, o.key))
        r.draws = max(self.draws, o.draws)
        return r

    def _bump(self):
        self.draws += 1
        return self.draws

    def getattr(self, name, st, eng):
        eng.used_trusted.add("model:numpy Generator - every draw is an uninterpreted function of (generator key, draw number[, position]) within the documented range")
        if name in ("random", "uniform", "normal", "beta"):
            def f(args, kwargs, s, e, name=name):
                self.draws += 1
                # vector draws: rng.random(n) / rng.beta(a, b, size=n): n reals, a function of (key, draw number, position)
                size = kwargs.get("size")
                if size is None and name == "random" and args:
                    size = args[0]
                if size is None and name == "beta" and len(args) > 2:
                    size = args[2]
                if size is not None:
                    size = e.deref(size, s)
                    n = _e.to_int(size.elems[0]) if isinstance(size, VTuple) else _e.to_int(size)
                    fv = z3.Function("RngRealVec", z3.IntSort(), z3.IntSort(), z3.IntSort(), z3.RealSort())
                    key, d = self.key, z3.IntVal(self.draws)
                    k = z3.Int(uid("k"))
                    if name in ("random", "beta"):
                        s.assume(z3.ForAll([k], z3.And(fv(key, d, k) >= 0, fv(key, d, k) < 1 if name == "random" else fv(key, d, k) <= 1),
                                           patterns=[fv(key, d, k)]))
                    r = VSeq(z3.If(n >= 0, n, 0), lambda i: VReal(fv(key, d, i if z3.is_expr(i) else _e.to_int(i))), REAL)
                    r.kind = z3.IntVal(2)
                    return s.alloc(r)
                r = z3.Function("RngReal", z3.IntSort(), z3.IntSort(), z3.RealSort())(self.key, z3.IntVal(self.draws))
                if name == "random":
                    s.assume(z3.And(r >= 0, r < 1))
                if name == "uniform" and len(args) >= 2:
                    lo, hi = _e.to_real(e.deref(args[0], s)), _e.to_real(e.deref(args[1], s))
                    s.assume(z3.Or(z3.And(lo <= r, r <= hi), z3.And(hi <= r, r <= lo)))
                if name == "beta":
                    s.assume(z3.And(r >= 0, r <= 1))
                return VReal(r)
            return VFunc("rng." + name, f)
        if name == "shuffle":
            return VFunc("rng.shuffle", _shuffle(lambda a, s_, e_: (self.key, z3.IntVal(self._bump()))))
        if name == "permutation":
            def f(args, kwargs, s, e):
                a = e.deref(args[0], s)
                d = z3.IntVal(self._bump())
                if isinstance(a, VSeq):
                    _perm_seq(self.key, d, a.len, s)
                    return VSeq(a.len, lambda k: a.elem(Perm(self.key, d, a.len, k)), a.etype)
                n = _e.to_int(a)
                return _perm_seq(self.key, d, n, s)
            return VFunc("rng.permutation", f)
        if name == "integers":
            def f(args, kwargs, s, e):
                self.draws += 1
                lo = _e.to_int(e.deref(args[0], s))
                hi = _e.to_int(e.deref(args[1], s)) if len(args) > 1 else None
                if hi is None:
                    lo, hi = z3.IntVal(0), lo
                if e.cur_contract.get("rng_empty_raises"):
                    # numpy: ValueError("low >= high") - an explicit rejection, modelled as a raise outcome
                    sr = s.fork()
                    sr.assume(lo >= hi)
                    from .state import feasible as _feas
                    if _feas(sr.pc):
                        e.pending_raises.append((sr, "ValueError"))
                    s.assume(lo < hi)
                else:
                    e.safety(s, "rng.integers:low<high", lo < hi, None, "rng.integers(low, high) raises ValueError when low >= high")
                r = z3.Function("RngInt", z3.IntSort(), z3.IntSort(), z3.IntSort())(self.key, z3.IntVal(self.draws))
                s.assume(z3.And(lo <= r, r < hi))
                if "size" in kwargs:
                    size = e.deref(kwargs["size"], s)
                    n = _e.to_int(size.elems[0]) if isinstance(size, VTuple) else _e.to_int(size)
                    if z3.is_int_value(z3.simplify(n)) and z3.simplify(n).as_long() == 1:
                        return s.alloc(VSeq.of([VInt(r)], INT))
                    fv = z3.Function("RngIntVec", z3.IntSort(), z3.IntSort(), z3.IntSort(), z3.IntSort())
                    key, d = self.key, z3.IntVal(self.draws)
                    k = z3.Int(uid("k"))
                    s.assume(z3.ForAll([k], z3.And(lo <= fv(key, d, k), fv(key, d, k) < hi), patterns=[fv(key, d, k)]))
                    rr = VSeq(z3.If(n >= 0, n, 0), lambda i: VInt(fv(key, d, i if z3.is_expr(i) else _e.to_int(i))), INT)
                    rr.kind = z3.IntVal(2)
                    return s.alloc(rr)
                return VInt(r)
            return VFunc("rng.integers", f)
        raise KeyError(name)


def _global_rng(args, kwargs, st, eng):
    """kappadata.utils.random.get_rng_from_global(): a generator seeded from the process-global numpy RNG (one global read)"""
    if "g_global_reads" in st.ghost:
        st.ghost["g_global_reads"] = VInt(st.ghost["g_global_reads"].t + 1)
    r = AbsRng(z3.Int(uid("global_seed")))
    r.from_global = True
    return r


DEFAULT_EXTERNALS = {"kappadata/utils/random.py::get_rng_from_global": _global_rng}


@lib("numpy.random.default_rng")
def _default_rng(args, kwargs, st, eng):
    seed = kwargs.get("seed", args[0] if args else NONEV)
    seed = eng.deref(seed, st)
    if isinstance(seed, VNone):
        return AbsRng(z3.Int(uid("os_entropy")))
    return AbsRng(_e.to_int(seed))


@lib("torch.full")
def _full(args, kwargs, st, eng):
    size = eng.deref(kwargs.get("size", args[0] if args else None), st)
    v = eng.deref(kwargs.get("fill_value", args[1] if len(args) > 1 else None), st)
    n = _e.to_int(size.elems[0]) if isinstance(size, VTuple) else _e.to_int(size)
    r = VSeq(z3.If(n >= 0, n, 0), lambda i, v=v: v, typeof(v))
    r.kind = z3.IntVal(1)
    return st.alloc(r)


# ----------------------------------------------------------------------------------------------- numpy / tensor index arrays
def _mk_array(st, sq, kind):
    r = VSeq(sq.len, sq.elem, sq.etype, sq.concrete)
    r.kind = z3.IntVal(kind)
    return st.alloc(r)


@lib("numpy.arange")
def _np_arange(args, kwargs, st, eng):
    vals = [eng.deref(a, st) for a in args]
    ts = []
    for v in vals:
        if isinstance(v, VOpt):
            v = eng.unopt(v, st, None, "arange bound")
        if isinstance(v, VReal):
            # np.arange with float bounds: modelled for integral values only (np.ceil results); obligation says so
            t = z3.ToInt(v.t)
            eng.safety(st, "arange:integral-bound", z3.ToReal(t) == v.t, None, "np.arange bound is not integral", kind="model")
            ts.append(t)
        else:
            ts.append(_e.to_int(v))
    lo, hi = (z3.IntVal(0), ts[0]) if len(ts) == 1 else (ts[0], ts[1])
    ln = z3.If(hi > lo, hi - lo, 0)
    return _mk_array(st, VSeq(ln, lambda k: VInt(lo + k), INT), 2)


@lib("numpy.ceil")
def _np_ceil(args, kwargs, st, eng):
    v = eng.deref(args[0], st)
    if isinstance(v, VInt):
        return VReal(z3.ToReal(v.t))
    c = -z3.ToInt(-v.t)
    r = VReal(z3.ToReal(c))
    r.ratio = None
    r.int_value = c
    return r


@lib("numpy.floor")
def _np_floor(args, kwargs, st, eng):
    v = eng.deref(args[0], st)
    if isinstance(v, VInt):
        return VReal(z3.ToReal(v.t))
    c = z3.ToInt(v.t)
    r = VReal(z3.ToReal(c))
    r.int_value = c
    return r


@lib("numpy.tile")
def _np_tile(args, kwargs, st, eng):
    sq = eng.as_seq(args[0], st)
    r = _e.to_int(eng.deref(args[1], st))
    return _mk_array(st, VSeq(z3.If(r > 0, sq.len * r, 0), lambda k: sq.elem(k % sq.len), sq.etype), 2)


@lib("torch.tile")
def _torch_tile(args, kwargs, st, eng):
    """torch.tile(t, dims=[r]) of a 1-d tensor: r whole copies (the same assumed contract as numpy.tile)"""
    sq = eng.as_seq(args[0], st)
    dims = eng.deref(kwargs.get("dims", args[1] if len(args) > 1 else None), st)
    dims = eng.as_seq(dims, st)
    if dims.concrete is None or len(dims.concrete) != 1:
        raise Unsupported("torch.tile with anything but one repetition count")
    r = _e.to_int(eng.deref(dims.concrete[0], st))
    return _mk_array(st, VSeq(z3.If(r > 0, sq.len * r, 0), lambda k: sq.elem(k % sq.len), sq.etype), 1)


def _shuffle(gen_of):
    def h(args, kwargs, st, eng):
        """in-place shuffle: afterwards a[k] == old[Perm(key, draw, n, k)] (a permutation that is a function of the generator)"""
        ref = args[-1]
        old = eng.deref(ref, st)
        key, draw = gen_of(args, st, eng)
        _perm_seq(key, draw, old.len, st)
        new = VSeq(old.len, lambda k: old.elem(Perm(key, draw, old.len, k)), old.etype)
        new.kind = old.kind
        if isinstance(ref, VRef):
            st.heap[ref.oid] = new
        else:
            raise Unsupported("shuffle of an immutable sequence")
        return NONEV
    return h


LIB["numpy.random.shuffle"] = _shuffle(lambda a, s, e: (z3.Int(uid("global_np_rng")), z3.IntVal(0)))


def seq_filter(st, eng, n, pred, elem, etype=INT, label="filter"):
    """order preserving filter of positions 0..n-1 by pred(position): fresh sequence F with
    F strictly increasing positions P(k), all satisfying pred, and complete (every satisfying position occurs)"""
    name = uid(label)
    P = z3.Function(name + "$pos", z3.IntSort(), z3.IntSort())
    Inv = z3.Function(name + "$inv", z3.IntSort(), z3.IntSort())
    ln = z3.Int(name + "$len")
    k, i = z3.Int(uid("k")), z3.Int(uid("i"))
    st.assume(ln >= 0, ln <= n,
              z3.ForAll([k], z3.Implies(z3.And(0 <= k, k < ln), z3.And(0 <= P(k), P(k) < n, pred(P(k)), Inv(P(k)) == k)), patterns=[P(k)]),
              z3.ForAll([k], z3.Implies(z3.And(0 <= k, k + 1 < ln), P(k) < P(k + 1)), patterns=[P(k + 1)]),
              z3.ForAll([i], z3.Implies(z3.And(0 <= i, i < n, pred(i)), z3.And(0 <= Inv(i), Inv(i) < ln, P(Inv(i)) == i)), patterns=[Inv(i)]))
    r = VSeq(ln, lambda t: elem(P(t)), etype)
    r.filter_pos = P
    return r


@lib("numpy.isin")
def _np_isin(args, kwargs, st, eng):
    a, vals = eng.as_seq(args[0], st), eng.deref(args[1], st)
    au = kwargs.get("assume_unique", VBool(False))
    eng.safety(st, "isin:assume_unique-off", z3.Not(eng.truth(au, st)), None,
               "np.isin(..., assume_unique=True) is only exact when BOTH arrays are duplicate free; per-sample class arrays are not")
    r = VSeq(a.len, lambda k: VBool(eng.contains(vals, a.elem(k), st, None)), BOOL)
    r.kind = z3.IntVal(2)
    return r


@lib("numpy.array")
def _np_array(args, kwargs, st, eng):
    v = eng.as_seq(args[0], st)
    r = VSeq(v.len, v.elem, v.etype, v.concrete)
    r.kind = z3.IntVal(2)
    return r


LIB["numpy.int64"] = lambda a, k, s, e: VStr("np.int64")
LIB_OBJECTS["numpy.int64"] = lambda: VStr("np.int64")


LIB_CLASSES["torch.utils.data.Subset"] = {"bases": ["object"]}


@lib("torch.utils.data.Subset.__init__")
def _subset_init(args, kwargs, st, eng):
    """stores dataset and indices (the __getitem__/__getitems__ rule of the installed torch is a separate frame obligation)"""
    ref = args[0]
    ds = kwargs.get("dataset", args[1] if len(args) > 1 else None)
    idx = kwargs.get("indices", args[2] if len(args) > 2 else None)
    obj = st.heap[ref.oid]
    obj.fields["dataset"], obj.fields["indices"] = ds, idx
    return [(st, NONEV)]


@lib("torch.max")
def _torch_max(args, kwargs, st, eng):
    sq = eng.as_seq(args[0], st)
    m, k = z3.Int(uid("max")), z3.Int(uid("k"))
    w = z3.Int(uid("argmax"))
    eng.safety(st, "max:nonempty", sq.len > 0, None, "max of an empty tensor")
    st.assume(z3.ForAll([k], z3.Implies(z3.And(0 <= k, k < sq.len), _e.to_int(sq.elem(k)) <= m)),
              0 <= w, w < sq.len, _e.to_int(sq.elem(w)) == m)
    r = VSeq.of([VInt(m)], INT)
    r.kind = z3.IntVal(1)
    return r


@lib("numpy.max")
def _np_max(args, kwargs, st, eng):
    """np.max of a non-empty 1-d integer array: an upper bound that is attained (a numpy scalar)"""
    sq = eng.as_seq(args[0], st)
    if not isinstance(sq.etype, TInt) or len(args) != 1 or kwargs:
        raise Unsupported("numpy.max of anything but one 1-d integer array")
    m, k, w = z3.Int(uid("npmax")), z3.Int(uid("k")), z3.Int(uid("argmax"))
    eng.safety(st, "max:nonempty", sq.len > 0, None, "np.max of an empty array raises")
    st.assume(z3.ForAll([k], z3.Implies(z3.And(0 <= k, k < sq.len), _e.to_int(sq.elem(k)) <= m)),
              0 <= w, w < sq.len, _e.to_int(sq.elem(w)) == m)
    return VInt(m)


def _class_counts(args, kwargs, st, eng):
    """kappadata.utils.class_counts.get_class_counts(classes, n_classes): counts[i] = number of labels equal to i
    (length max(n_classes, 2), all >= 0), plus the number of -1 labels"""
    n = _e.to_int(eng.deref(kwargs.get("n_classes", args[1] if len(args) > 1 else None), st))
    ln = z3.If(n == 1, 2, n)
    name = uid("counts")
    f = z3.Function(name, z3.IntSort(), z3.IntSort())
    k = z3.Int(uid("k"))
    st.assume(z3.ForAll([k], f(k) >= 0, patterns=[f(k)]))
    c = VSeq(ln, lambda t: VInt(f(t)), INT)
    c.kind = z3.IntVal(1)
    u = z3.Int(uid("unlabeled"))
    st.assume(u >= 0)
    return VTuple([c, VInt(u)])


DEFAULT_EXTERNALS["kappadata/utils/class_counts.py::get_class_counts"] = _class_counts
LIB["torch.arange"] = lambda a, k, s, e: _mk_array(s, (lambda n: VSeq(z3.If(n > 0, n, 0), lambda t: VInt(t), INT))(_e.to_int(e.deref(a[0], s))), 1)
