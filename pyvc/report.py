"""Check driver: runs the units of one property, discharges obligations, handles known findings, replay,
evidence and exit codes (0 held / 1 violation / 2 undecided / 3 checker error)."""
import hashlib
import importlib
import json
import os
import sys
import time
import traceback

import z3

from .engine import Engine, REPO
from .state import Obligation, Unsupported, SpecError
from .values import MergeError
from .solve import discharge

ROOT = os.path.dirname(os.path.dirname(os.path.abspath(__file__)))
DROPPED = [
    "docstrings, comments, type annotations", "decorators other than property/staticmethod/classmethod/dataclass",
    "logging/print calls (no-ops)", "string contents (only equality of concrete item names is interpreted)",
    "exception messages", "object identity beyond heap references tracked by the engine",
]
ASSUMPTIONS = [
    "python int is mathematical (true in CPython); // and % are modelled for positive divisors, positivity is an obligation",
    "python float is modelled as a mathematical real (machine arithmetic treated as mathematical)",
    "numpy/torch integer dtypes do not overflow",
    "single-threaded, left-to-right evaluation; consumers of a generator do not mutate the sampler between yields",
    "attribute lookup follows the static class model built from the repo ASTs",
    "library contracts listed in trusted_base are assumed (see DESIGN.md section 4)",
]


class Result:
    def __init__(self, pid, tier, seed):
        self.pid, self.tier, self.seed = pid, tier, seed
        self.obligations = []     # Obligation objects with verdicts
        self.functions = []
        self.trusted = set()
        self.bounded = []         # dicts: name, bound, evaluations, distinct, failures, samples
        self.notes = []
        self.samples = []
        self.errors = []


def run_contracts(res, contracts, all_contracts=None):
    """symbolically execute every contract's function from the current /repo tree; collect obligations"""
    eng = Engine()
    for c in (all_contracts or contracts):
        if c["target"] not in eng.contracts or c.get("primary") or "name" not in c:
            eng.contracts[c["target"]] = c
    for c in contracts:
        n0 = len(eng.obligations)
        name = c.get("name", c["target"])
        try:
            eng.verify(c)
            if len(eng.obligations) - n0 <= 0:
                res.errors.append(f"zero obligations generated for {name}")
        except (Unsupported, SpecError) as ex:
            del eng.obligations[n0:]
            ob = Obligation(f"{name}:supported", "vc", [], z3.BoolVal(False), c["target"],
                            f"function left the verified subset / contract unresolvable: {ex}", func=name)
            ob.verdict, ob.backend, ob.detail = "undecided", "engine", f"{type(ex).__name__}: {ex}"
            eng.obligations.append(ob)
        except (MergeError, KeyError, AttributeError, TypeError, IndexError, z3.Z3Exception) as ex:
            import traceback as _tb
            del eng.obligations[n0:]
            ob = Obligation(f"{name}:supported", "vc", [], z3.BoolVal(False), c["target"],
                            f"engine could not process the function: {type(ex).__name__}: {ex}", func=name)
            ob.verdict, ob.backend = "undecided", "engine"
            ob.detail = f"{type(ex).__name__}: {ex} @ " + " < ".join(f"{f.name}:{f.lineno}" for f in _tb.extract_tb(ex.__traceback__)[-4:])
            eng.obligations.append(ob)
        except RecursionError as ex:
            del eng.obligations[n0:]
            ob = Obligation(f"{name}:supported", "vc", [], z3.BoolVal(False), c["target"], "recursion limit", func=name)
            ob.verdict, ob.backend, ob.detail = "undecided", "engine", "RecursionError"
            eng.obligations.append(ob)
    res.obligations.extend(eng.obligations)
    res.functions.extend(eng.functions_under_contract)
    res.trusted |= eng.used_trusted
    res.trusted |= {f"inlined-helper:{k}" for k in eng.inlined}
    return eng


def add_direct(res, name, kind, ok, where="", note="", detail="", backend="frame-checker", model=None, undecided=False):
    """record an obligation decided by a non-SMT back end (frame checker / bounded run)"""
    ob = Obligation(name, kind, [], z3.BoolVal(True), where, note, func=name.split(":")[0])
    ob.verdict = "undecided" if undecided else ("discharged" if ok else "refuted")
    ob.backend, ob.detail, ob.model = backend, detail, model
    res.obligations.append(ob)
    return ob


def load_known():
    p = os.path.join(ROOT, "known_findings.json")
    if not os.path.exists(p):
        return []
    return json.load(open(p))


def group(obs):
    g = {}
    for o in obs:
        g.setdefault(o.name, []).append(o)
    return g


def tree_hashes(functions):
    return {f["file"]: f["file_sha256"] for f in functions}


def finish(res, t0, level, checker_cmd, replay_fn=None, extra_cov=None, rule=None):
    """decide verdict, write evidence (always), print result lines, return exit code"""
    pid = res.pid
    pending = [o for o in res.obligations if o.verdict is None]
    discharge(pending, tier=res.tier, seed=res.seed)
    groups = group(res.obligations)
    covers = {n: obs for n, obs in groups.items() if obs[0].kind == "cover"}
    real = {n: obs for n, obs in groups.items() if obs[0].kind != "cover"}
    proof_kinds = ("vc", "safety", "defined", "frame", "model")
    n_obl = len([n for n, obs in real.items() if obs[0].kind in proof_kinds])
    refuted, undecided = [], []
    for n, obs in real.items():
        bad = [o for o in obs if o.verdict == "refuted"]
        und = [o for o in obs if o.verdict == "undecided"]
        if bad:
            if obs[0].kind == "model":
                undecided.append((n, bad[0], "outside the modelled fragment: " + bad[0].note))
            else:
                refuted.append((n, bad[0]))
        elif und:
            undecided.append((n, und[0], und[0].detail or "solver unknown"))
    refuted_funcs = {ob.func for _, ob in refuted}
    # a cover that is unsatisfiable only because a refuted obligation was assumed afterwards is not a vacuity problem
    vacuous = [n for n, obs in covers.items() if any(o.verdict == "vacuous" for o in obs) and obs[0].func not in refuted_funcs]
    n_dis = len([n for n, obs in real.items() if obs[0].kind in proof_kinds and all(o.verdict == "discharged" for o in obs)])
    n_bounded = len([n for n, obs in real.items() if obs[0].kind == "bounded"])
    # known findings
    known = [k for k in load_known() if k.get("property") == pid and k.get("status") == "known"]
    lines, violations, replays = [], [], []
    os.makedirs(os.path.join(ROOT, "replays"), exist_ok=True)
    for n, ob in refuted:
        kf = next((k for k in known if k["obligation"] == n and (not k.get("where") or k["where"] in (ob.detail + ob.note + ob.where))), None)
        if kf is not None:
            lines.append(f"KNOWN-FINDING: property={pid} {kf['what']}")
            continue
        rp = {"property": pid, "obligation": n, "kind": ob.kind, "where": ob.where, "note": ob.note,
              "tree": tree_hashes(res.functions),
              "solver": {"backend": ob.backend, "result": "sat" if ob.backend not in ("frame-checker", "bounded") else "refuted",
                         "model": ob.model, "detail": ob.detail},
              "native": None}
        found = False
        if ob.kind == "bounded" and ob.model:
            # a bounded stand-in fails on a concrete input of the real code: that input is the replay
            rp["native"] = {"failed": True, "input": ob.model}
            found = True
        elif replay_fn is not None:
            try:
                nat = replay_fn(ob)
            except Exception as ex:
                nat = {"failed": False, "error": f"{type(ex).__name__}: {ex}", "trace": traceback.format_exc()[-1500:]}
            rp["native"] = nat
            found = bool(nat and nat.get("failed"))
        elif ob.kind in ("bounded",) and ob.model:
            rp["native"] = {"failed": True, "input": ob.model}
            found = True
        path = os.path.join(ROOT, "replays", f"{pid}-{hashlib.sha1(n.encode()).hexdigest()[:10]}.json")
        json.dump(rp, open(path, "w"), indent=1, default=str)
        violations.append((n, path, found))
    # listed known findings whose obligation is NOT refuted any more are simply not printed
    ok_lines = []
    code = 0
    if res.errors or vacuous or n_obl + n_bounded == 0:
        code = 3
        for e in res.errors:
            lines.append(f"CHECKER-ERROR property={pid} {e}")
        for v in vacuous:
            lines.append(f"CHECKER-ERROR property={pid} vacuous precondition or unreachable return: {v}")
        if n_obl + n_bounded == 0:
            lines.append(f"CHECKER-ERROR property={pid} zero obligations")
    if violations:
        code = 1
        for n, path, found in violations:
            lines.append(f"VIOLATION property={pid} replay={path} obligation={n}" + ("" if found else " no-failing-input-found"))
    elif undecided and code == 0:
        code = 2
        for n, ob, why in undecided:
            lines.append(f"UNDECIDED property={pid} obligation={n} reason={why[:300]}")
    if code == 0:
        lines.append(f"OK property={pid} obligations={n_obl} discharged={n_dis} bounded={n_bounded}")
    # ------------------------------------------------------------------ evidence
    solver_ms = {}
    for o in res.obligations:
        solver_ms[o.backend or "none"] = solver_ms.get(o.backend or "none", 0) + (o.ms or 0)
    ob_list = []
    for n, obs in groups.items():
        verdicts = {o.verdict for o in obs}
        v = "refuted" if "refuted" in verdicts else ("undecided" if "undecided" in verdicts else
                                                       ("vacuous" if "vacuous" in verdicts else "discharged"))
        ob_list.append({"name": n, "kind": obs[0].kind, "instances": len(obs), "verdict": v,
                        "backends": sorted({o.backend or "" for o in obs}), "ms": sum(o.ms or 0 for o in obs),
                        "where": obs[0].where, "note": obs[0].note[:200]})
    samples = list(res.samples)
    for o in res.obligations:
        if len(samples) >= 4:
            break
        if o.kind == "vc" and o.verdict == "discharged" and o.pc:
            txt = o.smt2()
            samples.append({"obligation": o.name, "where": o.where, "note": o.note[:200],
                            "smtlib2_head": txt[:1200], "smtlib2_bytes": len(txt)})
    for b in res.bounded:
        samples.extend(b.get("samples", [])[:2])
    evals = sum(b.get("evaluations", 0) for b in res.bounded)
    distinct = sum(b.get("distinct", 0) for b in res.bounded)
    cov = {
        "obligations": n_obl, "discharged": n_dis, "checker_cmd": checker_cmd,
        "trusted_base": sorted(res.trusted),
        "functions_under_contract": res.functions,
        "obligation_list": ob_list,
        "solver_ms": solver_ms,
        "vacuity_checks": {n: sorted({o.verdict for o in obs}) for n, obs in covers.items()},
        "bounded": [{k: v for k, v in b.items() if k != "samples"} for b in res.bounded],
        "samples": samples or [{"note": "no sample"}],
        "dropped_by_extraction": DROPPED,
        "undecided": [{"obligation": n, "reason": why[:300]} for n, _, why in undecided],
        "refuted": [n for n, _ in refuted],
        "notes": res.notes,
    }
    if evals or level in ("exploration", "fault_enumeration"):
        cov["evaluations"] = max(evals, 1)
        cov["distinct_nontrivial"] = max(distinct, 0)
        cov["rule"] = rule or "; ".join(b.get("rule", b["name"]) for b in res.bounded)
    if extra_cov:
        cov.update(extra_cov)
    ev_level = level
    if level == "proof" and (n_obl == 0 or n_dis != n_obl):
        # an evidence file may only say `proof` when every vc/frame obligation of this run was discharged
        ev_level = "other"
        cov["explanation"] = (f"{n_dis} of {n_obl} obligations discharged in this run; "
                              f"{len(refuted)} refuted, {len(undecided)} undecided - not a proof")
    ev = {"property_id": pid, "tier": res.tier, "seed": res.seed, "level": ev_level, "coverage": cov,
          "assumptions": ASSUMPTIONS + res.notes, "wall_s": round(time.time() - t0, 2),
          "violations": len(violations)}
    os.makedirs(os.path.join(ROOT, "evidence"), exist_ok=True)
    path = os.path.join(ROOT, "evidence", f"{pid}.json")
    json.dump(ev, open(path, "w"), indent=1, default=str)
    try:
        import jsonschema
        schema = json.load(open("/root/.vp/EVIDENCE.schema.json")) if os.path.exists("/root/.vp/EVIDENCE.schema.json") \
            else json.load(open(os.path.join(ROOT, "tools", "EVIDENCE.schema.json")))
        jsonschema.validate(ev, schema)
    except Exception as ex:
        lines.append(f"CHECKER-ERROR property={pid} evidence does not validate: {str(ex)[:200]}")
        code = 3 if code != 1 else 1        # a replayed violation stays a violation
    for l in lines:
        print(l)
    return code
