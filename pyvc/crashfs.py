"""Abstract file system with crash points for C20 (DESIGN A.4).

Abstract state of the destination folder (ghost variables of the verified function):
  g_D  dst exists          g_S  start marker exists      g_E  end marker exists
  g_C  payload: 0 none / 1 partial / 2 complete          g_U  dst is user-provided (ghost, never changed)
  g_writes  number of mutating file-system operations on dst performed by this call
Crash invariant CI (also the function's precondition, so any number of earlier crashes is covered):
  (D and not S => U)  and  (E => S and C == 2)  and  (S => D)  and  (E => D)  and  (U => D and writes == 0 and not S and not E)
Every mutating operation emits one obligation per crash-exposed state: CI holds there.
"""
import ast
import z3
from .values import *  # noqa
from .state import *  # noqa
from . import expr as _e
from .lib import LIB, LIB_CLASSES, lib

GH = ["g_D", "g_S", "g_E", "g_C", "g_U", "g_writes"]


def ci(D, S, E, C, U, W):
    return z3.And(z3.Implies(z3.And(D, z3.Not(S)), U), z3.Implies(E, z3.And(S, C == 2)), z3.Implies(S, D), z3.Implies(E, D),
                  z3.Implies(U, z3.And(D, W == 0, z3.Not(S), z3.Not(E))))


def cur(st):
    g = st.ghost
    return (g["g_D"].t, g["g_S"].t, g["g_E"].t, g["g_C"].t, g["g_U"].t, g["g_writes"].t)


def set_state(st, D=None, S=None, E=None, C=None, W=None):
    for k, v, wrap in (("g_D", D, VBool), ("g_S", S, VBool), ("g_E", E, VBool), ("g_C", C, VInt), ("g_writes", W, VInt)):
        if v is not None:
            st.ghost[k] = wrap(v)


def site(eng, opname):
    """stable name of the call site: ordinal among the mutating file-system calls of the function under verification"""
    node = getattr(eng, "cur_call_node", None)
    fi = eng.cur_fi
    sites = []
    for n in ast.walk(fi.node):
        if isinstance(n, ast.Call):
            f = ast.unparse(n.func)
            if f in ("shutil.rmtree", "shutil.copytree", "open", "unzip_batched_zips", "unzip_imagefolder_classwise",
                     "run_unzip_jobs") or f.endswith(".mkdir") or f.endswith(".extractall"):
                sites.append(n)
    sites.sort(key=lambda n: (n.lineno, n.col_offset))
    k = sites.index(node) if node in sites else -1
    return f"crash:{opname}#{k}", node


def crash_obligation(eng, st, opname, phase, exposed, extra=()):
    """CI must hold in the crash-exposed state `exposed` = (D,S,E,C,U,W) (terms; `extra` constrains fresh symbols)"""
    name, node = site(eng, opname)
    s2 = st.fork().assume(*extra)
    eng.oblige(s2, f"{name}:{phase}", "vc", ci(*exposed), node,
               note=f"crash invariant in the state a crash can expose {phase} {opname}")


class AbsPath(VAbs):
    """a pathlib.Path by role: ('global',), ('local',), ('src',), ('dst',), ('dst','start'), ('dst','end'), ('src','zip'), other"""
    label = "path"

    def __init__(self, role):
        self.role = tuple(role)

    def key(self):
        return ("path:" + "/".join(self.role), ())

    def isinstance(self, clsname, st, eng):
        return z3.BoolVal(clsname.endswith("Path"))

    def call_method(self, name, args, kwargs, st, eng):
        if name == "__truediv__":
            other = args[0]
            if self.role in (("src",), ("dst",)) and isinstance(other, AbsPath):
                return [(st, AbsPath(self.role))]          # global / relative_path is the source, local / relative_path the destination
            if self.role == ("local",) and isinstance(other, AbsPath):
                return [(st, AbsPath(("dst",)))]
            if self.role == ("local",) and isinstance(other, VStr):
                return [(st, AbsPath(("local", "file")))]   # a file next to (not inside) the destination folder
            if self.role == ("dst",) and isinstance(other, VStr) and other.s in ("autocopy_start.txt", "autocopy_end.txt"):
                return [(st, AbsPath(("dst", "start" if "start" in other.s else "end")))]
            return [(st, AbsPath(self.role + ("child",)))]
        raise Unsupported(f"path.{name}")

    def getattr(self, name, st, eng):
        role = self.role
        if name == "expanduser":
            return VFunc("path.expanduser", lambda a, k, s, e: self)
        if name == "exists":
            def f(a, k, s, e):
                if role == ("dst",): return s.ghost["g_D"]
                if role == ("local", "file"): return VBool(z3.Bool(uid("other_file_exists")))
                if role == ("local",): return VBool(z3.Bool(uid("local_root_exists")))
                if role == ("dst", "start"): return s.ghost["g_S"]
                if role == ("dst", "end"): return s.ghost["g_E"]
                if role == ("src",): return s.consts["src_exists"]
                if role == ("src", "zip"): return s.consts["src_zip"]
                raise Unsupported(f"exists() of path role {role}")
            return VFunc("path.exists", f)
        if name == "is_dir":
            def f(a, k, s, e):
                if role == ("src",): return s.consts["src_isdir"]
                raise Unsupported(f"is_dir() of path role {role}")
            return VFunc("path.is_dir", f)
        if name == "with_suffix":
            def f(a, k, s, e):
                if role == ("src",): return AbsPath(("src", "zip"))
                return AbsPath(role + ("suffix",))
            return VFunc("path.with_suffix", f)
        if name == "mkdir":
            def f(a, k, s, e):
                if role != ("dst",):
                    raise Unsupported(f"mkdir of path role {role}")
                D, S, E, C, U, W = cur(s)
                e.safety(s, "mkdir:not-existing", z3.Or(z3.Not(D), e.truth(k.get("exist_ok", VBool(False)), s)), None,
                         "mkdir of an existing directory raises FileExistsError")
                set_state(s, D=z3.BoolVal(True), W=W + 1)
                crash_obligation(e, s, "mkdir", "after", cur(s))
                return NONEV
            return VFunc("path.mkdir", f)
        if name == "name":
            return VStr(t=fresh(STR, "pathname").t)
        raise KeyError(name)


def _path_construct(args, kwargs, st, eng):
    return [(st, AbsPath(("other",)))]


LIB_CLASSES["pathlib.Path"] = {"bases": ["object"], "construct": _path_construct}


class AbsFile(VAbs):
    label = "file"

    def getattr(self, name, st, eng):
        if name in ("write", "close"):
            return VFunc("file." + name, lambda a, k, s, e: NONEV)
        if name == "extractall":
            def f(a, k, s, e):
                extract(e, s, "extractall", a[0] if a else k.get("path"), getattr(self, "kind", 2))
                return NONEV
            return VFunc("zip.extractall", f)
        raise KeyError(name)


def _open(args, kwargs, st, eng):
    """open(marker, "w"): creation is atomic (content irrelevant)"""
    p = args[0]
    if isinstance(p, AbsPath) and p.role == ("local", "file"):
        return AbsFile()          # written outside the destination folder: no effect on its markers
    if not isinstance(p, AbsPath) or p.role not in (("dst", "start"), ("dst", "end")):
        raise Unsupported("open() of a path that is not a marker file")
    D, S, E, C, U, W = cur(st)
    eng.safety(st, "open:parent-exists", D, None, "open(marker, 'w') inside a missing directory")
    if p.role[1] == "start":
        set_state(st, S=z3.BoolVal(True), W=W + 1)
    else:
        set_state(st, E=z3.BoolVal(True), W=W + 1)
    crash_obligation(eng, st, "open-" + p.role[1], "after", cur(st))
    return AbsFile()


def _rmtree(args, kwargs, st, eng):
    """shutil.rmtree(dst): NOT atomic - at a crash any subset of the entries may be gone, the directory goes last"""
    p = args[0]
    if not isinstance(p, AbsPath) or p.role != ("dst",):
        raise Unsupported("rmtree of a path other than dst")
    D, S, E, C, U, W = cur(st)
    eng.safety(st, "rmtree:exists", D, None, "rmtree of a missing directory")
    S2, E2, C2 = z3.Bool(uid("S_mid")), z3.Bool(uid("E_mid")), z3.Int(uid("C_mid"))
    rel = [z3.Implies(S2, S), z3.Implies(E2, E), z3.Or(C2 == C, C2 == 1, C2 == 0), z3.Implies(C == 0, C2 == 0)]
    crash_obligation(eng, st, "rmtree", "during", (z3.BoolVal(True), S2, E2, C2, U, W + 1), rel)
    set_state(st, D=z3.BoolVal(False), S=z3.BoolVal(False), E=z3.BoolVal(False), C=z3.IntVal(0), W=W + 1)
    crash_obligation(eng, st, "rmtree", "after", cur(st))
    if "g_deleted" in st.ghost:
        st.ghost["g_deleted"] = VBool(True)
    return NONEV


def extract(eng, st, opname, dst, kind=None):
    """copytree / extractall / unzip jobs into dst: NOT atomic - any prefix of the payload may exist at a crash;
    complete on normal return"""
    if not isinstance(dst, AbsPath) or dst.role != ("dst",):
        raise Unsupported(f"{opname} into a path other than dst")
    D, S, E, C, U, W = cur(st)
    eng.safety(st, f"{opname}:dst-exists", D, None, "payload written into a missing directory")
    C2 = z3.Int(uid("C_mid"))
    crash_obligation(eng, st, opname, "during", (D, S, E, C2, U, W + 1), [z3.Or(C2 == 0, C2 == 1, C2 == 2)])
    set_state(st, C=z3.IntVal(2), W=W + 1)
    crash_obligation(eng, st, opname, "after", cur(st))
    if "g_format" in st.ghost and kind is not None:
        st.ghost["g_format"] = VInt(kind)
    if "g_nextract" in st.ghost:
        st.ghost["g_nextract"] = VInt(st.ghost["g_nextract"].t + 1)


def _copytree(args, kwargs, st, eng):
    src = args[0]
    if not isinstance(src, AbsPath) or src.role != ("src",):
        raise Unsupported("copytree from a path other than src")
    sym = kwargs.get("symlinks", VBool(False))
    eng.safety(st, "copytree:dereferences-symlinks", z3.Not(eng.truth(sym, st)), None,
               "copytree(symlinks=True) copies links instead of the files they point to: not a byte-identical copy")
    extract(eng, st, "copytree", args[1], 1)
    return NONEV


def _zipfile(args, kwargs, st, eng):
    p = args[0]
    if not isinstance(p, AbsPath) or p.role != ("src", "zip"):
        raise Unsupported("ZipFile of a path other than src.zip")
    f = AbsFile()
    f.kind = 2
    return [(st, f)]


LIB["shutil.rmtree"] = _rmtree
LIB["shutil.copytree"] = _copytree
LIB_CLASSES["zipfile.ZipFile"] = {"bases": ["object"], "construct": _zipfile}


def unzip_jobs(opname):
    def h(args, kwargs, st, eng):
        src = kwargs.get("src", args[0] if args else None)
        dst = kwargs.get("dst", args[1] if len(args) > 1 else None)
        if not isinstance(src, AbsPath) or src.role != ("src",):
            raise Unsupported(f"{opname} from a path other than src")
        extract(eng, st, opname, dst, 3)
        return NONEV
    return h


def mostly_zips(args, kwargs, st, eng):
    return VTuple([st.consts["mostly_zips"], VSeq(z3.Int(uid("nzips")), lambda i: fresh(STR, "zipname"), STR)])


# repo functions replaced by assumed contracts when the copy functions are verified (they are checked on their own by the
# bounded stand-in): name -> handler
EXTERNAL = {
    "kappadata/copying/folder.py::unzip_batched_zips": unzip_jobs("unzip_batched_zips"),
    "kappadata/copying/image_folder.py::unzip_imagefolder_classwise": unzip_jobs("unzip_imagefolder_classwise"),
    "kappadata/copying/copying_utils.py::folder_contains_mostly_zips": mostly_zips,
    "kappadata/utils/logging.py::log": lambda a, k, s, e: NONEV,
}


def install(eng):
    eng.builtins["open"] = VFunc("open", _open)
    eng.externals.update(EXTERNAL)


SRC = TAbs(lambda name, idx: AbsPath(("src",)), "path:src")
DST = TAbs(lambda name, idx: AbsPath(("dst",)), "path:dst")
LOCAL = TAbs(lambda name, idx: AbsPath(("local",)), "path:local")
REL = TAbs(lambda name, idx: AbsPath(("rel",)), "path:rel")


# ---------------------------------------------------------------------------------------------- unzip jobs (joblib)
JobF = z3.Function("UnzipJob", ValSort, ValSort, ValSort)


def _unzip_external(args, kwargs, st, eng):
    """copying_utils.unzip(src, dst): one extraction, recorded in ghost g_nunzip / g_unzipped (list of (src, dst) jobs)"""
    if "g_nunzip" in st.ghost:
        st.ghost["g_nunzip"] = VInt(st.ghost["g_nunzip"].t + 1)
    if "g_unzipped" in st.ghost:
        cur_ = st.ghost["g_unzipped"]
        job = VVal(JobF(args[0].t, args[1].t))
        st.ghost["g_unzipped"] = VSeq(cur_.len + 1, lambda i, c=cur_, j=job: ite(i == c.len, j, c.elem(i)), VAL)
    return NONEV


class AbsDelayed(VAbs):
    label = "joblib.delayed"

    def call_method(self, name, args, kwargs, st, eng):
        return [(st, VVal(JobF(args[0].t, args[1].t)))]


class AbsParallel(VAbs):
    """joblib.Parallel(n_jobs)(jobs): runs every job of the list exactly once (order of completion irrelevant)"""
    label = "joblib.Parallel"

    def call_method(self, name, args, kwargs, st, eng):
        jobs = eng.as_seq(args[0], st)
        if "g_nunzip" in st.ghost:
            st.ghost["g_nunzip"] = VInt(st.ghost["g_nunzip"].t + jobs.len)
        if "g_unzipped" in st.ghost:
            st.ghost["g_unzipped"] = eng.seq_concat(st.ghost["g_unzipped"], jobs)
        return [(st, NONEV)]


LIB["joblib.delayed"] = lambda a, k, s, e: AbsDelayed()
LIB_CLASSES["joblib.Parallel"] = {"bases": ["object"], "construct": lambda a, k, s, e: [(s, AbsParallel())]}
UNZIP_EXTERNAL = {"kappadata/copying/copying_utils.py::unzip": _unzip_external}


def install_unzip(eng):
    eng.externals.update(UNZIP_EXTERNAL)
    eng.spec_builtins["JobOf"] = VFunc("JobOf", lambda a, k, s, e: VVal(JobF(a[0].t, a[1].t)))
