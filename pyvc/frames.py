"""Frame / effect obligations decided on the AST of the real functions (back end name: frame-checker).
They are deductive and unbounded (they hold for every execution of the text that is read on this run) but are
not SMT proofs and are counted under their own back end."""
import ast
import os
from .engine import REPO, ModuleInfo
from .report import add_direct

_mods = {}


def module(rel):
    if rel not in _mods:
        _mods[rel] = ModuleInfo(rel)
    return _mods[rel]


def find_func(rel, cls, name):
    m = module(rel)
    if cls is None:
        return m, m.functions.get(name)
    cd = m.classes.get(cls)
    if cd is None:
        return m, None
    for n in cd.body:
        if isinstance(n, ast.FunctionDef) and n.name == name:
            return m, n
    return m, None


def rank_only_in_slice(res, rel, cls, fn, attrs):
    """the global draw is rank independent: self.<attr> may be read only inside a subscript slice (the rank split)
    or through len(self) / self.effective_length after the draw"""
    m, f = find_func(rel, cls, fn)
    name = f"{rel}::{cls}.{fn}:frame:rank-read-only-in-split"
    if f is None:
        add_direct(res, name, "frame", False, undecided=True, detail="function not found")
        return
    bad = []
    parents = {}
    for p in ast.walk(f):
        for c in ast.iter_child_nodes(p):
            parents[c] = p
    for n in ast.walk(f):
        if isinstance(n, ast.Attribute) and isinstance(n.value, ast.Name) and n.value.id == "self" and n.attr in attrs:
            q, ok = n, False
            while q in parents:
                q = parents[q]
                if isinstance(q, ast.Slice):
                    ok = True
                    break
            if not ok:
                bad.append(f"{rel}:{n.lineno} self.{n.attr}")
    add_direct(res, name, "frame", not bad, where=f"{rel}:{f.lineno}",
               note=f"self.{{{','.join(attrs)}}} is read only inside the rank-split slice, so the draw before it is the same on every rank",
               detail="; ".join(bad))


def class_defines(eng, clsid, name):
    """does a repo class in the MRO of clsid (before any library class) define `name`?"""
    for c in eng.mro(clsid):
        if "::" not in c:
            continue
        m, cd = eng.class_def(c)
        if any(isinstance(n, ast.FunctionDef) and n.name == name for n in cd.body):
            return c
    return None


def subset_constructible(res, rel="kappadata/datasets/kd_subset.py", cls="KDSubset"):
    """torch.utils.data.Subset.__init__ (installed version, read at run time) raises NotImplementedError when the
    subclass overrides __getitem__ without __getitems__: the KDSubset family must not fall under that rule"""
    from .engine import Engine
    import inspect
    name = f"{rel}::{cls}.__init__:constructible"
    try:
        import torch.utils.data as tud
        src = inspect.getsource(tud.Subset.__init__)
        rule = "__getitems__ is Subset.__getitems__" in src and "NotImplementedError" in src
    except Exception as ex:      # pragma: no cover
        add_direct(res, name, "frame", False, undecided=True, detail=f"cannot read torch Subset: {ex}")
        return
    eng = Engine()
    clsid = f"{rel}::{cls}"
    gi = class_defines(eng, clsid, "__getitem__")
    gis = class_defines(eng, clsid, "__getitems__")
    ok = (not rule) or gi is None or gis is not None
    res.trusted.add("lib:torch.utils.data.Subset.__init__ (rule read from the installed torch source at run time)")
    add_direct(res, name, "frame", ok, where=f"{rel}",
               note="KDSubset(dataset, indices) returns normally under the installed torch's Subset.__init__ rule",
               detail="" if ok else f"{gi} overrides __getitem__, no class of the family defines __getitems__, "
                                    "and the installed torch raises NotImplementedError in that case",
               model=None if ok else {"construct": "KDSubset(range(3), [0])"})


def all_scale_strength_under_contract(res, contracts):
    """every `_scale_strength` / `scale_strength` definition shipped by the package is under a contract of C15
    (a newly added scaling transform without one makes this obligation fail -> undecided, never silently skipped)"""
    import glob
    have = {c["target"] for c in contracts}
    missing = []
    for path in sorted(glob.glob(os.path.join(REPO, "kappadata", "**", "*.py"), recursive=True)):
        rel = os.path.relpath(path, REPO)
        try:
            tree = ast.parse(open(path).read())
        except SyntaxError:
            continue
        for cd in [n for n in tree.body if isinstance(n, ast.ClassDef)]:
            for fn in cd.body:
                if isinstance(fn, ast.FunctionDef) and fn.name in ("_scale_strength", "scale_strength"):
                    if len(fn.body) == 1 and isinstance(fn.body[0], ast.Pass):
                        continue
                    if f"{rel}::{cd.name}.{fn.name}" not in have:
                        missing.append(f"{rel}::{cd.name}.{fn.name}")
    add_direct(res, "frame:every-scale-strength-under-contract", "frame", not missing, undecided=bool(missing),
               note="every scaling implementation of the package has a C15 contract", detail="; ".join(missing))


def bulk_accessor_defined_with_per_sample(res, classes, item="class"):
    """a wrapper that rewrites `getitem_<item>` must define `getall_<item>` itself: otherwise the bulk accessor is
    resolved through __getattr__ to the wrapped dataset and returns the labels the wrapper was meant to replace"""
    from .engine import Engine
    eng = Engine()
    for rel, cls in classes:
        clsid = f"{rel}::{cls}"
        name = f"{clsid}:frame:bulk-accessor-overridden-with-per-sample-accessor"
        try:
            mro = [c for c in eng.mro(clsid) if "::" in c]
        except KeyError as ex:
            add_direct(res, name, "frame", False, undecided=True, detail=f"class not found: {ex}")
            continue
        own = [c for c in mro if not c.endswith("::KDWrapper") and not c.endswith("::KDDataset")]
        has_item = any(class_defines(eng, c, f"getitem_{item}") == c for c in own)
        has_all = any(class_defines(eng, c, f"getall_{item}") == c for c in own)
        add_direct(res, name, "frame", (not has_item) or has_all, where=rel,
                   note=f"{cls}: getall_{item} is defined wherever getitem_{item} is rewritten",
                   detail="" if (not has_item or has_all) else
                   f"{cls} defines getitem_{item} but inherits getall_{item} from the wrapped dataset through __getattr__",
                   model=None if (not has_item or has_all) else {"class": cls})
