"""Frame / effect obligations decided on the AST of the real functions (back end name: frame-checker).
They are deductive and unbounded (they hold for every execution of the text that is read on this run) but are
not SMT proofs and are counted under their own back end."""
import ast
import os
from .engine import REPO, ModuleInfo
from .report import add_direct

_mods = {}


def module(rel):
    if rel not in _mods:
        _mods[rel] = ModuleInfo(rel)
    return _mods[rel]


def find_func(rel, cls, name):
    m = module(rel)
    if cls is None:
        return m, m.functions.get(name)
    cd = m.classes.get(cls)
    if cd is None:
        return m, None
    for n in cd.body:
        if isinstance(n, ast.FunctionDef) and n.name == name:
            return m, n
    return m, None


def rank_only_in_slice(res, rel, cls, fn, attrs):
    """the global draw is rank independent: self.<attr> may be read only inside a subscript slice (the rank split)
    or through len(self) / self.effective_length after the draw"""
    m, f = find_func(rel, cls, fn)
    name = f"{rel}::{cls}.{fn}:frame:rank-read-only-in-split"
    if f is None:
        add_direct(res, name, "frame", False, undecided=True, detail="function not found")
        return
    bad = []
    parents = {}
    for p in ast.walk(f):
        for c in ast.iter_child_nodes(p):
            parents[c] = p
    for n in ast.walk(f):
        if isinstance(n, ast.Attribute) and isinstance(n.value, ast.Name) and n.value.id == "self" and n.attr in attrs:
            q, ok = n, False
            while q in parents:
                q = parents[q]
                if isinstance(q, ast.Slice):
                    ok = True
                    break
            if not ok:
                bad.append(f"{rel}:{n.lineno} self.{n.attr}")
    add_direct(res, name, "frame", not bad, where=f"{rel}:{f.lineno}",
               note=f"self.{{{','.join(attrs)}}} is read only inside the rank-split slice, so the draw before it is the same on every rank",
               detail="; ".join(bad))


def class_defines(eng, clsid, name):
    """does a repo class in the MRO of clsid (before any library class) define `name`?"""
    for c in eng.mro(clsid):
        if "::" not in c:
            continue
        m, cd = eng.class_def(c)
        if any(isinstance(n, ast.FunctionDef) and n.name == name for n in cd.body):
            return c
    return None


def subset_constructible(res, rel="kappadata/datasets/kd_subset.py", cls="KDSubset"):
    """torch.utils.data.Subset.__init__ (installed version, read at run time) raises NotImplementedError when the
    subclass overrides __getitem__ without __getitems__: the KDSubset family must not fall under that rule"""
    from .engine import Engine
    import inspect
    name = f"{rel}::{cls}.__init__:constructible"
    try:
        import torch.utils.data as tud
        src = inspect.getsource(tud.Subset.__init__)
        rule = "__getitems__ is Subset.__getitems__" in src and "NotImplementedError" in src
    except Exception as ex:      # pragma: no cover
        add_direct(res, name, "frame", False, undecided=True, detail=f"cannot read torch Subset: {ex}")
        return
    eng = Engine()
    clsid = f"{rel}::{cls}"
    gi = class_defines(eng, clsid, "__getitem__")
    gis = class_defines(eng, clsid, "__getitems__")
    ok = (not rule) or gi is None or gis is not None
    res.trusted.add("lib:torch.utils.data.Subset.__init__ (rule read from the installed torch source at run time)")
    add_direct(res, name, "frame", ok, where=f"{rel}",
               note="KDSubset(dataset, indices) returns normally under the installed torch's Subset.__init__ rule",
               detail="" if ok else f"{gi} overrides __getitem__, no class of the family defines __getitems__, "
                                    "and the installed torch raises NotImplementedError in that case",
               model=None if ok else {"construct": "KDSubset(range(3), [0])"})


def all_scale_strength_under_contract(res, contracts):
    """every `_scale_strength` / `scale_strength` definition shipped by the package is under a contract of C15
    (a newly added scaling transform without one makes this obligation fail -> undecided, never silently skipped)"""
    import glob
    have = {c["target"] for c in contracts}
    missing = []
    for path in sorted(glob.glob(os.path.join(REPO, "kappadata", "**", "*.py"), recursive=True)):
        rel = os.path.relpath(path, REPO)
        try:
            tree = ast.parse(open(path).read())
        except SyntaxError:
            continue
        for cd in [n for n in tree.body if isinstance(n, ast.ClassDef)]:
            for fn in cd.body:
                if isinstance(fn, ast.FunctionDef) and fn.name in ("_scale_strength", "scale_strength"):
                    if len(fn.body) == 1 and isinstance(fn.body[0], ast.Pass):
                        continue
                    if f"{rel}::{cd.name}.{fn.name}" not in have:
                        missing.append(f"{rel}::{cd.name}.{fn.name}")
    add_direct(res, "frame:every-scale-strength-under-contract", "frame", not missing, undecided=bool(missing),
               note="every scaling implementation of the package has a C15 contract", detail="; ".join(missing))


def bulk_accessor_defined_with_per_sample(res, classes, item="class"):
    """a wrapper that rewrites `getitem_<item>` must define `getall_<item>` itself: otherwise the bulk accessor is
    resolved through __getattr__ to the wrapped dataset and returns the labels the wrapper was meant to replace"""
    from .engine import Engine
    eng = Engine()
    for rel, cls in classes:
        clsid = f"{rel}::{cls}"
        name = f"{clsid}:frame:bulk-accessor-overridden-with-per-sample-accessor"
        try:
            mro = [c for c in eng.mro(clsid) if "::" in c]
        except KeyError as ex:
            add_direct(res, name, "frame", False, undecided=True, detail=f"class not found: {ex}")
            continue
        own = [c for c in mro if not c.endswith("::KDWrapper") and not c.endswith("::KDDataset")]
        has_item = any(class_defines(eng, c, f"getitem_{item}") == c for c in own)
        has_all = any(class_defines(eng, c, f"getall_{item}") == c for c in own)
        add_direct(res, name, "frame", (not has_item) or has_all, where=rel,
                   note=f"{cls}: getall_{item} is defined wherever getitem_{item} is rewritten",
                   detail="" if (not has_item or has_all) else
                   f"{cls} defines getitem_{item} but inherits getall_{item} from the wrapped dataset through __getattr__",
                   model=None if (not has_item or has_all) else {"class": cls})


# ------------------------------------------------------------------------------------------------ C07 / C08 / C09
import glob as _glob

TRANSFORM_DIRS = ["kappadata/transforms", "kappadata/common/transforms", "kappadata/utils/magnitude_sampler.py"]
GLOBAL_SOURCES = ("np.random.", "numpy.random.", "random.", "torch.rand", "torch.randint", "torch.randperm", "torch.normal",
                  "torch.multinomial", "torch.bernoulli", "GlobalRng", "get_rng_from_global")


def repo_classes(dirs):
    """-> list of (relpath, ClassDef) for every class defined under the given repo directories / files"""
    out = []
    for d in dirs:
        paths = [os.path.join(REPO, d)] if d.endswith(".py") else sorted(_glob.glob(os.path.join(REPO, d, "**", "*.py"), recursive=True))
        for p in paths:
            rel = os.path.relpath(p, REPO)
            m = module(rel)
            for name, cd in m.classes.items():
                out.append((rel, cd))
    return out


def _is_transform_class(eng, clsid):
    try:
        return any(c.endswith("::KDTransform") for c in eng.mro(clsid))
    except Exception:
        return False


def _self_attr(node):
    return node.attr if isinstance(node, ast.Attribute) and isinstance(node.value, ast.Name) and node.value.id == "self" else None


def members_of(eng, clsid):
    """attributes that __init__ (own or inherited repo bases) binds to transforms: KD transform constructor calls,
    object_to_transform(...), constructor parameters named transform / transforms, and lists / comprehensions of those"""
    mem = {}
    for c in eng.mro(clsid):
        if "::" not in c:
            continue
        m, cd = eng.class_def(c)
        init = next((n for n in cd.body if isinstance(n, ast.FunctionDef) and n.name == "__init__"), None)
        if init is None:
            continue
        params = {a.arg for a in init.args.args + init.args.kwonlyargs}
        for n in ast.walk(init):
            if not isinstance(n, ast.Assign):
                continue
            for t in n.targets:
                a = _self_attr(t)
                if a is None:
                    continue
                kind = _transform_value(eng, m, n.value, params)
                if kind:
                    mem[a] = kind
    return mem


def _transform_value(eng, m, v, params):
    if isinstance(v, ast.Call):
        f = ast.unparse(v.func)
        if f.split(".")[-1] == "object_to_transform":
            return "object_to_transform"
        name = f.split(".")[-1]
        target = None
        if name in m.classes:
            target = f"{m.relpath}::{name}"
        elif name in m.imports and m.imports[name].startswith("kappadata"):
            r = eng.resolve_dotted(m.imports[name])
            if r and r[1] in r[0].classes:
                target = f"{r[0].relpath}::{r[1]}"
        if target and _is_transform_class(eng, target):
            return "ctor:" + target
        if name == "MagnitudeSampler":
            return None
    if isinstance(v, ast.Name) and v.id in params and v.id in ("transform", "transforms"):
        return "param"
    if isinstance(v, (ast.List, ast.Tuple)):
        ks = [_transform_value(eng, m, e, params) for e in v.elts]
        if ks and all(ks):
            return "list"
    if isinstance(v, ast.ListComp):
        k = _transform_value(eng, m, v.elt, params | {g.target.id for g in v.generators if isinstance(g.target, ast.Name)})
        if k:
            return "list:" + k
        if isinstance(v.elt, ast.Call) and ast.unparse(v.elt.func).split(".")[-1] == "object_to_transform":
            return "list:object_to_transform"
    return None


def set_rng_reach(eng, clsid):
    """-> (defining class of the resolved set_rng, set of member attribute names on which .set_rng is called inside it
    (directly or through a loop variable bound to self.<attr>), does it (or a super() chain) bind self.rng)"""
    r = eng.find_method(clsid, "set_rng")
    if r is None or r[0] != "repo":
        return None, set(), False
    fi, owner = r[1], r[2]
    reach, binds = set(), False
    loopvars = {}
    for n in ast.walk(fi.node):
        if isinstance(n, ast.For) and isinstance(n.target, ast.Name):
            a = _self_attr(n.iter)
            if a:
                loopvars[n.target.id] = a
    for n in ast.walk(fi.node):
        if isinstance(n, ast.Call) and isinstance(n.func, ast.Attribute) and n.func.attr == "set_rng":
            a = _self_attr(n.func.value)
            if a:
                reach.add(a)
            elif isinstance(n.func.value, ast.Name) and n.func.value.id in loopvars:
                reach.add(loopvars[n.func.value.id])
            elif isinstance(n.func.value, ast.Call) and ast.unparse(n.func.value.func) == "super":
                rr = eng.find_method(clsid, "set_rng", after=owner)
                if rr and rr[0] == "repo":
                    _, r2, b2 = set_rng_reach(eng, rr[2])
                    reach |= r2
                    binds = binds or b2
        if isinstance(n, ast.Assign) and any(_self_attr(t) == "rng" for t in n.targets):
            binds = True
    return owner, reach, binds


def owns_rng(eng, clsid):
    """does an __init__ in the MRO bind self.rng?"""
    for c in eng.mro(clsid):
        if "::" not in c:
            continue
        m, cd = eng.class_def(c)
        init = next((n for n in cd.body if isinstance(n, ast.FunctionDef) and n.name == "__init__"), None)
        if init and any(isinstance(n, ast.Assign) and any(_self_attr(t) == "rng" for t in n.targets) for n in ast.walk(init)):
            return True
    return False


def global_random_reads(cd, rel, skip=("__init__", "worker_init_fn", "_worker_init_fn")):
    """calls in the methods of a class that read a process-global random source (or torch draws without generator=)"""
    bad = []
    for fn in cd.body:
        if not isinstance(fn, ast.FunctionDef) or fn.name in skip:
            continue
        for n in ast.walk(fn):
            if not isinstance(n, ast.Call):
                continue
            f = ast.unparse(n.func)
            if f.startswith(("np.random.default_rng", "numpy.random.default_rng")):
                seeded = bool(n.args) or any(k.arg == "seed" for k in n.keywords)
                if not seeded:
                    bad.append(f"{rel}:{n.lineno} {f}() without a seed (OS entropy)")
                continue
            if f.startswith(("torch.rand", "torch.randint", "torch.randperm", "torch.normal", "torch.multinomial", "torch.bernoulli")):
                if not any(k.arg == "generator" for k in n.keywords):
                    bad.append(f"{rel}:{n.lineno} {f}(...) without generator=")
                continue
            if f.startswith(("np.random.", "numpy.random.")) or f in ("GlobalRng", "get_rng_from_global") or \
                    (f.startswith("random.") and f.split(".")[1] in ("random", "randint", "choice", "shuffle", "uniform", "sample", "gauss")):
                bad.append(f"{rel}:{n.lineno} {f}(...)")
    return bad


def _evidently_int_set(n):
    """set(range(..)) / {1, 2, 3} / set of int literals: iteration order is the same in every process"""
    if isinstance(n, ast.Set):
        return all(isinstance(e, ast.Constant) and isinstance(e.value, int) for e in n.elts)
    if isinstance(n, ast.Call) and ast.unparse(n.func) in ("set", "frozenset") and n.args:
        a = n.args[0]
        if isinstance(a, ast.Call) and ast.unparse(a.func) == "range":
            return True
        if isinstance(a, (ast.List, ast.Tuple)):
            return all(isinstance(e, ast.Constant) and isinstance(e.value, int) for e in a.elts)
    return False


def _is_set_expr(n):
    return isinstance(n, (ast.Set, ast.SetComp)) or (isinstance(n, ast.Call) and ast.unparse(n.func) in ("set", "frozenset"))


def process_dependent_sources(cd, rel):
    """values that differ between processes / instances although seed and inputs agree: the iteration order of a set of
    non-integers (address- or PYTHONHASHSEED-dependent hashes), id(), hash(), clocks, OS entropy"""
    bad = []
    for fn in cd.body:
        if not isinstance(fn, ast.FunctionDef):
            continue
        for n in ast.walk(fn):
            if isinstance(n, ast.Call):
                f = ast.unparse(n.func)
                if f in ("list", "tuple", "enumerate", "iter", "next") and n.args and _is_set_expr(n.args[0]) and not _evidently_int_set(n.args[0]):
                    bad.append(f"{rel}:{n.lineno} {f}(<set>) fixes an order that depends on object hashes")
                elif f in ("id", "hash") or f.startswith(("time.time", "time.perf_counter", "time.monotonic", "os.urandom", "uuid.", "secrets.", "datetime.datetime.now")):
                    bad.append(f"{rel}:{n.lineno} {f}(...)")
            elif isinstance(n, (ast.For, ast.comprehension)) and _is_set_expr(n.iter) and not _evidently_int_set(n.iter):
                bad.append(f"{rel}:{n.lineno} iteration over a set (order depends on object hashes)")
    return bad


def transform_table(eng=None):
    from .engine import Engine
    eng = eng or Engine()
    rows = []
    for rel, cd in repo_classes(TRANSFORM_DIRS):
        clsid = f"{rel}::{cd.name}"
        if not _is_transform_class(eng, clsid) and cd.name != "MagnitudeSampler":
            continue
        mem = members_of(eng, clsid) if cd.name != "MagnitudeSampler" else {}
        owner, reach, binds = set_rng_reach(eng, clsid) if cd.name != "MagnitudeSampler" else (None, set(), False)
        rows.append({"class": clsid, "members": mem, "set_rng_owner": owner, "reach": sorted(reach), "binds_rng": binds,
                     "owns_rng": owns_rng(eng, clsid) if cd.name != "MagnitudeSampler" else False,
                     "global_reads": global_random_reads(cd, rel)})
    return rows


def stochastic_capable(eng, clsid, seen=()):
    """can an instance of this transform class draw random numbers? (owns a generator, or has a member that can)"""
    if clsid in seen:
        return False
    if owns_rng(eng, clsid):
        return True
    for a, kind in members_of(eng, clsid).items():
        if kind.startswith("ctor:"):
            if stochastic_capable(eng, kind[5:], seen + (clsid,)):
                return True
        else:
            return True       # a transform handed in from outside may be anything
    return False


def c07_obligations(res):
    """frame obligations of C07 for every transform class discovered under TRANSFORM_DIRS on this run"""
    from .engine import Engine
    eng = Engine()
    n_classes = 0
    for rel, cd in repo_classes(TRANSFORM_DIRS):
        clsid = f"{rel}::{cd.name}"
        try:
            is_t = _is_transform_class(eng, clsid)
        except Exception:
            is_t = False
        if not is_t:
            continue
        n_classes += 1
        mem = members_of(eng, clsid)
        need = {a for a, kind in mem.items() if not kind.startswith("ctor:") or stochastic_capable(eng, kind[5:])}
        owner, reach, binds = set_rng_reach(eng, clsid)
        missing = sorted(need - reach)
        add_direct(res, f"{clsid}:frame:set_rng-reaches-every-stochastic-member", "frame", not missing, where=rel,
                   note=f"{cd.name}.set_rng (resolved to {owner.split('::')[-1] if owner else '?'}) forwards the injected generator to every "
                        f"member that can draw: {sorted(need) or 'none'}",
                   detail="" if not missing else f"members not reached by set_rng: {missing}", model={"class": cd.name, "members": missing} if missing else None)
        if owns_rng(eng, clsid):
            add_direct(res, f"{clsid}:frame:set_rng-rebinds-own-generator", "frame", binds, where=rel,
                       note=f"{cd.name} owns self.rng and its set_rng (or a super() chain) rebinds it",
                       detail="" if binds else "self.rng is created in __init__ but set_rng never assigns it")
        bad = global_random_reads(cd, rel)
        add_direct(res, f"{clsid}:frame:no-global-random-source", "frame", not bad, where=rel,
                   note=f"{cd.name}: no method outside __init__/worker hooks reads a process-global random source",
                   detail="; ".join(bad), model={"reads": bad} if bad else None)
        bad = process_dependent_sources(cd, rel)
        add_direct(res, f"{clsid}:frame:no-process-dependent-source", "frame", not bad, where=rel,
                   note=f"{cd.name}: no method derives a value or an order from object hashes / addresses, clocks or OS entropy",
                   detail="; ".join(bad), model={"reads": bad} if bad else None)
    if n_classes == 0:
        res.errors.append("no transform class discovered")
    return n_classes


def seed_presence_by_identity(res, files):
    """C08: a seed of 0 is a seed - the presence of a seed must be tested with `is (not) None`, never by truthiness"""
    def truthy_uses(test):
        out = []
        if isinstance(test, ast.Attribute) and test.attr == "seed" or isinstance(test, ast.Name) and test.id == "seed":
            out.append(test)
        elif isinstance(test, ast.BoolOp):
            for v in test.values:
                out += truthy_uses(v)
        elif isinstance(test, ast.UnaryOp) and isinstance(test.op, ast.Not):
            out += truthy_uses(test.operand)
        return out
    n = 0
    for rel in files:
        try:
            tree = ast.parse(open(os.path.join(REPO, rel)).read())
        except (OSError, SyntaxError):
            continue
        bad = []
        for node in ast.walk(tree):
            tests = []
            if isinstance(node, (ast.If, ast.IfExp, ast.While, ast.Assert)):
                tests.append(node.test)
            elif isinstance(node, ast.BoolOp):
                tests.append(node)
            elif isinstance(node, ast.comprehension):
                tests += node.ifs
            for t in tests:
                for u in truthy_uses(t):
                    bad.append(f"{rel}:{u.lineno} truthiness of {ast.unparse(u)}")
        if "seed" in open(os.path.join(REPO, rel)).read():
            n += 1
            add_direct(res, f"{rel}:frame:seed-presence-tested-by-identity", "frame", not bad, where=rel,
                       note="`seed is (not) None` decides whether a wrapper is seeded; seed == 0 is a seed like any other",
                       detail="; ".join(sorted(set(bad))), model={"uses": sorted(set(bad))} if bad else None)
    return n


# ------------------------------------------------------------------------------------------------ generic definedness
import builtins as _builtins


def _bound_in(fn):
    names = set()
    a = fn.args
    for p in a.posonlyargs + a.args + a.kwonlyargs:
        names.add(p.arg)
    if a.vararg: names.add(a.vararg.arg)
    if a.kwarg: names.add(a.kwarg.arg)
    for n in ast.walk(fn):
        if isinstance(n, ast.Name) and isinstance(n.ctx, (ast.Store, ast.Del)):
            names.add(n.id)
        elif isinstance(n, (ast.FunctionDef, ast.ClassDef)) and n is not fn:
            names.add(n.name)
        elif isinstance(n, (ast.Import, ast.ImportFrom)):
            for al in n.names:
                names.add((al.asname or al.name).split(".")[0])
        elif isinstance(n, ast.ExceptHandler) and n.name:
            names.add(n.name)
        elif isinstance(n, (ast.Global, ast.Nonlocal)):
            names.update(n.names)
    return names


def undefined_names(res, files, tag):
    """every name read in a function of the given files is bound on some path: parameter, local, enclosing function,
    module level, or builtin. (Reads of names that are bound nowhere at all - the `math` / `classes` / `transform` kind.)"""
    bad = []
    nfun = 0
    for rel in files:
        path = os.path.join(REPO, rel)
        if not os.path.exists(path):
            continue
        tree = ast.parse(open(path).read())
        mod_names = set(dir(_builtins)) | {"__name__", "__file__", "__class__"}
        for n in tree.body:
            if isinstance(n, (ast.Import, ast.ImportFrom)):
                for al in n.names:
                    mod_names.add((al.asname or al.name).split(".")[0])
            elif isinstance(n, (ast.FunctionDef, ast.ClassDef)):
                mod_names.add(n.name)
            else:
                for x in ast.walk(n):
                    if isinstance(x, ast.Name) and isinstance(x.ctx, ast.Store):
                        mod_names.add(x.id)
        if any(isinstance(n, ast.ImportFrom) and any(al.name == "*" for al in n.names) for n in tree.body):
            continue       # star imports: module namespace unknown

        def visit(fn, outer):
            nonlocal nfun
            nfun += 1
            bound = outer | _bound_in(fn)

            def scan(node, extra):
                for ch in ast.iter_child_nodes(node):
                    if isinstance(ch, (ast.FunctionDef, ast.AsyncFunctionDef, ast.ClassDef)):
                        # default values / decorators are evaluated in this scope, the body in its own (visited separately)
                        if not isinstance(ch, ast.ClassDef):
                            for d in ch.args.defaults + [k for k in ch.args.kw_defaults if k is not None]:
                                scan_expr(d, extra)
                        continue
                    if isinstance(ch, ast.Lambda):
                        la = {p.arg for p in ch.args.posonlyargs + ch.args.args + ch.args.kwonlyargs}
                        if ch.args.vararg: la.add(ch.args.vararg.arg)
                        if ch.args.kwarg: la.add(ch.args.kwarg.arg)
                        scan(ch, extra | la)
                        continue
                    if isinstance(ch, ast.Name) and isinstance(ch.ctx, ast.Load) and ch.id not in bound and ch.id not in extra:
                        bad.append(f"{rel}:{ch.lineno} '{ch.id}' in {fn.name}")
                    scan(ch, extra)

            def scan_expr(e, extra):
                if isinstance(e, ast.Name) and isinstance(e.ctx, ast.Load) and e.id not in bound and e.id not in extra:
                    bad.append(f"{rel}:{e.lineno} '{e.id}' in {fn.name}")
                scan(e, extra)
            for stmt in fn.body:
                scan_expr(stmt, set())

        def walk(node, outer, in_class):
            for ch in ast.iter_child_nodes(node):
                if isinstance(ch, ast.FunctionDef):
                    visit(ch, outer)
                    walk(ch, outer | _bound_in(ch), False)
                elif isinstance(ch, ast.ClassDef):
                    walk(ch, outer, True)
                else:
                    walk(ch, outer, in_class)
        walk(tree, mod_names, False)
    add_direct(res, f"frame:{tag}:every-name-read-is-bound", "frame", not bad, note=f"{nfun} functions in {len(files)} files: no read of a name that is bound nowhere",
               detail="; ".join(sorted(set(bad))[:12]), model={"unbound": sorted(set(bad))[:12]} if bad else None)


INPLACE = ("mul_", "add_", "sub_", "div_", "clamp_", "copy_", "fill_", "zero_", "neg_", "abs_", "pow_", "sqrt_", "exp_", "log_",
           "masked_fill_", "index_add_", "index_copy_", "scatter_", "clip_", "round_", "floor_", "ceil_", "sigmoid_", "tanh_", "relu_")
COPYING = ("clone", "copy", "detach", "float", "double", "long", "to", "numpy", "tolist")


def no_inplace_on_dataset_values(res, files):
    """a value obtained from self.dataset.getitem_*/getall_* is dataset-owned (an in-memory dataset hands out its own tensor):
    no in-place tensor method, augmented assignment or item assignment on it unless it was copied first"""
    bad = []
    nfun = 0
    for rel in files:
        path = os.path.join(REPO, rel)
        if not os.path.exists(path):
            continue
        tree = ast.parse(open(path).read())
        for fn in [n for n in ast.walk(tree) if isinstance(n, ast.FunctionDef)]:
            nfun += 1
            owned = set()
            for st in ast.walk(fn):
                if isinstance(st, ast.Assign) and isinstance(st.value, ast.Call):
                    f = ast.unparse(st.value.func)
                    if f.startswith("self.dataset.getitem_") or f.startswith("self.dataset.getall_"):
                        for t in st.targets:
                            for x in ast.walk(t):
                                if isinstance(x, ast.Name):
                                    owned.add(x.id)
            # a later plain re-assignment from a copying expression releases the name (flow-insensitive approximation: only
            # names that are never re-bound from a copy stay owned)
            for st in ast.walk(fn):
                if isinstance(st, ast.Assign) and len(st.targets) == 1 and isinstance(st.targets[0], ast.Name) and st.targets[0].id in owned:
                    v = st.value
                    if isinstance(v, ast.Call) and isinstance(v.func, ast.Attribute) and v.func.attr in ("clone",) and \
                            isinstance(v.func.value, ast.Name) and v.func.value.id == st.targets[0].id:
                        owned.discard(st.targets[0].id)
            for x in ast.walk(fn):
                if isinstance(x, ast.Call) and isinstance(x.func, ast.Attribute) and x.func.attr in INPLACE:
                    base = x.func.value
                    while isinstance(base, ast.Call) and isinstance(base.func, ast.Attribute) and base.func.attr in INPLACE:
                        base = base.func.value
                    if isinstance(base, ast.Name) and base.id in owned:
                        bad.append(f"{rel}:{x.lineno} {base.id}.{x.func.attr}(...) in {fn.name}")
                elif isinstance(x, ast.AugAssign) and isinstance(x.target, ast.Name) and x.target.id in owned:
                    bad.append(f"{rel}:{x.lineno} {x.target.id} {type(x.op).__name__}= ... in {fn.name}")
                elif isinstance(x, ast.Assign):
                    for t in x.targets:
                        if isinstance(t, ast.Subscript) and isinstance(t.value, ast.Name) and t.value.id in owned:
                            bad.append(f"{rel}:{x.lineno} {t.value.id}[...] = ... in {fn.name}")
    add_direct(res, "frame:no-in-place-write-to-dataset-owned-values", "frame", not bad,
               note=f"{nfun} functions: values returned by the wrapped dataset are never modified in place",
               detail="; ".join(bad[:10]), model={"writes": bad[:10]} if bad else None)


WRAPPER_DIRS = ["kappadata/wrappers/sample_wrappers", "kappadata/common/wrappers/sample_wrappers"]


def c09_wrapper_hooks(res):
    """every sample wrapper that owns transforms (binds them in __init__) has a _worker_init_fn of its own (the KDWrapper
    default does nothing) that calls a hook on those attributes"""
    from .engine import Engine
    eng = Engine()
    n = 0
    for rel, cd in repo_classes(WRAPPER_DIRS):
        clsid = f"{rel}::{cd.name}"
        try:
            mro = eng.mro(clsid)
        except Exception:
            continue
        if not any(c.endswith("::KDWrapper") for c in mro):
            continue
        mem = members_of(eng, clsid)
        # attributes holding transforms incl. config lists (KDMultiViewWrapper.transform_configs)
        init = next((x for x in cd.body if isinstance(x, ast.FunctionDef) and x.name == "__init__"), None)
        if init is not None and not mem:
            for x in ast.walk(init):
                if isinstance(x, ast.Assign) and any(_self_attr(t) and "transform" in _self_attr(t) for t in x.targets):
                    for t in x.targets:
                        if _self_attr(t):
                            mem[_self_attr(t)] = "attr"
        if not mem:
            continue
        n += 1
        r = eng.find_method(clsid, "_worker_init_fn")
        owner = r[2] if r else None
        own_hook = r is not None and r[0] == "repo" and not owner.endswith("::KDWrapper")
        reached = set()
        if own_hook:
            fn = r[1].node
            for x in ast.walk(fn):
                a = _self_attr(x)
                if a:
                    reached.add(a)
        lists = {a for a in mem}
        # self.X = [self.a, self.b, ...] built from member attributes: touching X reaches those members
        if init is not None:
            for x in ast.walk(init):
                if isinstance(x, ast.Assign) and isinstance(x.value, (ast.List, ast.Tuple)) and x.value.elts and \
                        all(_self_attr(e) in mem for e in x.value.elts):
                    for t in x.targets:
                        if _self_attr(t) and _self_attr(t) in reached:
                            reached |= {_self_attr(e) for e in x.value.elts}
        ok = own_hook and bool(reached & lists)
        add_direct(res, f"{clsid}:frame:worker-hook-reaches-owned-transforms", "frame", ok, where=rel,
                   note=f"{cd.name} owns {sorted(mem)}; its _worker_init_fn must re-seed them in every dataloader worker",
                   detail="" if ok else (f"{cd.name} inherits the empty KDWrapper._worker_init_fn" if not own_hook else
                                         f"_worker_init_fn never touches {sorted(lists)}"),
                   model=None if ok else {"class": cd.name, "owned": sorted(mem)})
    return n


def per_sample_indices_agree(res, rel="kappadata/collators/kd_mix_collator.py", cls="KDMixCollator", fn="collate",
                             arrays=("use_cutmix", "bbox", "lamb")):
    """in the per-sample loop of the mix collator the index that selects the operation / box is the index that selects the
    weight (sample i's image must be mixed with the weight its label row i is mixed with)"""
    m, f = find_func(rel, cls, fn)
    name = f"{rel}::{cls}.{fn}:frame:per-sample-selectors-use-one-index"
    if f is None:
        add_direct(res, name, "frame", False, undecided=True, detail="function not found")
        return
    bad, seen = [], 0
    for loop in [n for n in ast.walk(f) if isinstance(n, ast.For) and isinstance(n.target, ast.Name)]:
        var = loop.target.id
        for n in ast.walk(loop):
            if isinstance(n, ast.Subscript) and isinstance(n.value, ast.Name) and n.value.id in arrays and isinstance(n.ctx, ast.Load):
                seen += 1
                idx = ast.unparse(n.slice)
                if idx != var:
                    bad.append(f"{rel}:{n.lineno} {n.value.id}[{idx}] (loop variable is {var})")
    add_direct(res, name, "frame", not bad and seen > 0, undecided=(seen == 0), where=f"{rel}:{f.lineno}",
               note="use_cutmix / bbox / lamb are all subscripted with the loop variable of the per-sample loop",
               detail="; ".join(bad) if bad else ("" if seen else "no per-sample loop found"), model={"sites": bad} if bad else None)


def mix_wrapper_single_draw(res, rel="kappadata/wrappers/sample_wrappers/kd_mix_wrapper.py", cls="KDMixWrapper"):
    """image-only and label-only accessors are projections of the joint accessor, whose only random source is a generator
    keyed by seed + idx (so the three requests describe the same draw)"""
    m, gx = find_func(rel, cls, "getitem_x")
    _, gc = find_func(rel, cls, "getitem_class")
    _, gxc = find_func(rel, cls, "getitem_xclass")
    name = f"{rel}::{cls}:frame:accessors-share-one-seeded-draw"
    if not (gx and gc and gxc):
        add_direct(res, name, "frame", False, undecided=True, detail="accessor not found")
        return
    bad = []
    for f, k in ((gx, 0), (gc, 1)):
        src = ast.unparse(f.body[-1]) if f.body else ""
        if "self.getitem_xclass(idx" not in src or not src.rstrip().endswith(f"[{k}]"):
            bad.append(f"{f.name} is not `self.getitem_xclass(idx, ...)[{k}]`")
    keyed = False
    for n in ast.walk(gxc):
        if isinstance(n, ast.Call) and ast.unparse(n.func).endswith("default_rng"):
            arg = ast.unparse(n)
            keyed = "self.seed + idx" in arg
    if not keyed:
        bad.append("getitem_xclass does not create its generator from self.seed + idx")
    bad += global_random_reads(m.classes[cls], rel)
    add_direct(res, name, "frame", not bad, where=rel, note="getitem_x / getitem_class project getitem_xclass; its generator is default_rng(seed + idx)",
               detail="; ".join(bad), model={"sites": bad} if bad else None)


# ------------------------------------------------------------------------------------------------ C14: einops patterns
def _rearrange_patterns(rel):
    """(class, pattern string) for every einops.rearrange call in a file"""
    tree = ast.parse(open(os.path.join(REPO, rel)).read())
    out = []
    for cd in [n for n in tree.body if isinstance(n, ast.ClassDef)]:
        for n in ast.walk(cd):
            if isinstance(n, ast.Call) and ast.unparse(n.func).endswith("rearrange"):
                pat = None
                for a in list(n.args) + [k.value for k in n.keywords if k.arg == "pattern"]:
                    if isinstance(a, ast.Constant) and isinstance(a.value, str) and "->" in a.value:
                        pat = a.value
                out.append((cd.name, pat, n))
    return out


def _norm_pattern(side):
    return " ".join(side.replace("(", " ( ").replace(")", " ) ").split())


def patchify_patterns_mirror(res):
    """Patchify*/Unpatchify*: the two einops patterns are each other's mirror image (A -> B vs B -> A) and the grid sizes
    the forward transform records are the ones the inverse reads; einops.rearrange with mirrored patterns and equal axis
    sizes are mutually inverse bijections on index space (assumed contract of einops)"""
    pairs = [("kappadata/transforms/patchify_image.py", "kappadata/transforms/unpatchify_image.py"),
             ("kappadata/transforms/patchify.py", "kappadata/transforms/unpatchify.py")]
    for fwd, inv in pairs:
        try:
            pf, pi = _rearrange_patterns(fwd), _rearrange_patterns(inv)
        except (OSError, SyntaxError) as ex:
            add_direct(res, f"{fwd}:frame:rearrange-patterns-mirrored", "frame", False, where=fwd, detail=str(ex))
            continue
        ok = len(pf) == 1 and len(pi) == 1 and pf[0][1] is not None and pi[0][1] is not None
        detail = ""
        if ok:
            a, b = [_norm_pattern(x) for x in pf[0][1].split("->")]
            c, d = [_norm_pattern(x) for x in pi[0][1].split("->")]
            ok = (a, b) == (d, c)
            detail = "" if ok else f"forward '{pf[0][1]}' vs inverse '{pi[0][1]}'"
        else:
            detail = f"expected exactly one literal rearrange pattern per file, found {[p[1] for p in pf]} / {[p[1] for p in pi]}"
        add_direct(res, f"{fwd}:frame:rearrange-patterns-mirrored", "frame", ok, where=fwd, detail=detail,
                   note="the inverse's einops pattern is the forward pattern with both sides exchanged",
                   model={"forward": pf[0][1] if pf else None, "inverse": pi[0][1] if pi else None} if not ok else None)
        if ok:
            # axis sizes: keyword arguments of the inverse must be read from the ctx keys the forward call wrote with the same axis value
            fcall, icall = pf[0][2], pi[0][2]
            fkw = {k.arg: ast.unparse(k.value) for k in fcall.keywords if k.arg not in ("pattern", "tensor")}
            ikw = {k.arg: ast.unparse(k.value) for k in icall.keywords if k.arg not in ("pattern", "tensor")}
            src = open(os.path.join(REPO, fwd)).read()
            written = {}       # ctx key -> expression stored
            for n in ast.walk(ast.parse(src)):
                if isinstance(n, ast.Assign) and isinstance(n.targets[0], ast.Subscript) and ast.unparse(n.targets[0].value) == "ctx" \
                        and isinstance(n.targets[0].slice, ast.Constant):
                    written[n.targets[0].slice.value] = ast.unparse(n.value)
            bad = []
            for axis, expr in ikw.items():
                key = None
                try:
                    e = ast.parse(expr, mode="eval").body
                    if isinstance(e, ast.Subscript) and ast.unparse(e.value) == "ctx" and isinstance(e.slice, ast.Constant):
                        key = e.slice.value
                except SyntaxError:
                    pass
                if key is None or key not in written or written[key] != fkw.get(axis):
                    bad.append(f"axis {axis}: inverse reads {expr}, forward binds {axis}={fkw.get(axis)} and records {written}")
            add_direct(res, f"{fwd}:frame:inverse-reads-recorded-grid", "frame", not bad, where=inv, detail="; ".join(bad),
                       note="every axis size the inverse passes to einops is the ctx entry in which the forward call stored that axis' size",
                       model={"mismatch": bad} if bad else None)


# ------------------------------------------------------------------------------------------------ C17: step-keyed block sizes
def ijepa_sizes_keyed_by_step(res):
    """block sizes depend only on the collator's step counter: in collate the generator handed to _sample_block_size is
    torch.Generator().manual_seed(seed) with seed = self.step(), and _sample_block_size reads no other random source"""
    rel = "kappadata/collators/kd_ijepa_mask_collator.py"
    try:
        tree = ast.parse(open(os.path.join(REPO, rel)).read())
        cd = [n for n in tree.body if isinstance(n, ast.ClassDef) and n.name == "KDIjepaMaskCollator"][0]
        fns = {f.name: f for f in cd.body if isinstance(f, ast.FunctionDef)}
        col, sz = fns["collate"], fns["_sample_block_size"]
    except (OSError, SyntaxError, IndexError, KeyError) as ex:
        add_direct(res, f"{rel}:frame:block-sizes-keyed-by-step-counter", "frame", False, where=rel, detail=f"structure not found: {ex}")
        return
    bad = []
    assigns = {}
    for n in ast.walk(col):
        if isinstance(n, ast.Assign) and len(n.targets) == 1 and isinstance(n.targets[0], ast.Name):
            assigns.setdefault(n.targets[0].id, []).append(ast.unparse(n.value))
    if assigns.get("seed") != ["self.step()"]:
        bad.append(f"seed is assigned {assigns.get('seed')}, expected exactly self.step()")
    if assigns.get("generator") != ["torch.Generator().manual_seed(seed)"]:
        bad.append(f"generator is assigned {assigns.get('generator')}, expected exactly torch.Generator().manual_seed(seed)")
    ncalls = 0
    for n in ast.walk(col):
        if isinstance(n, ast.Call) and ast.unparse(n.func) == "self._sample_block_size":
            ncalls += 1
            g = [ast.unparse(k.value) for k in n.keywords if k.arg == "generator"] + [ast.unparse(a) for a in n.args[:1]]
            if g[:1] != ["generator"]:
                bad.append(f"line {n.lineno}: _sample_block_size is not given the step-seeded generator")
            for k in n.keywords:
                if k.arg != "generator":
                    for m in ast.walk(k.value):
                        if isinstance(m, ast.Attribute) and m.attr == "rng" or isinstance(m, ast.Call):
                            bad.append(f"line {n.lineno}: argument {k.arg} is not a configuration value")
    if ncalls == 0:
        bad.append("collate never calls _sample_block_size")
    for n in ast.walk(sz):
        if isinstance(n, ast.Attribute) and n.attr == "rng":
            bad.append(f"line {n.lineno}: _sample_block_size reads self.rng")
        if isinstance(n, ast.Call):
            f = ast.unparse(n.func)
            if f in ("torch.rand", "torch.randn", "torch.randint", "torch.randperm", "torch.normal", "torch.multinomial") and \
                    [ast.unparse(k.value) for k in n.keywords if k.arg == "generator"] != ["generator"]:
                bad.append(f"line {n.lineno}: {f} without the step-seeded generator")
            if f.startswith(("np.random", "numpy.random", "random.")) or f in ("id", "hash") or f.startswith("time."):
                bad.append(f"line {n.lineno}: {f} is not a function of the step counter")
    step = fns.get("step")
    reads = sorted({ast.unparse(n) for n in ast.walk(step) if isinstance(n, ast.Attribute) and isinstance(n.value, ast.Name) and n.value.id == "self"}) if step else []
    if reads != ["self._itr_counter"]:
        bad.append(f"step() reads {reads}, expected only the shared counter")
    add_direct(res, f"{rel}:frame:block-sizes-keyed-by-step-counter", "frame", not bad, where=rel, detail="; ".join(bad),
               note="the only random input of _sample_block_size is a generator seeded with self.step(); everything else it reads is configuration",
               model={"problems": bad} if bad else None)


# ------------------------------------------------------------------------------------------------ C14: context entries are not aliases of instance state
_MUTATORS = {"shuffle", "sort", "append", "extend", "insert", "pop", "remove", "clear", "fill", "fill_", "mul_", "add_", "sub_", "div_", "copy_",
             "zero_", "clamp_", "update", "setdefault", "resize_", "put", "itemset"}


def ctx_entries_not_aliases(res, dirs=None):
    """what a transform records in the context must keep telling the truth after the transform is applied again: a value stored in
    ctx[...] may not be (an alias of) an attribute of the instance that some method mutates in place"""
    n = 0
    for rel, cd in repo_classes(dirs or TRANSFORM_DIRS):
        mutated = set()        # attributes of self mutated in place somewhere in the class
        for node in ast.walk(cd):
            if isinstance(node, (ast.Assign, ast.AugAssign)):
                targets = node.targets if isinstance(node, ast.Assign) else [node.target]
                for t in targets:
                    if isinstance(t, ast.Subscript) and isinstance(t.value, ast.Attribute) and isinstance(t.value.value, ast.Name) and t.value.value.id == "self":
                        mutated.add(t.value.attr)
                if isinstance(node, ast.AugAssign) and isinstance(node.target, ast.Attribute) and isinstance(node.target.value, ast.Name) \
                        and node.target.value.id == "self":
                    pass            # rebinding of immutable values (counters) is not an in-place mutation of a recorded object
            if isinstance(node, ast.Call) and isinstance(node.func, ast.Attribute) and node.func.attr in _MUTATORS:
                recv = node.func.value
                if isinstance(recv, ast.Attribute) and isinstance(recv.value, ast.Name) and recv.value.id == "self":
                    mutated.add(recv.attr)                                   # self.A.shuffle() / self.A.mul_()
                for a in node.args:                                          # rng.shuffle(self.A)
                    if isinstance(a, ast.Attribute) and isinstance(a.value, ast.Name) and a.value.id == "self" and node.func.attr == "shuffle":
                        mutated.add(a.attr)
        bad = []
        stores = 0
        for fn in [f for f in cd.body if isinstance(f, ast.FunctionDef)]:
            alias = {}          # local name -> attribute of self it was bound to
            for node in ast.walk(fn):
                if isinstance(node, ast.Assign) and len(node.targets) == 1 and isinstance(node.targets[0], ast.Name) and \
                        isinstance(node.value, ast.Attribute) and isinstance(node.value.value, ast.Name) and node.value.value.id == "self":
                    alias[node.targets[0].id] = node.value.attr
            for node in ast.walk(fn):
                if isinstance(node, ast.Assign) and any(isinstance(t, ast.Subscript) and ast.unparse(t.value) == "ctx" for t in node.targets):
                    stores += 1
                    vals = [node.value] + ([k.value for k in node.value.keywords] if isinstance(node.value, ast.Call) and ast.unparse(node.value.func) == "dict" else [])
                    for v in vals:
                        attr = None
                        if isinstance(v, ast.Attribute) and isinstance(v.value, ast.Name) and v.value.id == "self":
                            attr = v.attr
                        elif isinstance(v, ast.Name) and v.id in alias:
                            attr = alias[v.id]
                        if attr is not None and attr in mutated:
                            bad.append(f"{rel}:{node.lineno} ctx entry is self.{attr}, which the class mutates in place")
        if stores:
            n += 1
            add_direct(res, f"{rel}::{cd.name}:frame:ctx-entries-are-not-aliases-of-mutated-state", "frame", not bad, where=rel, detail="; ".join(bad),
                       note=f"{cd.name}: no recorded context value is an attribute of the instance that is mutated in place",
                       model={"aliases": bad} if bad else None)
    return n


def no_process_dependent_sources(res, dirs, what):
    """every class under `dirs`: no value or order derived from object hashes / addresses, clocks or OS entropy (ranks and
    processes that agree on seed and epoch must agree on the draw)"""
    n = 0
    for rel, cd in repo_classes(dirs):
        bad = process_dependent_sources(cd, rel)
        n += 1
        add_direct(res, f"{rel}::{cd.name}:frame:no-process-dependent-source", "frame", not bad, where=rel, detail="; ".join(bad),
                   note=f"{cd.name} ({what}): no hash() / id() / set order / clock / OS entropy in any method", model={"reads": bad} if bad else None)
    return n


def process_group_queries_not_memoised(res):
    """get_rank / get_world_size / is_distributed answer for the process group of the moment: a memoised answer taken before
    init_process_group (or in another process) gives samplers a rank and a world size that do not belong together"""
    rel = "kappadata/utils/distributed.py"
    try:
        tree = ast.parse(open(os.path.join(REPO, rel)).read())
    except (OSError, SyntaxError) as ex:
        add_direct(res, f"{rel}:frame:process-group-queries-not-memoised", "frame", False, where=rel, detail=str(ex))
        return
    bad = []
    module_state = {t.id for n in tree.body if isinstance(n, ast.Assign) for t in n.targets if isinstance(t, ast.Name)}
    for fn in [n for n in ast.walk(tree) if isinstance(n, ast.FunctionDef)]:
        for d in fn.decorator_list:
            if "cache" in ast.unparse(d).lower():
                bad.append(f"{rel}:{fn.lineno} {fn.name} is decorated with {ast.unparse(d)}")
        for n in ast.walk(fn):
            if isinstance(n, ast.Global):
                bad.append(f"{rel}:{n.lineno} {fn.name} keeps its answer in module state ({', '.join(n.names)})")
    add_direct(res, f"{rel}:frame:process-group-queries-not-memoised", "frame", not bad, where=rel, detail="; ".join(bad),
               note="every query function asks torch.distributed anew", model={"memoised": bad} if bad else None)
