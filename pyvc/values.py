"""Value and type model of the pyvc symbolic executor.

Types (T*) describe how to create a fresh symbolic value; values (V*) are what expressions evaluate to.
All z3 terms are immutable; mutable Python objects (lists, instances) live in the State's heap and are
referred to through VRef.
"""
import itertools
import z3

_counter = itertools.count()


def uid(prefix):
    return f"{prefix}!{next(_counter)}"


def reset_uids():
    global _counter
    _counter = itertools.count()


# ----------------------------------------------------------------------------- types
class T:
    pass


class TInt(T):
    def __repr__(self): return "int"


class TBool(T):
    def __repr__(self): return "bool"


class TReal(T):
    def __repr__(self): return "float"


class TVal(T):
    """opaque value (a sample, a tensor we do not look into); only equality is interpreted"""
    def __repr__(self): return "val"


class TStr(T):
    """symbolic string: only equality is interpreted (encoded as an integer id)"""
    def __repr__(self): return "str"


class TNone(T):
    def __repr__(self): return "None"


class TOpt(T):
    def __init__(self, inner): self.inner = inner
    def __repr__(self): return f"Optional[{self.inner!r}]"


class TSeq(T):
    """immutable-payload sequence (list / tuple / 1-D tensor) of symbolic length"""
    def __init__(self, elem, mutable=True, kind=None): self.elem = elem; self.mutable = mutable; self.kind = kind
    def __repr__(self): return f"Seq[{self.elem!r}]"


class TTuple(T):
    def __init__(self, elems): self.elems = list(elems)
    def __repr__(self): return f"Tuple{self.elems!r}"


class TRec(T):
    """immutable record (attribute bag). fields: name -> T"""
    def __init__(self, name, fields): self.name = name; self.fields = dict(fields)
    def __repr__(self): return f"Rec<{self.name}>"


class TObj(T):
    """mutable heap object with the given field types; cls is the repo class name used for method lookup"""
    def __init__(self, cls, fields): self.cls = cls; self.fields = dict(fields)
    def __repr__(self): return f"Obj<{self.cls}>"


class TDict(T):
    """a fresh, empty-or-unknown dict (ctx): modelled as an empty dict whose previous content is irrelevant"""
    def __repr__(self): return "dict"


class TAbs(T):
    """abstract library/domain object: factory(name, idx) -> VAbs"""
    def __init__(self, factory, label): self.factory = factory; self.label = label
    def __repr__(self): return f"Abs<{self.label}>"


INT, BOOL, REAL, VAL, STR, NONE = TInt(), TBool(), TReal(), TVal(), TStr(), TNone()
ValSort = z3.DeclareSort("Val")


# ----------------------------------------------------------------------------- values
class V:
    pass


class VInt(V):
    def __init__(self, t): self.t = z3.IntVal(t) if isinstance(t, int) else t
    def __repr__(self): return f"VInt({self.t})"


class VBool(V):
    def __init__(self, t): self.t = z3.BoolVal(t) if isinstance(t, bool) else t
    def __repr__(self): return f"VBool({self.t})"


class VReal(V):
    def __init__(self, t):
        if isinstance(t, (int, float)):
            t = z3.RealVal(repr(t) if isinstance(t, float) else t)
        self.t = t
    def __repr__(self): return f"VReal({self.t})"


class VVal(V):
    def __init__(self, t): self.t = t
    def __repr__(self): return f"VVal({self.t})"


class VStr(V):
    """string. concrete strings carry .s; all strings carry an integer id term .t for equality"""
    _ids = {}

    def __init__(self, s=None, t=None):
        self.s = s
        if s is not None:
            if s not in VStr._ids:
                VStr._ids[s] = len(VStr._ids)
            t = z3.IntVal(VStr._ids[s])
        self.t = t
    def __repr__(self): return f"VStr({self.s!r})" if self.s is not None else f"VStr(sym {self.t})"


class VNone(V):
    def __repr__(self): return "VNone"


NONEV = VNone()


class VOpt(V):
    def __init__(self, isnone, inner): self.isnone = isnone; self.inner = inner
    def __repr__(self): return f"VOpt({self.isnone}, {self.inner!r})"


class VSeq(V):
    """immutable sequence payload: symbolic length + element function (z3 Int term -> V)"""
    def __init__(self, length, elem, etype, concrete=None):
        self.len = z3.IntVal(length) if isinstance(length, int) else length
        self.elem = elem
        self.etype = etype
        self.concrete = concrete  # python list of V when the length is syntactically known
        self.flat = None          # for lists of sequences: total number of elements (z3 Int), when tracked
        self.kind = None          # None: python list; z3 Int: 0 list / 1 torch tensor / 2 numpy array (dynamic type tag)
    def __repr__(self): return f"VSeq(len={self.len}, {self.etype!r})"

    @staticmethod
    def of(values, etype=None):
        values = list(values)
        if etype is None:
            etype = typeof(values[0]) if values else INT

        def elem(i, values=values, etype=etype):
            if not values:
                return fresh(etype, "empty")
            res = values[-1]
            for k in range(len(values) - 2, -1, -1):
                res = ite(i == k, values[k], res)
            return res
        sq = VSeq(len(values), elem, etype, concrete=values)
        if not values:
            sq.flat = z3.IntVal(0)
        return sq


class VTuple(V):
    def __init__(self, elems): self.elems = list(elems)
    def __repr__(self): return f"VTuple({self.elems!r})"


class VRec(V):
    def __init__(self, name, fields): self.name = name; self.fields = fields
    def __repr__(self): return f"VRec<{self.name}>"


class VRef(V):
    """reference to a heap cell (list payload or object)"""
    def __init__(self, oid): self.oid = oid
    def __repr__(self): return f"VRef({self.oid})"


class HObj:
    def __init__(self, cls, fields, typ=None): self.cls = cls; self.fields = dict(fields); self.typ = typ
    def copy(self): return HObj(self.cls, self.fields, self.typ)


class VAbs(V):
    """abstract object with engine-side behaviour (library / domain contracts)"""
    label = "abs"

    def getattr(self, name, st, eng): raise KeyError(name)
    def hasattr(self, name, st, eng): return None
    def call_method(self, name, args, kwargs, st, eng): raise KeyError(name)
    def length(self, st, eng): raise KeyError("len")
    def iterate(self, st, eng): raise KeyError("iter")
    def getitem(self, idx, st, eng): raise KeyError("getitem")
    def truth(self, st, eng): return z3.BoolVal(True)


class VAbsIte(VAbs):
    """if-then-else of two abstract objects: every operation is delegated to both and merged"""
    label = "abs-ite"

    def __init__(self, c, a, b): self.c, self.a, self.b = c, a, b

    def _both(self, fa, fb, st):
        ra, rb = fa(), fb()
        ra = ra[0][1] if isinstance(ra, list) else ra
        rb = rb[0][1] if isinstance(rb, list) else rb
        if isinstance(ra, z3.ExprRef) or isinstance(rb, z3.ExprRef) or isinstance(ra, bool):
            return z3.If(self.c, ra, rb)
        return ite(self.c, ra, rb)

    def getattr(self, name, st, eng):
        return self._both(lambda: self.a.getattr(name, st, eng), lambda: self.b.getattr(name, st, eng), st)

    def hasattr(self, name, st, eng):
        return z3.If(self.c, self.a.hasattr(name, st, eng), self.b.hasattr(name, st, eng))

    def length(self, st, eng):
        return self._both(lambda: self.a.length(st, eng), lambda: self.b.length(st, eng), st)

    def getitem(self, idx, st, eng):
        return self._both(lambda: self.a.getitem(idx, st, eng), lambda: self.b.getitem(idx, st, eng), st)

    def call_method(self, name, args, kwargs, st, eng):
        if eng.spec_depth:
            return [(st, self._both(lambda: self.a.call_method(name, args, kwargs, st, eng),
                                    lambda: self.b.call_method(name, args, kwargs, st, eng), st))]
        sa, sb = st.fork().assume(self.c), st.fork().assume(z3.Not(self.c))
        return self.a.call_method(name, args, kwargs, sa, eng) + self.b.call_method(name, args, kwargs, sb, eng)


class VFunc(V):
    """python-side callable: fn(args, kwargs, st, eng) -> list[(st, V)]"""
    def __init__(self, name, fn): self.name = name; self.fn = fn
    def __repr__(self): return f"VFunc({self.name})"


class VClass(V):
    """a class object (for isinstance / type(...).__name__)"""
    def __init__(self, name): self.name = name
    def __repr__(self): return f"VClass({self.name})"


# ----------------------------------------------------------------------------- fresh / typeof / ite
def _sym(sort, name, idx):
    if not idx:
        return z3.Const(name, sort)
    f = z3.Function(name, *([z3.IntSort()] * len(idx)), sort)
    return f(*idx)


def fresh(T_, name, idx=(), unique=True):
    """fresh symbolic value of type T_. idx: tuple of z3 Int terms (value is a function of them)."""
    if unique and not idx:
        name = uid(name)
    if isinstance(T_, TInt):
        return VInt(_sym(z3.IntSort(), name, idx))
    if isinstance(T_, TBool):
        return VBool(_sym(z3.BoolSort(), name, idx))
    if isinstance(T_, TReal):
        return VReal(_sym(z3.RealSort(), name, idx))
    if isinstance(T_, TVal):
        return VVal(_sym(ValSort, name, idx))
    if isinstance(T_, TStr):
        return VStr(t=_sym(z3.IntSort(), name + "$str", idx))
    if isinstance(T_, TNone):
        return NONEV
    if isinstance(T_, TOpt):
        return VOpt(_sym(z3.BoolSort(), name + "$none", idx), fresh(T_.inner, name, idx, unique=False))
    if isinstance(T_, TSeq):
        ln = _sym(z3.IntSort(), name + "$len", idx)
        sq = VSeq(ln, lambda i, T_=T_, name=name, idx=idx: fresh(T_.elem, name + "$el", tuple(idx) + (i,), unique=False),
                  T_.elem)
        if isinstance(T_.elem, TSeq):
            sq.flat = _sym(z3.IntSort(), name + "$flat", idx)
        if getattr(T_, "kind", None) is not None:
            sq.kind = z3.IntVal(T_.kind)          # 1: torch tensor, 2: numpy array (elementwise arithmetic)
        return sq
    if isinstance(T_, TTuple):
        return VTuple([fresh(t, f"{name}${k}", idx, unique=False) for k, t in enumerate(T_.elems)])
    if isinstance(T_, TRec):
        return VRec(T_.name, {f: fresh(t, f"{name}.{f}", idx, unique=False) for f, t in T_.fields.items()})
    if isinstance(T_, TAbs):
        return T_.factory(name, idx)
    raise TypeError(f"fresh: cannot create {T_!r}")


def seq_len_nonneg(v, acc):
    """collect `len >= 0` facts of every symbolic sequence inside v (non-indexed ones only)"""
    if isinstance(v, VSeq):
        acc.append(v.len >= 0)
    elif isinstance(v, VOpt):
        seq_len_nonneg(v.inner, acc)
    elif isinstance(v, VTuple):
        for e in v.elems:
            seq_len_nonneg(e, acc)
    elif isinstance(v, VRec):
        for e in v.fields.values():
            seq_len_nonneg(e, acc)


def typeof(v):
    if isinstance(v, VInt): return INT
    if isinstance(v, VBool): return BOOL
    if isinstance(v, VReal): return REAL
    if isinstance(v, VVal): return VAL
    if isinstance(v, VStr): return STR
    if isinstance(v, VNone): return NONE
    if isinstance(v, VOpt): return TOpt(typeof(v.inner))
    if isinstance(v, VSeq): return TSeq(v.etype)
    if isinstance(v, VTuple): return TTuple([typeof(e) for e in v.elems])
    if isinstance(v, VRec): return TRec(v.name, {f: typeof(x) for f, x in v.fields.items()})
    if isinstance(v, (VAbs, VClass, VFunc)):
        return TAbs(None, getattr(v, "label", "abs"))
    if isinstance(v, VRef):
        return TAbs(None, "ref")
    raise TypeError(f"typeof: {v!r}")


class MergeError(Exception):
    pass


def as_val(v):
    """inject heap references and class objects into the opaque value sort (identity only)"""
    if isinstance(v, VRef):
        return VVal(z3.Const(f"obj!{v.oid}", ValSort))
    if isinstance(v, VClass):
        return VVal(z3.Const(f"class!{v.name}", ValSort))
    return v


class VSpecIte(VAbsIte):
    """specification-level conditional whose branches have different shapes (a bare value / a tuple / a list): kept symbolic;
    length, subscripts and equality distribute over the two branches"""
    label = "spec-ite"

    def _len_of(self, v, st, eng):
        v = eng.deref(v, st)
        if isinstance(v, VSeq): return VInt(v.len)
        if isinstance(v, VTuple): return VInt(len(v.elems))
        if isinstance(v, VAbs): return v.length(st, eng)
        raise SpecError(f"len() of {v!r} inside a conditional specification value")

    def length(self, st, eng):
        return ite(self.c, self._len_of(self.a, st, eng), self._len_of(self.b, st, eng))

    def getitem(self, idx, st, eng):
        ra, rb = eng.getitem(self.a, idx, st, None)[0][1], eng.getitem(self.b, idx, st, None)[0][1]
        try:
            return ite(self.c, ra, rb)
        except MergeError:
            return VSpecIte(self.c, ra, rb)


def ite(c, a, b):
    """z3-level if-then-else on values of equal shape"""
    if isinstance(a, VVal) and isinstance(b, (VRef, VClass)) or isinstance(b, VVal) and isinstance(a, (VRef, VClass)):
        a, b = as_val(a), as_val(b)
    if isinstance(c, bool):
        return a if c else b
    if z3.is_true(c): return a
    if z3.is_false(c): return b
    if a is b:
        return a
    if hasattr(a, "t") and hasattr(b, "t") and type(a) is type(b) and a.t.eq(b.t):
        return a
    if isinstance(a, VInt) and isinstance(b, VInt): return VInt(z3.If(c, a.t, b.t))
    if isinstance(a, VBool) and isinstance(b, VBool): return VBool(z3.If(c, a.t, b.t))
    if isinstance(a, VReal) and isinstance(b, VReal): return VReal(z3.If(c, a.t, b.t))
    if isinstance(a, VReal) and isinstance(b, VInt): return VReal(z3.If(c, a.t, z3.ToReal(b.t)))
    if isinstance(a, VInt) and isinstance(b, VReal): return VReal(z3.If(c, z3.ToReal(a.t), b.t))
    if isinstance(a, VVal) and isinstance(b, VVal): return VVal(z3.If(c, a.t, b.t))
    if isinstance(a, VStr) and isinstance(b, VStr): return VStr(t=z3.If(c, a.t, b.t))
    if isinstance(a, VNone) and isinstance(b, VNone): return a
    if isinstance(a, VOpt) or isinstance(b, VOpt) or isinstance(a, VNone) or isinstance(b, VNone):
        ao, bo = as_opt(a, b), as_opt(b, a)
        return VOpt(z3.If(c, ao.isnone, bo.isnone), ite(c, ao.inner, bo.inner))
    if isinstance(a, VTuple) and isinstance(b, VTuple) and len(a.elems) == len(b.elems):
        return VTuple([ite(c, x, y) for x, y in zip(a.elems, b.elems)])
    if isinstance(a, VSeq) and isinstance(b, VSeq):
        if b.concrete is not None and not b.concrete:
            r = VSeq(z3.If(c, a.len, 0), a.elem, a.etype)
        elif a.concrete is not None and not a.concrete:
            r = VSeq(z3.If(c, 0, b.len), b.elem, b.etype)
        else:
            r = VSeq(z3.If(c, a.len, b.len), lambda i: ite(c, a.elem(i), b.elem(i)), a.etype)
        if a.kind is not None or b.kind is not None:        # list / tensor / array tag survives a merge (no tag = python list = 0)
            ka = a.kind if a.kind is not None else z3.IntVal(0)
            kb = b.kind if b.kind is not None else z3.IntVal(0)
            r.kind = ka if ka.eq(kb) else z3.If(c, ka, kb)
        return r
    if isinstance(a, VRec) and isinstance(b, VRec) and a.fields.keys() == b.fields.keys():
        return VRec(a.name, {f: ite(c, a.fields[f], b.fields[f]) for f in a.fields})
    if isinstance(a, VRef) and isinstance(b, VRef) and a.oid == b.oid:
        return a
    if isinstance(a, VAbs) and isinstance(b, VAbs):
        if type(a) is type(b) and hasattr(a, "ite_with"):
            return a.ite_with(c, b)
        if hasattr(a, "key") and hasattr(b, "key") and type(a) is type(b) and a.key() == b.key() and not a.key()[1]:
            return a
        return VAbsIte(c, a, b)
    raise MergeError(f"cannot merge {a!r} / {b!r}")


def as_opt(v, other):
    """view v as an optional of the shape of `other` (used for merging None with a value)"""
    if isinstance(v, VOpt):
        return v
    if isinstance(v, VNone):
        o = other.inner if isinstance(other, VOpt) else other
        if isinstance(o, VNone):
            raise MergeError("None/None")
        return VOpt(z3.BoolVal(True), default_of(o))
    return VOpt(z3.BoolVal(False), v)


def default_of(v):
    if isinstance(v, VInt): return VInt(0)
    if isinstance(v, VBool): return VBool(False)
    if isinstance(v, VReal): return VReal(0)
    if isinstance(v, VVal): return fresh(VAL, "dflt")
    if isinstance(v, VStr): return VStr("")
    if isinstance(v, VTuple): return VTuple([default_of(e) for e in v.elems])
    if isinstance(v, VSeq): return VSeq(0, v.elem, v.etype)
    if isinstance(v, VRec): return v
    raise MergeError(f"no default for {v!r}")


def veq(a, b):
    """z3 Bool for python `a == b` on values (structural)"""
    if isinstance(a, VVal) and isinstance(b, (VRef, VClass)) or isinstance(b, VVal) and isinstance(a, (VRef, VClass)):
        a, b = as_val(a), as_val(b)
    if isinstance(a, VOpt) or isinstance(b, VOpt):
        if isinstance(a, VNone): return b.isnone
        if isinstance(b, VNone): return a.isnone
        if isinstance(a, VOpt) and isinstance(b, VOpt):
            return z3.Or(z3.And(a.isnone, b.isnone), z3.And(z3.Not(a.isnone), z3.Not(b.isnone), veq(a.inner, b.inner)))
        if isinstance(a, VOpt): return z3.And(z3.Not(a.isnone), veq(a.inner, b))
        return z3.And(z3.Not(b.isnone), veq(a, b.inner))
    if isinstance(a, VNone) or isinstance(b, VNone):
        return z3.BoolVal(isinstance(a, VNone) and isinstance(b, VNone))
    num = (VInt, VReal, VBool)
    if isinstance(a, num) and isinstance(b, num):
        x, y = a.t, b.t
        if isinstance(a, VBool) and isinstance(b, VBool):
            return x == y
        if isinstance(a, VBool): x = z3.If(x, 1, 0)
        if isinstance(b, VBool): y = z3.If(y, 1, 0)
        if isinstance(a, VReal) != isinstance(b, VReal):
            x = x if isinstance(a, VReal) else z3.ToReal(x)
            y = y if isinstance(b, VReal) else z3.ToReal(y)
        return x == y
    if isinstance(a, VVal) and isinstance(b, VVal): return a.t == b.t
    if isinstance(a, VStr) and isinstance(b, VStr):
        if a.s is not None and b.s is not None:
            return z3.BoolVal(a.s == b.s)
        return a.t == b.t
    if isinstance(a, VTuple) and isinstance(b, VTuple):
        if len(a.elems) != len(b.elems): return z3.BoolVal(False)
        return z3.And([veq(x, y) for x, y in zip(a.elems, b.elems)]) if a.elems else z3.BoolVal(True)
    if isinstance(a, VSeq) and isinstance(b, VSeq):
        if a.concrete is not None and b.concrete is not None:
            if len(a.concrete) != len(b.concrete): return z3.BoolVal(False)
            return z3.And([veq(x, y) for x, y in zip(a.concrete, b.concrete)]) if a.concrete else z3.BoolVal(True)
        k = z3.Int(uid("eqk"))
        return z3.And(a.len == b.len, z3.ForAll([k], z3.Implies(z3.And(0 <= k, k < a.len), veq(a.elem(k), b.elem(k)))))
    if isinstance(a, VRec) and isinstance(b, VRec):
        return z3.And([veq(a.fields[f], b.fields[f]) for f in a.fields])
    if isinstance(a, VRef) and isinstance(b, VRef):
        return z3.BoolVal(a.oid == b.oid)
    if isinstance(a, VClass) and isinstance(b, VClass):
        return z3.BoolVal(a.name == b.name)
    if isinstance(a, VAbsIte):
        return z3.If(a.c, veq(a.a, b), veq(a.b, b))
    if isinstance(b, VAbsIte):
        return z3.If(b.c, veq(a, b.a), veq(a, b.b))
    if isinstance(a, VAbs) and isinstance(b, VAbs) and hasattr(a, "key") and hasattr(b, "key"):
        (na, ia), (nb, ib) = a.key(), b.key()
        if na != nb or len(ia) != len(ib):
            return z3.BoolVal(False)
        return z3.And([x == y for x, y in zip(ia, ib)]) if ia else z3.BoolVal(True)
    if type(a) is not type(b):
        # an opaque value (VVal: something the model knows nothing about, e.g. an element of a havoced list) may well BE the
        # object on the other side: its equality with an abstract object / reference is unknown, not false
        opaque = (VVal,)
        objects = (VAbs, VRef, VVal)
        if (isinstance(a, opaque) and isinstance(b, objects)) or (isinstance(b, opaque) and isinstance(a, objects)):
            return z3.Bool(uid("opaque_eq"))
        return z3.BoolVal(False)
    raise MergeError(f"veq: {a!r} == {b!r}")


def H(goal, *facts):
    """spec entry proved by lemma isolation: goal from the listed facts only (each fact proved in full context)"""
    return (goal, list(facts))
