"""Statement execution, loop cutting by invariants, generators, function inlining and contract calls."""
import ast
import z3
from .values import *  # noqa
from .state import *  # noqa
from .expr import *  # noqa

NEXT, BREAK, CONT, RET, RAISE, REJECT, STOP = "next", "break", "continue", "return", "raise", "reject", "stop"


def ordered(nodes):
    return sorted(nodes, key=lambda n: (n.lineno, n.col_offset))


def own_walk(fn):
    """nodes of fn's body, not descending into nested function/class definitions"""
    todo = list(fn.body)
    while todo:
        n = todo.pop()
        yield n
        for c in ast.iter_child_nodes(n):
            if isinstance(c, (ast.FunctionDef, ast.AsyncFunctionDef, ast.ClassDef, ast.Lambda)):
                continue
            todo.append(c)


class FuncInfo:
    def __init__(self, node, module, cls=None):
        self.node, self.module, self.cls = node, module, cls
        own = list(own_walk(node))
        self.loops = ordered([n for n in own if isinstance(n, (ast.For, ast.While))])
        self.yields = ordered([n for n in own if isinstance(n, (ast.Yield, ast.YieldFrom))])
        self.asserts = ordered([n for n in own if isinstance(n, ast.Assert)])
        self.is_generator = bool(self.yields)
        self.qual = (cls + "." if cls else "") + node.name


class StmtMixin:
    # ------------------------------------------------------------------ blocks
    def exec_block(self, stmts, st):
        """-> list[(state, outcome)] with outcome a tuple (NEXT,), (BREAK,), (CONT,), (RET, v), (RAISE, name), ..."""
        cur = [st]
        done = []
        for stmt in stmts:
            nxt = []
            for s in cur:
                try:
                    res = self.exec_stmt(stmt, s)
                except PathEnd:
                    res = []
                res = res + [(s2, (RAISE, exc)) for s2, exc in self.take_raises()]
                for s2, oc in res:
                    if oc[0] == NEXT:
                        nxt.append(s2)
                    else:
                        done.append((s2, oc))
            cur = self.merged(nxt)
            if len(cur) > self.max_paths:
                raise Unsupported(f"path explosion (> {self.max_paths} live paths)", stmt)
        done = self.merge_outcomes(done)
        return done + [(s, (NEXT,)) for s in cur]

    def merged(self, states):
        if len(states) <= 1 or self.no_merge:
            return states
        m = merge_states(states)
        return [m] if m is not None else states

    def merge_outcomes(self, done):
        if self.no_merge:
            return done
        out, groups = [], {}
        for s, oc in done:
            if oc[0] in (BREAK, CONT):
                groups.setdefault(oc[0], []).append(s)
            else:
                out.append((s, oc))
        for kind, ss in groups.items():
            out.extend((s, (kind,)) for s in self.merged(ss))
        return out

    def take_raises(self):
        r, self.pending_raises = self.pending_raises, []
        return r

    def exec_stmt(self, node, st):
        m = getattr(self, "st_" + type(node).__name__, None)
        if m is None:
            raise Unsupported(f"statement {type(node).__name__}", node)
        return m(node, st)

    def st_Pass(self, node, st): return [(st, (NEXT,))]
    def st_Import(self, node, st): return [(st, (NEXT,))]
    def st_ImportFrom(self, node, st): return [(st, (NEXT,))]
    def st_Break(self, node, st): return [(st, (BREAK,))]
    def st_Continue(self, node, st): return [(st, (CONT,))]
    def st_Global(self, node, st): return [(st, (NEXT,))]

    def st_Expr(self, node, st):
        if isinstance(node.value, ast.Constant):
            return [(st, (NEXT,))]          # docstring
        if isinstance(node.value, ast.Yield):
            return self.do_yield(node.value, st)
        if isinstance(node.value, ast.YieldFrom):
            return self.do_yield_from(node.value, st)
        return [(s, (NEXT,)) for s, _ in self.ev(node.value, st)]

    def st_Return(self, node, st):
        if node.value is None:
            return [(st, (RET, NONEV))]
        return [(s, (RET, v)) for s, v in self.ev(node.value, st)]

    def st_Raise(self, node, st):
        name = "Exception"
        if node.exc is not None:
            e = node.exc.func if isinstance(node.exc, ast.Call) else node.exc
            name = ast.unparse(e)
        return [(st, (RAISE, name))]

    def st_Assign(self, node, st):
        out = []
        for s, v in self.ev(node.value, st):
            for t in node.targets:
                self.assign_target(t, v, s)
            out.append((s, (NEXT,)))
        return out

    def st_AnnAssign(self, node, st):
        if node.value is None:
            return [(st, (NEXT,))]
        out = []
        for s, v in self.ev(node.value, st):
            self.assign_target(node.target, v, s)
            out.append((s, (NEXT,)))
        return out

    def st_AugAssign(self, node, st):
        out = []
        load = ast.copy_location(ast.fix_missing_locations(self._as_load(node.target)), node)
        for s, (a, b) in self.ev_seq([load, node.value], st):
            ad = self.deref(a, s)
            if isinstance(node.op, ast.Add) and isinstance(a, VRef) and isinstance(ad, VSeq):
                # list += iterable mutates in place
                s.heap[a.oid] = self.seq_concat(ad, self.as_seq(b, s, node))
                out.append((s, (NEXT,)))
                continue
            if isinstance(ad, VAbs) and isinstance(node.op, ast.Mult) and hasattr(ad, "ite_with") and type(ad).__name__ == "AbsGrid":
                ad.call_method("__imul__", [b], {}, s, self)      # in-place elementwise product
                out.append((s, (NEXT,)))
                continue
            for s2, r in self.binop(node.op, a, b, s, node):
                self.assign_target(node.target, r, s2)
                out.append((s2, (NEXT,)))
        return out

    def _as_load(self, target):
        t = ast.parse(ast.unparse(target), mode="eval").body
        return t

    def assign_target(self, target, v, st):
        if isinstance(target, ast.Name):
            st.locals[target.id] = v
        elif isinstance(target, (ast.Tuple, ast.List)):
            vv = self.deref(v, st)
            if isinstance(vv, VAbs) and hasattr(vv, "unpack"):
                elems = vv.unpack(len(target.elts), st, self, target)
            elif isinstance(vv, VVal):
                from .absobj import Comp
                elems = [VVal(Comp(vv.t, z3.IntVal(k))) for k in range(len(target.elts))]
            elif isinstance(vv, VTuple):
                elems = vv.elems
            elif isinstance(vv, VSeq) and vv.concrete is not None:
                elems = vv.concrete
            elif isinstance(vv, VSeq):
                self.safety(st, "unpack:length", vv.len == len(target.elts), target, "unpacking length mismatch")
                elems = [vv.elem(z3.IntVal(k)) for k in range(len(target.elts))]
            else:
                raise Unsupported(f"unpacking of {vv!r}", target)
            if len(elems) != len(target.elts):
                self.safety(st, "unpack:length", z3.BoolVal(False), target, "unpacking length mismatch")
                raise PathEnd("unpack")
            for t, e in zip(target.elts, elems):
                self.assign_target(t, e, st)
        elif isinstance(target, ast.Attribute):
            res = self.ev(target.value, st)
            if len(res) != 1:
                raise Unsupported("forking attribute target", target)
            base = res[0][1]
            if isinstance(base, VRef) and isinstance(st.heap[base.oid], HObj):
                st.heap[base.oid].fields[target.attr] = v
            else:
                raise Unsupported(f"attribute store on {base!r}", target)
        elif isinstance(target, ast.Subscript) and (isinstance(target.slice, ast.Slice) or
                                                    (isinstance(target.slice, ast.Tuple) and any(isinstance(e, ast.Slice) for e in target.slice.elts))):
            rb = self.ev(target.value, st)
            if len(rb) != 1:
                raise Unsupported("forking subscript target", target)
            base = self.deref(rb[0][1], st)
            parts = target.slice.elts if isinstance(target.slice, ast.Tuple) else [target.slice]
            vals = []
            for p_ in parts:
                if isinstance(p_, ast.Slice):
                    lo = self.ev1_code(p_.lower, st) if p_.lower is not None else NONEV
                    hi = self.ev1_code(p_.upper, st) if p_.upper is not None else NONEV
                    vals.append(VTuple([VStr("slice"), lo, hi]))
                elif isinstance(p_, ast.Constant) and p_.value is Ellipsis:
                    vals.append(VStr("..."))
                else:
                    vals.append(self.ev1_code(p_, st))
            if isinstance(base, VAbs):
                base.call_method("__setitem__", [VTuple(vals), v], {}, st, self)
            else:
                raise Unsupported("slice assignment on a non-abstract value", target)
        elif isinstance(target, ast.Subscript):
            res = self.ev_seq([target.value, target.slice], st)
            if len(res) != 1:
                raise Unsupported("forking subscript target", target)
            base, idx = res[0][1]
            if isinstance(base, VOpt):
                base = self.unopt(base, st, target, "subscripted target")
            if self.is_dict(base, st):
                obj = st.heap[base.oid]
                obj.fields["entries"] = VTuple(obj.fields["entries"].elems + [VTuple([idx, v])])
                return
            payload = self.deref(base, st)
            if isinstance(base, VRef) and isinstance(payload, VSeq):
                if base.oid in getattr(st, "owned", ()):
                    self.oblige(st, "frame:no-write-to-dataset-owned-list", "frame", z3.BoolVal(False), target,
                                note="in-place write into a list obtained from the wrapped dataset (the dataset may hand out its own list)")
                j = self.norm_index(payload, self.deref(idx, st), st, target, "store")
                old = payload
                st.heap[base.oid] = VSeq(old.len, lambda i, old=old, j=j, v=v: ite(i == j, v, old.elem(i)), old.etype)
            elif isinstance(payload, VAbs):
                payload.call_method("__setitem__", [idx, v], {}, st, self)
            else:
                raise Unsupported(f"subscript store on {payload!r}", target)
        else:
            raise Unsupported("assignment target", target)

    def ev1_code(self, node, st):
        r = self.ev(node, st)
        if len(r) != 1:
            raise Unsupported("forking index expression", node)
        return r[0][1]

    def _branch(self, node, taken):
        """diagnostic (PYVC_BRANCHES=1): which branches of which `if` were executed symbolically under which top-level contract"""
        cov = getattr(self, "branch_cov", None)
        if cov is not None and self.cur_fi is not None:
            key = (getattr(self, "top_func", "?"), self.cur_fi.module.relpath, self.cur_fi.qual, node.lineno, ast.unparse(node.test)[:70])
            cov.setdefault(key, set()).add(taken)

    def st_If(self, node, st):
        out = []
        for s, c in self.ev(node.test, st):
            ct = z3.simplify(self.truth(c, s))
            if z3.is_true(ct):
                self._branch(node, True)
                out.extend(self.exec_block(node.body, s)); continue
            if z3.is_false(ct):
                self._branch(node, False)
                out.extend(self.exec_block(node.orelse, s)); continue
            sa = s.fork().assume(ct)
            sb = s.fork().assume(z3.Not(ct))
            if feasible(sa.pc):
                self._branch(node, True)
                out.extend(self.exec_block(node.body, sa))
            if feasible(sb.pc):
                self._branch(node, False)
                out.extend(self.exec_block(node.orelse, sb))
        return out

    def st_Assert(self, node, st):
        fi = self.cur_fi
        k = fi.asserts.index(node) if node in fi.asserts else -1
        mode = self.cur_contract.get("asserts", {}).get(k)
        if mode is None:
            mode = "reject" if fi.node.name in ("__init__", "__post_init__") else "internal"
        out = []
        for s, c in self.ev(node.test, st):
            ct = self.truth(c, s)
            if mode == "internal":
                self.oblige(s, f"assert{k}", "vc", ct, node, note="internal assert: " + ast.unparse(node.test)[:80])
                s.assume(ct)
                out.append((s, (NEXT,)))
            else:
                ok = s.fork().assume(ct)
                bad = s.fork().assume(z3.Not(ct))
                if feasible(bad.pc):
                    out.append((bad, (RAISE, "AssertionError")))
                if feasible(ok.pc):
                    out.append((ok, (NEXT,)))
        return out

    def st_FunctionDef(self, node, st):
        st.locals[node.name] = self.closure(node, st)
        return [(st, (NEXT,))]

    def closure(self, node, st):
        fi = FuncInfo(node, self.cur_fi.module, None)
        captured = st.locals

        def fn(args, kwargs, s, eng, fi=fi):
            return eng.inline(fi, None, args, kwargs, s, closure=captured)
        return VFunc(node.name, fn)

    def st_With(self, node, st):
        """context managers are modelled as plain bindings (no __exit__ effects): open(...) / ZipFile(...)"""
        cur = [st]
        for item in node.items:
            nxt = []
            for s in cur:
                for s2, v in self.ev(item.context_expr, s):
                    if item.optional_vars is not None:
                        self.assign_target(item.optional_vars, v, s2)
                    nxt.append(s2)
            cur = nxt
        out = []
        for s in cur:
            out.extend(self.exec_block(node.body, s))
        return out

    def st_Try(self, node, st):
        """try/except/finally: exceptions are the RAISE outcomes of the body (by class name)"""
        if node.orelse:
            raise Unsupported("try ... else", node)
        out = []
        for s, oc in self.exec_block(node.body, st):
            if oc[0] != RAISE:
                out.append((s, oc))
                continue
            handled = False
            for h in node.handlers:
                names = []
                if h.type is None:
                    names = None
                elif isinstance(h.type, ast.Tuple):
                    names = [ast.unparse(e) for e in h.type.elts]
                else:
                    names = [ast.unparse(h.type)]
                if names is None or oc[1] in names or "Exception" in names or "BaseException" in names:
                    if h.name:
                        s.locals[h.name] = VStr(oc[1])
                    out.extend(self.exec_block(h.body, s))
                    handled = True
                    break
            if not handled:
                out.append((s, oc))
        if node.finalbody:
            fin = []
            for s, oc in out:
                for s2, oc2 in self.exec_block(node.finalbody, s):
                    fin.append((s2, oc if oc2[0] == NEXT else oc2))
            out = fin
        return out

    def st_Delete(self, node, st):
        for t in node.targets:
            if isinstance(t, ast.Name):
                st.locals[t.id] = UNBOUND
            else:
                raise Unsupported("del of non-name", node)
        return [(st, (NEXT,))]

    # ------------------------------------------------------------------ loops
    def st_While(self, node, st):
        return self.do_loop(node, st)

    def st_For(self, node, st):
        return self.do_loop(node, st)

    def loop_spec(self, node):
        fi = self.cur_fi
        k = fi.loops.index(node)
        spec = self.cur_contract.get("loops", {}).get(k)
        if spec is not None and "anchor" in spec:
            head = ast.unparse(node).split("\n")[0]
            if spec["anchor"] not in head:
                raise SpecError(f"loop {k} of {fi.qual}: anchor {spec['anchor']!r} not in {head!r}")
        return k, spec

    def do_loop(self, node, st):
        k, spec = self.loop_spec(node)
        is_for = isinstance(node, ast.For)
        out = []
        if is_for:
            heads = []
            for s, it in self.ev(node.iter, st):
                heads.append((s, self.as_seq(it, s, node)))
        else:
            heads = [(st, None)]
        for s, seq in heads:
            if spec is None:
                if is_for and seq.concrete is not None:
                    out.extend(self.unroll_for(node, seq, s))
                    continue
                raise Unsupported(f"loop {k} of {self.cur_fi.qual} has no invariant in the sidecar", node)
            out.extend(self.cut_loop(node, k, spec, seq, s))
        if node.orelse:
            raise Unsupported("loop else", node)
        return out

    def unroll_for(self, node, seq, st):
        cur = [st]
        out = []
        for el in seq.concrete:
            nxt = []
            for s in cur:
                self.assign_target(node.target, el, s)
                for s2, oc in self.exec_block(node.body, s):
                    if oc[0] in (NEXT, CONT):
                        nxt.append(s2)
                    elif oc[0] == BREAK:
                        out.append((s2, (NEXT,)))
                    else:
                        out.append((s2, oc))
            cur = nxt
        return out + [(s, (NEXT,)) for s in cur]

    def modified_by(self, body_nodes):
        """syntactic write set of a loop body: locals, (base-expr, field) stores, mutated list expressions"""
        names, fields, lists, calls = set(), [], [], []

        def tgt(t):
            if isinstance(t, ast.Name):
                names.add(t.id)
            elif isinstance(t, (ast.Tuple, ast.List)):
                for e in t.elts:
                    tgt(e)
            elif isinstance(t, ast.Attribute):
                fields.append((t.value, t.attr))
            elif isinstance(t, ast.Subscript):
                lists.append(t.value)
            elif isinstance(t, ast.Starred):
                tgt(t.value)
        for stmt in body_nodes:
            for n in ast.walk(stmt):
                if isinstance(n, ast.Assign):
                    for t in n.targets:
                        tgt(t)
                elif isinstance(n, (ast.AugAssign, ast.AnnAssign)):
                    tgt(n.target)
                    if isinstance(n, ast.AugAssign):
                        lists.append(n.target)
                elif isinstance(n, (ast.For, ast.comprehension)):
                    if isinstance(n, ast.For):
                        tgt(n.target)
                elif isinstance(n, ast.NamedExpr):
                    tgt(n.target)
                elif isinstance(n, ast.FunctionDef):
                    names.add(n.name)
                elif isinstance(n, ast.Call) and isinstance(n.func, ast.Attribute):
                    if n.func.attr in ("append", "extend", "insert", "pop", "remove", "clear", "sort", "reverse"):
                        lists.append(n.func.value)
                    calls.append(n)
        return names, fields, lists, calls

    def havoc_value(self, v, st, label):
        if v is UNBOUND or v is MAYBE:
            return v
        if isinstance(v, VRef):
            h = st.heap[v.oid]
            if isinstance(h, VSeq):
                nv = fresh(TSeq(VAL if (h.concrete is not None and not h.concrete) else h.etype), label)
                if h.flat is not None and nv.flat is None:
                    nv.flat = z3.Int(uid(label + "$flat"))
                st.assume(nv.len >= 0)
                return st.alloc(nv)
            return v
        if isinstance(v, VAbs) and hasattr(v, "havoc"):
            return v.havoc(label)
        if isinstance(v, (VFunc, VClass, VModule)):
            return v
        if isinstance(v, VAbs):
            raise Unsupported(f"a loop reassigns '{label}' holding an abstract {getattr(v, 'label', 'object')} that cannot be havoced")
        nv = fresh(typeof(v), label)
        acc = []
        seq_len_nonneg(nv, acc)
        st.assume(*acc)
        return nv

    def cut_loop(self, node, k, spec, seq, st):
        fi = self.cur_fi
        is_for = isinstance(node, ast.For)
        tag = f"loop{k}"
        inv = spec.get("invariant", [])
        idx_name = spec.get("index", f"__i{k}")
        out = []
        # ---- ghost updates before the loop (e.g. reset counters)
        self.ghost_update(spec.get("before", {}), st, self.cur_env())
        # ---- invariants hold on entry
        outer_env = self.cur_env()
        entry_env = dict(outer_env, **({idx_name: VInt(0)} if is_for else {}))
        if is_for:
            entry_env["__seq"] = seq
        for i, e in enumerate(inv):
            self.prove(st, f"{tag}:inv{i}:entry", e, entry_env, node)
        # ---- havoc what the body can change
        names, fields, lists, calls = self.modified_by(node.body if not is_for else node.body)
        if is_for:
            tnames = set()
            for n in ast.walk(node.target):
                if isinstance(n, ast.Name):
                    tnames.add(n.id)
            names |= tnames
        h = st.fork()
        pre = st
        for n in sorted(names):
            if n in spec.get("havoc_types", {}) and n in h.locals:
                h.locals[n] = self.make_value(spec["havoc_types"][n], f"{n}@{tag}", h)
            elif n in h.locals:
                h.locals[n] = self.havoc_value(h.locals[n], h, f"{n}@{tag}")
            else:
                h.locals[n] = UNBOUND
        for base, attr in fields:
            try:
                b = self.ev1(base, pre)
            except (SpecError, PathEnd, KeyError):
                continue
            if isinstance(b, VRef) and isinstance(h.heap.get(b.oid), HObj) and attr in h.heap[b.oid].fields:
                h.heap[b.oid].fields[attr] = self.havoc_value(h.heap[b.oid].fields[attr], h, f"{attr}@{tag}")
        for le in lists:
            try:
                b = self.ev1(le, pre)
            except (SpecError, PathEnd, KeyError, Unsupported):
                continue
            if isinstance(le, ast.Name) and le.id in spec.get("havoc_types", {}):
                if isinstance(b, VRef) and isinstance(h.heap.get(b.oid), VSeq) and le.id not in names:
                    # a list only mutated in place (append ...): havoc its content at the element type the sidecar declares
                    nv = fresh(spec["havoc_types"][le.id], f"list@{tag}")
                    h.assume(nv.len >= 0)
                    h.heap[b.oid] = nv
                continue
            if isinstance(b, VRef) and isinstance(h.heap.get(b.oid), VSeq):
                old = h.heap[b.oid]
                # a list that is empty before the loop says nothing about what the body appends: its elements are opaque
                et = VAL if (old.concrete is not None and not old.concrete) else old.etype
                nv = fresh(TSeq(et), f"list@{tag}")
                if old.flat is not None and nv.flat is None:
                    nv.flat = z3.Int(uid(f"list@{tag}$flat"))
                h.assume(nv.len >= 0)
                h.heap[b.oid] = nv
        gmods = set(spec.get("havoc_ghost", [])) | self.ghost_written_in(node)
        for g in sorted(gmods):
            if g in h.ghost:
                h.ghost[g] = self.havoc_value(h.ghost[g], h, f"{g}@{tag}")
        for extra in spec.get("havoc_fields", []):
            b = self.ev1(ast.parse(extra[0], mode="eval").body, pre)
            h.heap[b.oid].fields[extra[1]] = self.havoc_value(h.heap[b.oid].fields[extra[1]], h, f"{extra[1]}@{tag}")
        # ---- arbitrary iteration
        env = dict(outer_env)
        if is_for:
            it = z3.Int(uid(idx_name))
            env = dict(outer_env, **{idx_name: VInt(it), "__seq": seq})
            h.assume(0 <= it, it <= seq.len)
        for e in inv:
            h.assume(self.spec_bool(e, h, env))
        # exit path
        ex = h.fork()
        if is_for:
            ex.assume(it == seq.len)
            for n in sorted(tnames):
                if ex.locals.get(n) is UNBOUND:
                    ex.locals[n] = MAYBE
            exits = [ex]
            # canary: the loop's exit state must admit a run that went through the body at least once (a contract that is only
            # satisfiable for an empty iterable proves nothing about the body); skipped for iterables of concrete length
            if not z3.is_int_value(z3.simplify(seq.len)) and not spec.get("may_be_empty_only") and not spec.get("no_exhaust") and self.depth == 0:
                from .state import Obligation
                self.obligations.append(Obligation(f"{self.top_func}:cover:{tag}:exit-after-at-least-one-iteration", "cover",
                                                   list(ex.pc) + [it >= 1], z3.BoolVal(False), "",
                                                   "the state after the loop is reachable with a non-empty iterable (must be SAT)", func=self.top_func))
        else:
            exits = []
            for s, c in self.ev(node.test, ex):
                s.assume(z3.Not(self.truth(c, s)))
                exits.append(s)
        for n in names:
            for ex_ in exits:
                if ex_.locals.get(n) is UNBOUND:
                    ex_.locals[n] = MAYBE
        self.ghost_names_in_env = env
        for ex_ in exits:
            if spec.get("no_exhaust"):
                self.oblige(ex_, f"{tag}:exhaustion-unreachable", "vc", z3.BoolVal(False), node,
                            note="the loop is always left by break/return, never by exhausting the iterable")
                continue
            if feasible(ex_.pc):
                self.ghost_update(spec.get("after", {}), ex_, env)
                out.append((ex_, (NEXT,)))
        # body path
        bodies = []
        if is_for:
            b = h.fork().assume(it < seq.len)
            self.assign_target(node.target, seq.elem(it), b)
            bodies = [b]
        else:
            for s, c in self.ev(node.test, h.fork()):
                s.assume(self.truth(c, s))
                bodies.append(s)
        var_e = spec.get("variant")
        for b in bodies:
            if not feasible(b.pc):
                continue
            self.ghost_update(spec.get("at_start", {}), b, env)
            v0 = self.variant_terms(var_e, b, env) if var_e else None
            if v0 is not None:
                self.oblige(b, f"{tag}:variant:bounded", "vc", z3.And([x >= 0 for x in v0]), node,
                            note=f"variant {var_e} >= 0")
            self.loop_env.append((k, {kk: vv for kk, vv in env.items() if kk not in outer_env or kk == idx_name}))
            try:
                results = self.exec_block(node.body, b)
            finally:
                self.loop_env.pop()
            for s, oc in results:
                if oc[0] in (NEXT, CONT):
                    env2 = dict(env)
                    if is_for:
                        env2[idx_name] = VInt(it + 1)
                    for i, e in enumerate(spec.get("at_end", [])):
                        self.prove(s, f"{tag}:iter-end{i}", e, env, node)
                    self.ghost_update(spec.get("at_end_ghost", {}), s, env)
                    for i, e in enumerate(inv):
                        self.prove(s, f"{tag}:inv{i}:preserved", e, env2, node)
                    if v0 is not None:
                        v1 = self.variant_terms(var_e, s, env2)
                        self.oblige(s, f"{tag}:variant:decreases", "vc", lex_less(v1, v0), node,
                                    note=f"variant {var_e} strictly decreases")
                elif oc[0] == BREAK:
                    self.ghost_update(spec.get("after", {}), s, env)
                    out.append((s, (NEXT,)))
                else:
                    out.append((s, oc))
        return out

    def variant_terms(self, e, st, env):
        v = self.spec_val(e, st, env)
        if isinstance(v, VTuple):
            return [to_int(x) for x in v.elems]
        return [to_int(v)]

    def ghost_written_in(self, loop_node):
        """ghost variables updated by yield specs / nested loop specs / abstract calls inside this loop"""
        fi, c = self.cur_fi, self.cur_contract
        res = set()
        inside = set(id(n) for stmt in loop_node.body for n in ast.walk(stmt))
        for k, y in enumerate(fi.yields):
            if id(y) in inside:
                res |= set(c.get("yields", {}).get(k, {}).get("ghost", {}).keys())
        for k, l in enumerate(fi.loops):
            if id(l) in inside or l is loop_node:
                sp = c.get("loops", {}).get(k, {}) or {}
                for key in ("at_start", "before", "after", "at_end_ghost"):
                    if l is loop_node and key not in ("at_start", "at_end_ghost"):
                        continue
                    res |= set(sp.get(key, {}).keys())
        if any(isinstance(n, ast.Subscript) and isinstance(n.ctx, ast.Store) or isinstance(n, ast.AugAssign)
               for stmt in loop_node.body for n in ast.walk(stmt)):
            res.add("g_gridver")
        eff = c.get("ghost_effects", {})
        from .absobj import GHOST_METHODS, GHOST_ANY_CALL
        for stmt in loop_node.body:
            for n in ast.walk(stmt):
                if isinstance(n, ast.Call):
                    res |= set(GHOST_ANY_CALL)
                if isinstance(n, ast.Call) and isinstance(n.func, ast.Attribute):
                    res |= set(eff.get(f"call:{n.func.attr}", []))
                    res |= set(GHOST_METHODS.get(n.func.attr, []))
                elif isinstance(n, ast.Call) and isinstance(n.func, ast.Name):
                    res |= set(eff.get(f"call:{n.func.id}", []))
                    res |= set(GHOST_METHODS.get(n.func.id, []))
                elif isinstance(n, (ast.For, ast.comprehension)):
                    res |= set(eff.get(f"iter:{ast.unparse(n.iter)}", []))
                    res |= set(eff.get("iter:*", []))
        return res

    # ------------------------------------------------------------------ yields / ghost
    def ghost_update(self, updates, st, env):
        if not updates:
            return
        new = {}
        for g, e in updates.items():
            if g not in st.ghost:
                raise SpecError(f"ghost variable {g} not declared")
            new[g] = self.spec_val(e, st, env)
            st.ghost[g] = new[g]      # sequential semantics

    def yield_spec(self, node):
        fi = self.cur_fi
        k = fi.yields.index(node)
        spec = self.cur_contract.get("yields", {}).get(k)
        if spec is None:
            raise Unsupported(f"yield {k} of {fi.qual} has no spec in the sidecar", node)
        if "anchor" in spec and spec["anchor"] not in ast.unparse(node):
            raise SpecError(f"yield {k} of {fi.qual}: anchor {spec['anchor']!r} not in {ast.unparse(node)!r}")
        return k, spec

    def cur_env(self):
        env = {}
        for _, e in self.loop_env:
            env.update(e)
        return env

    def do_yield(self, node, st):
        k, spec = self.yield_spec(node)
        out = []
        res = self.ev(node.value, st) if node.value is not None else [(st, NONEV)]
        for s, v in res:
            env = dict(self.cur_env(), value=v)
            for i, e in enumerate(spec.get("asserts", [])):
                s.assume(self.prove(s, f"yield{k}:assert{i}", e, env, node))
            self.ghost_update(spec.get("ghost", {}), s, env)
            out.append((s, (NEXT,)))
        return out

    def do_yield_from(self, node, st):
        k, spec = self.yield_spec(node)
        out = []
        if spec.get("delegate"):
            # `yield from <generator call>`: evaluate the call; the callee's own contract speaks about its stream
            for s, v in self.ev(node.value, st):
                out.append((s, (NEXT,)))
            return out
        for s, v in self.ev(node.value, st):
            sq = self.as_seq(v, s, node)
            env = dict(self.cur_env(), value=sq)
            for i, e in enumerate(spec.get("asserts", [])):
                s.assume(self.prove(s, f"yield{k}:assert{i}", e, env, node))
            self.ghost_update(spec.get("ghost", {}), s, env)
            out.append((s, (NEXT,)))
        return out

    # ------------------------------------------------------------------ spec evaluation
    def prove(self, st, name, entry, env, node, kind="vc"):
        """emit the obligation(s) for one spec entry. An entry is an expression string, or H(goal, fact...) =
        ("goal", [facts]): lemma isolation - every fact is proved in the full context, the goal from the facts only."""
        if isinstance(entry, dict) and "forall" in entry:
            # forall-block: fresh constants for the bound variables, the range is assumed, the entries are proved in
            # sequence for those constants (each may use the earlier ones) - i.e. a universally quantified conclusion
            # proved by generalisation, with ground lemma instances instead of quantified lemmas
            names = entry["forall"] if isinstance(entry["forall"], (list, tuple)) else [entry["forall"]]
            blk = st.fork()
            benv = dict(env or {})
            for nme in names:
                benv[nme] = VInt(z3.Int(uid(nme)))
            blk.assume(self.spec_bool(entry["range"], blk, benv))
            for i, sub in enumerate(entry["asserts"]):
                blk.assume(self.prove(blk, f"{name}.{i}", sub, benv, node, kind))
            return z3.BoolVal(True)
        if isinstance(entry, tuple):
            goal, facts = entry
            fts = []
            for i, f in enumerate(facts):
                ft = self.spec_bool(f, st, env)
                self.oblige(st, f"{name}:uses{i}", kind, ft, node, note=f"fact used by isolated lemma: {f}")
                fts.append(ft)
            g = self.spec_bool(goal, st, env)
            iso = st.fork()
            iso.pc = fts
            self.oblige(iso, name, kind, g, node, note=f"{goal}   [isolated from: {'; '.join(facts)}]")
            return g
        g = self.spec_bool(entry, st, env)
        self.oblige(st, name, kind, skolemize(g), node, note=entry)
        return g

    def spec_val(self, e, st, env=None):
        if isinstance(e, tuple):
            e = e[0]
        node = self.parse_spec(e)
        self.spec_env.append(env or {})
        try:
            return self.ev1(node, st)
        finally:
            self.spec_env.pop()

    def spec_bool(self, e, st, env=None):
        v = self.spec_val(e, st, env)
        return self.truth(v, st)

    def parse_spec(self, e):
        if isinstance(e, tuple):
            e = e[0]
        if isinstance(e, ast.AST):
            return e
        n = self._spec_cache.get(e)
        if n is None:
            try:
                n = ast.parse(e.strip(), mode="eval").body
            except SyntaxError as ex:
                raise SpecError(f"spec syntax: {e!r}: {ex}")
            self._spec_cache[e] = n
        return n

    def make_macro(self, name):
        params, body = self.defs[name]

        def fn(args, kwargs, st, eng):
            env = dict(zip(params, args))
            env.update(kwargs)
            return [(st, eng.spec_val(body, st, env))]
        return fn


def skolemize(g):
    """a universally quantified goal is proved for fresh constants (keeps the solver query quantifier-free)"""
    n = 0
    while z3.is_quantifier(g) and g.is_forall() and n < 4:
        vs = [z3.Const(uid(g.var_name(i)), g.var_sort(i)) for i in range(g.num_vars())]
        g = z3.substitute_vars(g.body(), *reversed(vs))
        n += 1
    return g


def lex_less(a, b):
    """a < b lexicographically (lists of z3 ints), all components bounded below by the obligations"""
    if len(a) == 1:
        return a[0] < b[0]
    return z3.Or(a[0] < b[0], z3.And(a[0] == b[0], lex_less(a[1:], b[1:])))


class _Maybe:
    def __repr__(self): return "MAYBE"


MAYBE = _Maybe()
MAYBE_MARK[0] = MAYBE
