"""Builtins and assumed library contracts (the trusted base of DESIGN §4).

LIB: dotted name -> handler(args, kwargs, st, eng) -> V | list[(st, V)]
LIB_CLASSES: dotted class name -> {"bases": [...], "construct": handler}
Each use is recorded in eng.used_trusted and copied into the evidence.
"""
import z3
from .values import *  # noqa
from .state import *  # noqa
from . import expr as _e

LIB = {}
LIB_CLASSES = {"object": {"bases": []}}
LIB_OBJECTS = {}


def lib(name):
    def deco(f):
        LIB[name] = f
        return f
    return deco


def _int(eng, v, st):
    v = eng.deref(v, st)
    if isinstance(v, VOpt):
        v = eng.unopt(v, st, None, "argument")
    return _e.to_int(v)


def make_builtins(eng):
    B = {}

    def reg(name):
        def deco(f):
            B[name] = VFunc(name, f)
            return f
        return deco

    @reg("len")
    def _len(args, kwargs, st, eng):
        v = eng.deref(args[0], st)
        if isinstance(v, VOpt):
            v = eng.unopt(v, st, None, "len() argument")
        if isinstance(v, VSeq): return VInt(v.len)
        if isinstance(v, VTuple): return VInt(len(v.elems))
        if isinstance(v, VAbs): return v.length(st, eng)
        if isinstance(v, HObj):
            bm = eng.bound_method(args[0], v, "__len__", st)
            if bm is not None:
                return bm.fn([], {}, st, eng)
        if isinstance(v, VStr) and v.s is not None: return VInt(len(v.s))
        raise Unsupported(f"len({v!r})")

    @reg("isinstance")
    def _isinstance(args, kwargs, st, eng):
        v, c = eng.deref(args[0], st), args[1]
        classes = c.elems if isinstance(c, VTuple) else [c]
        res = []
        for cl in classes:
            n = cl.name if isinstance(cl, VClass) else getattr(cl, "name", str(cl))
            res.append(_isinst(eng, v, n, st))
        return VBool(z3.Or(res) if len(res) > 1 else res[0])

    def _isinst(eng, v, n, st):
        if n == "int": return z3.BoolVal(isinstance(v, (VInt, VBool))) if not isinstance(v, VOpt) else \
            z3.And(z3.Not(v.isnone), z3.BoolVal(isinstance(v.inner, (VInt, VBool))))
        if n == "float": return z3.BoolVal(isinstance(v, VReal)) if not isinstance(v, VOpt) else \
            z3.And(z3.Not(v.isnone), z3.BoolVal(isinstance(v.inner, VReal)))
        if n == "bool": return z3.BoolVal(isinstance(v, VBool))
        if n == "str": return z3.BoolVal(isinstance(v, VStr))
        if isinstance(v, VAbs) and hasattr(v, "isinstance"):
            r = v.isinstance(n, st, eng)
            if r is not None:
                return r
        if n in ("list",):
            if isinstance(v, VSeq) and v.kind is not None:
                return v.kind == 0
            return z3.BoolVal(isinstance(v, VSeq))
        if n in ("numpy.ndarray", "torch.Tensor"):
            if isinstance(v, VSeq) and v.kind is not None:
                return v.kind == (2 if n == "numpy.ndarray" else 1)
            return z3.BoolVal(False)
        if n in ("tuple",): return z3.BoolVal(isinstance(v, VTuple))
        if n in ("dict",) and isinstance(v, HObj): return z3.BoolVal(v.cls == "builtins.dict")
        if n in ("slice", "set", "frozenset", "bytes") and isinstance(v, (VInt, VBool, VReal, VStr, VNone, VSeq, VTuple, VVal)):
            return z3.BoolVal(False)
        if isinstance(v, HObj):
            return z3.BoolVal(eng.is_subclass(v.cls, n))
        if isinstance(v, VOpt) and isinstance(v.inner, (VAbs, VRef)):
            return z3.And(z3.Not(v.isnone), _isinst(eng, eng.deref(v.inner, st), n, st))
        if isinstance(v, VAbs):
            r = v.isinstance(n, st, eng) if hasattr(v, "isinstance") else None
            if r is not None:
                return r
        if isinstance(v, (VInt, VBool, VReal, VStr, VNone, VSeq, VTuple)):
            return z3.BoolVal(False)
        raise Unsupported(f"isinstance({v!r}, {n})")

    for nm in ("int", "float", "bool", "str", "list", "tuple", "dict", "set", "object"):
        pass

    @reg("int")
    def _int_(args, kwargs, st, eng):
        v = eng.deref(args[0], st)
        if isinstance(v, VOpt): v = eng.unopt(v, st, None, "int() argument")
        if isinstance(v, (VInt, VBool)): return VInt(_e.to_int(v))
        if isinstance(v, VReal) and getattr(v, "int_value", None) is not None:
            return VInt(v.int_value)
        if isinstance(v, VReal):
            if getattr(v, "ratio", None) is not None:
                a, b = v.ratio      # int(a / b) on ints: truncation towards zero (float rounding not modelled)
                q = z3.If(a >= 0, a, -a) / z3.If(b >= 0, b, -b)
                eng.used_trusted.add("assumption:int(a / b) on ints is exact truncation (true below 2**53)")
                return VInt(z3.If((a >= 0) == (b > 0), q, -q))
            x = v.t
            return VInt(z3.If(x >= 0, z3.ToInt(x), -z3.ToInt(-x)))
        if isinstance(v, VAbs):
            return v.call_method("__int__", [], {}, st, eng)
        raise Unsupported(f"int({v!r})")
    B["int"].name = "int"

    @reg("float")
    def _float(args, kwargs, st, eng):
        v = eng.deref(args[0], st)
        if isinstance(v, VStr) and v.s in ("inf", "-inf", "nan"):
            # not a real number: an unconstrained constant (comparisons with it go both ways)
            eng.used_trusted.add(f"assumption:float('{v.s}') is an unconstrained real constant")
            return VReal(z3.Real(f"float!{v.s}"))
        if isinstance(v, VOpt): v = eng.unopt(v, st, None, "float() argument")
        return VReal(_e.to_real(v))

    @reg("bool")
    def _bool(args, kwargs, st, eng):
        return VBool(eng.truth(args[0], st))

    @reg("abs")
    def _abs(args, kwargs, st, eng):
        v = eng.deref(args[0], st)
        if isinstance(v, VReal): return VReal(z3.If(v.t >= 0, v.t, -v.t))
        t = _e.to_int(v)
        return VInt(z3.If(t >= 0, t, -t))

    def minmax(is_min):
        def f(args, kwargs, st, eng):
            vals = [eng.deref(a, st) for a in args]
            if len(vals) == 1:
                sq = eng.as_seq(vals[0], st)
                if sq.concrete is None:
                    raise Unsupported("min/max of symbolic sequence")
                vals = sq.concrete
            vals = [eng.unopt(v, st, None, "min/max argument") for v in vals]
            real = any(isinstance(v, VReal) for v in vals)
            ts = [(_e.to_real(v) if real else _e.to_int(v)) for v in vals]
            r = ts[0]
            for t in ts[1:]:
                r = z3.If(t < r, t, r) if is_min else z3.If(t > r, t, r)
            return VReal(r) if real else VInt(r)
        return f
    B["min"] = VFunc("min", minmax(True))
    B["max"] = VFunc("max", minmax(False))

    @reg("sum")
    def _sum(args, kwargs, st, eng):
        sq = eng.as_seq(args[0], st)
        if sq.concrete is None:
            raise Unsupported("sum of symbolic sequence")
        real = any(isinstance(v, VReal) for v in sq.concrete)
        r = z3.RealVal(0) if real else z3.IntVal(0)
        for v in sq.concrete:
            r = r + (_e.to_real(v) if real else _e.to_int(v))
        return VReal(r) if real else VInt(r)

    def allany(is_all):
        def f(args, kwargs, st, eng):
            sq = eng.as_seq(args[0], st)
            if sq.concrete is not None:
                ts = [eng.truth(v, st) for v in sq.concrete]
                if not ts:
                    return VBool(is_all)
                return VBool(z3.And(ts) if is_all else z3.Or(ts))
            k = z3.Int(uid("k"))
            body = eng.truth(sq.elem(k), st)
            rng = z3.And(0 <= k, k < sq.len)
            return VBool(z3.ForAll([k], z3.Implies(rng, body)) if is_all else z3.Exists([k], z3.And(rng, body)))
        return f
    B["all"] = VFunc("all", allany(True))
    B["any"] = VFunc("any", allany(False))

    @reg("range")
    def _range(args, kwargs, st, eng):
        ts = [_int(eng, a, st) for a in args]
        if len(ts) == 1:
            lo, hi, stp = z3.IntVal(0), ts[0], z3.IntVal(1)
        elif len(ts) == 2:
            lo, hi, stp = ts[0], ts[1], z3.IntVal(1)
        else:
            lo, hi, stp = ts
            eng.safety(st, "range:step-positive", stp > 0, None, "only positive range steps are modelled")
        if all(z3.is_int_value(z3.simplify(t)) for t in (lo, hi, stp)):
            l, h, s_ = (z3.simplify(t).as_long() for t in (lo, hi, stp))
            if (h - l) // s_ <= 16:
                return VSeq.of([VInt(i) for i in range(l, h, s_)], INT)
        if z3.is_int_value(stp) and stp.as_long() == 1:
            ln = z3.If(hi > lo, hi - lo, 0)
        else:
            ln = z3.If(hi > lo, (hi - lo + stp - 1) / stp, 0)
        return VSeq(ln, lambda i: VInt(lo + i * stp), INT)

    @reg("enumerate")
    def _enumerate(args, kwargs, st, eng):
        sq = eng.as_seq(args[0], st)
        start = _int(eng, args[1], st) if len(args) > 1 else (_int(eng, kwargs["start"], st) if "start" in kwargs else z3.IntVal(0))
        if sq.concrete is not None and z3.is_int_value(start):
            return VSeq.of([VTuple([VInt(start.as_long() + i), v]) for i, v in enumerate(sq.concrete)],
                           TTuple([INT, sq.etype]))
        return VSeq(sq.len, lambda i: VTuple([VInt(start + i), sq.elem(i)]), TTuple([INT, sq.etype]))

    @reg("zip")
    def _zip(args, kwargs, st, eng):
        sqs = [eng.as_seq(a, st) for a in args]
        if all(s.concrete is not None for s in sqs):
            return VSeq.of([VTuple(list(t)) for t in zip(*[s.concrete for s in sqs])], TTuple([s.etype for s in sqs]))
        ln = sqs[0].len
        for s in sqs[1:]:
            ln = z3.If(s.len < ln, s.len, ln)
        return VSeq(ln, lambda i: VTuple([s.elem(i) for s in sqs]), TTuple([s.etype for s in sqs]))

    @reg("list")
    def _list(args, kwargs, st, eng):
        if not args:
            return st.alloc(VSeq.of([], INT))
        return eng.fresh_list(eng.as_seq(args[0], st), st)

    @reg("tuple")
    def _tuple(args, kwargs, st, eng):
        if not args:
            return VTuple([])
        sq = eng.as_seq(args[0], st)
        if sq.concrete is not None:
            return VTuple(sq.concrete)
        return sq

    @reg("set")
    def _set(args, kwargs, st, eng):
        # a set built from a sequence: only membership / iteration without order dependence is modelled
        if not args:
            return VSeq.of([], INT)
        sq = eng.as_seq(args[0], st)
        r = VSeq(sq.len, sq.elem, sq.etype, sq.concrete)
        r.is_set = True
        return r

    @reg("hasattr")
    def _hasattr(args, kwargs, st, eng):
        v, name = eng.deref(args[0], st), args[1]
        if not isinstance(name, VStr) or name.s is None:
            raise Unsupported("hasattr with symbolic name")
        if isinstance(v, HObj):
            return VBool(name.s in v.fields or eng.find_method(v.cls, name.s) is not None)
        if isinstance(v, VAbs):
            r = v.hasattr(name.s, st, eng)
            if r is None:
                raise Unsupported(f"hasattr({v.label}, {name.s!r})")
            return VBool(r)
        if isinstance(v, VRec):
            return VBool(name.s in v.fields)
        raise Unsupported(f"hasattr({v!r})")

    @reg("getattr")
    def _getattr(args, kwargs, st, eng):
        name = args[1]
        if not isinstance(name, VStr) or name.s is None:
            v = eng.deref(args[0], st)
            if isinstance(v, VAbs):
                return v.call_method("__getattr_sym__", [name] + list(args[2:]), {}, st, eng)
            raise Unsupported("getattr with symbolic name")
        if len(args) > 2:
            h = _hasattr([args[0], name], {}, st, eng)
            if z3.is_false(z3.simplify(h.t)):
                return args[2]
            if not z3.is_true(z3.simplify(h.t)):
                raise Unsupported("getattr default with symbolic hasattr")
        return eng.getattr(args[0], name.s, st)

    @reg("print")
    def _print(args, kwargs, st, eng):
        return NONEV

    @reg("type")
    def _type(args, kwargs, st, eng):
        v = eng.deref(args[0], st)
        if isinstance(v, HObj): return VClass(v.cls)
        if isinstance(v, VAbs) and hasattr(v, "type_of"): return v.type_of(st, eng)
        raise Unsupported(f"type({v!r})")

    @reg("super")
    def _super(args, kwargs, st, eng):
        fi = eng.cur_fi
        if fi.cls is None or "self" not in st.locals:
            raise Unsupported("super() outside a method")
        return VSuper(st.locals["self"], f"{fi.module.relpath}::{fi.cls}")

    @reg("round")
    def _round(args, kwargs, st, eng):
        v = eng.deref(args[0], st)
        if isinstance(v, VInt): return v
        r = z3.Int(uid("round"))
        st.assume(2 * z3.ToReal(r) - 1 <= 2 * v.t, 2 * v.t <= 2 * z3.ToReal(r) + 1)
        eng.used_trusted.add("axiom:round(x) is an integer within 1/2 of x (tie rule not modelled)")
        return VInt(r)

    @reg("sorted")
    def _sorted(args, kwargs, st, eng):
        raise Unsupported("sorted")

    for n in ("slice", "dict", "set", "frozenset", "bytes", "type", "object", "AssertionError", "KeyError", "IndexError",
              "TypeError", "AttributeError", "StopIteration"):
        if n not in B:
            B[n] = VClass(n)
    B["ValueError"] = VClass("ValueError")
    B["NotImplementedError"] = VClass("NotImplementedError")
    B["RuntimeError"] = VClass("RuntimeError")
    B["Exception"] = VClass("Exception")
    B["str"] = VFunc("str", lambda args, kwargs, st, eng: VStr(t=fresh(STR, "str").t))
    for n in ("int", "float", "bool", "str", "list", "tuple"):
        B[n].name = n
    def _dict(args, kwargs, st, eng):
        if args:
            raise Unsupported("dict(<positional>)")
        return st.alloc(HObj("builtins.dict", {"entries": VTuple([VTuple([VStr(k), v]) for k, v in kwargs.items()])}))
    B["dict"] = VFunc("dict", _dict)
    B["True"], B["False"], B["None"] = VBool(True), VBool(False), NONEV
    return B


class VSuper(VAbs):
    label = "super"

    def __init__(self, ref, after):
        self.ref, self.after = ref, after

    def getattr(self, name, st, eng):
        h = st.heap[self.ref.oid]
        r = eng.find_method(h.cls, name, after=self.after)
        if r is None:
            if name == "__init__":
                return VFunc("object.__init__", lambda a, k, s, e: NONEV)
            raise Unsupported(f"super().{name} not found")
        kind, target, owner = r
        ref = self.ref
        if kind == "lib":
            eng.used_trusted.add(f"lib:{owner}.{name}")
            return VFunc(f"{owner}.{name}", lambda a, k, s, e: target([ref] + list(a), k, s, e))
        return VFunc(f"{owner}.{name}", lambda a, k, s, e: e.inline(target, ref, a, k, s))


def make_spec_builtins(eng):
    S = {}

    def reg(name):
        def deco(f):
            S[name] = VFunc(name, f)
            return f
        return deco

    @reg("IsScalar")
    def _is_scalar(args, kwargs, st, eng):
        return VBool(isinstance(eng.deref(args[0], st), (VInt, VReal, VBool)))

    @reg("implies")
    def _implies(args, kwargs, st, eng):
        return VBool(z3.Implies(eng.truth(args[0], st), eng.truth(args[1], st)))

    @reg("iff")
    def _iff(args, kwargs, st, eng):
        return VBool(eng.truth(args[0], st) == eng.truth(args[1], st))

    @reg("ite")
    def _ite(args, kwargs, st, eng):
        return ite(eng.truth(args[0], st), args[1], args[2])

    @reg("Len")
    def _Len(args, kwargs, st, eng):
        return eng.builtins["len"].fn(args, kwargs, st, eng)

    @reg("isnone")
    def _isnone(args, kwargs, st, eng):
        v = args[0]
        return VBool(v.isnone if isinstance(v, VOpt) else isinstance(v, VNone))

    @reg("val")
    def _val(args, kwargs, st, eng):
        v = args[0]
        if isinstance(v, VNone):
            return fresh(INT, "val_of_none")      # only meaningful under a guard that excludes None
        return v.inner if isinstance(v, VOpt) else v

    def _proj(k):
        def f(args, kwargs, st, eng):
            v = eng.deref(args[0], st)
            if isinstance(v, VTuple) and len(v.elems) > k:
                return v.elems[k]
            return fresh(VAL, "noproj")
        return f
    S["Fst"] = VFunc("Fst", _proj(0))
    S["Snd"] = VFunc("Snd", _proj(1))

    @reg("IsPair")
    def _ispair(args, kwargs, st, eng):
        v = eng.deref(args[0], st)
        return VBool(isinstance(v, VTuple) and len(v.elems) == 2)

    @reg("b2i")
    def _b2i(args, kwargs, st, eng):
        return VInt(z3.If(eng.truth(args[0], st), 1, 0))

    @reg("CeilInt")
    def _ceilint(args, kwargs, st, eng):
        return VInt(-z3.ToInt(-_e.to_real(args[0])))

    @reg("cdiv")
    def _cdiv(args, kwargs, st, eng):
        a, b = _e.to_int(args[0]), _e.to_int(args[1])
        return VInt((a + b - 1) / b)

    return S


# ----------------------------------------------------------------------------- stdlib contracts
@lib("bisect.bisect_right")
def _bisect_right(args, kwargs, st, eng):
    """sorted a: returns d in [0, len] with a[k] <= x for k < d and a[k] > x for k >= d.
    The sortedness of `a` is an obligation at the call site."""
    a = eng.as_seq(args[0], st)
    x = _e.to_int(eng.deref(args[1], st))
    i, j, k = z3.Int(uid("i")), z3.Int(uid("j")), z3.Int(uid("k"))
    srt = z3.ForAll([i, j], z3.Implies(z3.And(0 <= i, i <= j, j < a.len), _e.to_int(a.elem(i)) <= _e.to_int(a.elem(j))))
    eng.safety(st, "bisect:sorted", srt, None, "bisect on a sequence not known to be sorted")
    d = z3.Int(uid("bisect"))
    st.assume(0 <= d, d <= a.len,
              z3.ForAll([k], z3.Implies(z3.And(0 <= k, k < d), _e.to_int(a.elem(k)) <= x)),
              z3.ForAll([k], z3.Implies(z3.And(d <= k, k < a.len), _e.to_int(a.elem(k)) > x)))
    return VInt(d)


@lib("math.ceil")
def _ceil(args, kwargs, st, eng):
    v = eng.deref(args[0], st)
    if isinstance(v, VInt): return v
    return VInt(-z3.ToInt(-v.t))


@lib("math.floor")
def _floor(args, kwargs, st, eng):
    v = eng.deref(args[0], st)
    if isinstance(v, VInt): return v
    return VInt(z3.ToInt(v.t))


# ----------------------------------------------------------------------------- torch.utils.data
LIB_CLASSES["torch.utils.data.ConcatDataset"] = {"bases": ["object"]}
LIB_CLASSES["torch.utils.data.Dataset"] = {"bases": ["object"]}


@lib("torch.utils.data.ConcatDataset.__init__")
def _concat_init(args, kwargs, st, eng):
    """torch ConcatDataset.__init__(datasets): stores list(datasets) and cumulative_sizes = running sum of their
    lengths (hence non-decreasing, same length). Raises on an empty list (torch asserts len > 0)."""
    ref, ds = args[0], eng.as_seq(args[1], st)
    eng.safety(st, "ConcatDataset:nonempty", ds.len > 0, None, "ConcatDataset needs at least one dataset")
    name = uid("cumsizes")
    cs = z3.Function(name, z3.IntSort(), z3.IntSort())
    k, i, j = z3.Int(uid("k")), z3.Int(uid("i")), z3.Int(uid("j"))

    def ln(t):
        return eng.builtins["len"].fn([ds.elem(t)], {}, st, eng).t
    st.assume(cs(0) == ln(z3.IntVal(0)),
              z3.ForAll([k], z3.Implies(z3.And(0 <= k, k + 1 < ds.len), cs(k + 1) == cs(k) + ln(k + 1))),
              z3.ForAll([k], z3.Implies(z3.And(0 <= k, k < ds.len), ln(k) >= 0)),
              z3.ForAll([i, j], z3.Implies(z3.And(0 <= i, i <= j, j < ds.len), cs(i) <= cs(j))))
    obj = st.heap[ref.oid]
    obj.fields["datasets"] = st.alloc(ds)
    obj.fields["cumulative_sizes"] = st.alloc(VSeq(ds.len, lambda t: VInt(cs(t)), INT))
    return [(st, NONEV)]


@lib("torch.utils.data.ConcatDataset.__len__")
def _concat_len(args, kwargs, st, eng):
    obj = st.heap[args[0].oid]
    cs = eng.deref(obj.fields["cumulative_sizes"], st)
    return [(st, cs.elem(cs.len - 1))]


def _default_collate_obj():
    from .absobj import AbsCallable, default_collate_handler

    class _DC(AbsCallable):
        def call_method(self, name, args, kwargs, st, eng):
            from .absobj import AbsBatch
            if name == "__call__" and args and isinstance(eng.deref(args[0], st), AbsBatch):
                return [(st, default_collate_handler(args, kwargs, st, eng))]
            return super().call_method(name, args, kwargs, st, eng)
    return _DC("torch.default_collate", ())


LIB_OBJECTS["torch.utils.data.default_collate"] = _default_collate_obj


@lib("functools.partial")
def _partial(args, kwargs, st, eng):
    f, bound, bkw = args[0], list(args[1:]), dict(kwargs)

    def fn(a, k, s, e):
        return e.call(f, bound + list(a), dict(bkw, **k), s, None)
    return VFunc("partial", fn)


LIB["logging.getLogger"] = lambda a, k, s, e: fresh(VAL, "logger")
