"""The pyvc engine: extraction of the real functions from /repo, module/class model, inlining, contract calls,
verification driver."""
import ast
import hashlib
import os
import z3
from .values import *  # noqa
from .state import *  # noqa
from .expr import *  # noqa
from .stmt import *  # noqa
from . import lib as _lib
from . import absobj as _abs
from . import libtorch as _lt
from . import libimg as _li
from .expr import to_int as _e_to_int
from .expr import to_real as _e_to_real

REPO = os.environ.get("KAPPADATA_REPO", "/repo")


class ModuleInfo:
    def __init__(self, relpath):
        self.relpath = relpath
        path = os.path.join(REPO, relpath)
        self.src = open(path).read()
        self.sha256 = hashlib.sha256(self.src.encode()).hexdigest()
        self.tree = ast.parse(self.src)
        self.imports = {}      # local name -> dotted
        self.classes = {}      # name -> ClassDef
        self.functions = {}    # name -> FunctionDef
        self.globals = {}      # name -> ast expr (simple module-level assignments)
        pkg = relpath[:-3].replace("/", ".").rsplit(".", 1)[0]
        for n in self.tree.body:
            if isinstance(n, ast.Import):
                for a in n.names:
                    self.imports[a.asname or a.name.split(".")[0]] = a.name if a.asname else a.name.split(".")[0]
            elif isinstance(n, ast.ImportFrom):
                mod = n.module or ""
                if n.level:
                    base = pkg.split(".")
                    base = base[:len(base) - (n.level - 1)]
                    mod = ".".join(base + ([mod] if mod else []))
                for a in n.names:
                    self.imports[a.asname or a.name] = f"{mod}.{a.name}"
            elif isinstance(n, ast.ClassDef):
                self.classes[n.name] = n
            elif isinstance(n, ast.FunctionDef):
                self.functions[n.name] = n
            elif isinstance(n, ast.Assign) and len(n.targets) == 1 and isinstance(n.targets[0], ast.Name):
                self.globals[n.targets[0].id] = n.value


class _NoClobber(dict):
    """spec vocabulary: a second library must not silently redefine a spec function another property's contracts use"""
    def __setitem__(self, k, v):
        if k in self:
            raise RuntimeError(f"spec builtin {k} defined twice")
        super().__setitem__(k, v)


class Engine(ExprMixin, StmtMixin):
    max_paths = 4000
    no_merge = False

    def __init__(self):
        self.obligations = []
        self.spec_depth = 0
        self.spec_env = []
        self.defs = {}
        self.ghost_visible = set()
        self.loop_env = []
        self.pending_raises = []
        self._spec_cache = {}
        self._modules = {}
        self.cur_fi = None
        self.cur_contract = {}
        self.lib_overrides = {}
        self.comp_index = None
        self.comp_site = None
        self.cur_func = ""
        self.contracts = {}          # "relpath::Qual" -> contract dict
        self.used_trusted = set()    # names of library contracts / inlined helpers actually used
        self.inlined = set()
        self.functions_under_contract = []
        self.builtins = _lib.make_builtins(self)
        self.spec_builtins = _NoClobber(_lib.make_spec_builtins(self))
        self.depth = 0
        self.join_mode = 0
        self.externals = dict(_lt.DEFAULT_EXTERNALS)
        self.cur_call_node = None
        _abs.install_spec_builtins(self)
        _lt.install_spec_builtins(self)
        _li.install_spec_builtins(self)
        from . import libmask as _lm
        _lm.install(self)
        from . import libtensor as _ltn
        _ltn.install(self)

    # ------------------------------------------------------------------ modules / classes
    def module(self, relpath):
        if relpath not in self._modules:
            self._modules[relpath] = ModuleInfo(relpath)
        return self._modules[relpath]

    def dotted_to_relpath(self, dotted):
        """kappadata.x.y.Name -> (relpath, Name) if it is a repo module member"""
        parts = dotted.split(".")
        for cut in range(len(parts), 0, -1):
            p = "/".join(parts[:cut])
            if os.path.isfile(os.path.join(REPO, p + ".py")):
                return p + ".py", parts[cut:]
            if os.path.isfile(os.path.join(REPO, p, "__init__.py")):
                return p + "/__init__.py", parts[cut:]
        return None, None

    def resolve_dotted(self, dotted, seen=()):
        """follow re-exports through __init__ files to the defining module: -> (ModuleInfo, name) or None"""
        rel, rest = self.dotted_to_relpath(dotted)
        if rel is None or len(rest) != 1 or dotted in seen:
            return None
        m = self.module(rel)
        name = rest[0]
        if name in m.classes or name in m.functions or name in m.globals:
            return m, name
        if name in m.imports:
            return self.resolve_dotted(m.imports[name], seen + (dotted,))
        return None

    def module_name(self, name):
        m = self.cur_fi.module if self.cur_fi else None
        if m is None:
            return None
        if name in m.classes:
            return VClass(f"{m.relpath}::{name}")
        if name in m.functions:
            return self.repo_function(m, name)
        if name in m.imports:
            dotted = m.imports[name]
            if dotted.startswith("kappadata"):
                r = self.resolve_dotted(dotted)
                if r is not None:
                    m2, n2 = r
                    if n2 in m2.classes:
                        return VClass(f"{m2.relpath}::{n2}")
                    if n2 in m2.functions:
                        return self.repo_function(m2, n2)
                rel, rest = self.dotted_to_relpath(dotted)
                if rel is not None and not rest:
                    return VModule(dotted)
            h = self.lib_overrides.get(dotted) or _lib.LIB.get(dotted)
            if h is not None:
                self.used_trusted.add(f"lib:{dotted}")
                return VFunc(dotted, h)
            if dotted in _lib.LIB_CLASSES:
                return VClass(dotted)
            if dotted in _lib.LIB_OBJECTS:
                self.used_trusted.add(f"lib:{dotted}")
                return _lib.LIB_OBJECTS[dotted]()
            return VModule(dotted)
        if name in m.globals:
            return self.ev1_plain(m.globals[name])
        return None

    def ev1_plain(self, node):
        st = State()
        r = self.ev(node, st)
        return r[0][1]

    def module_attr(self, base, attr, node):
        dotted = f"{base.name}.{attr}"
        h = self.lib_overrides.get(dotted) or _lib.LIB.get(dotted)
        if h is not None:
            self.used_trusted.add(f"lib:{dotted}")
            return VFunc(dotted, h)
        if dotted in _lib.LIB_CLASSES:
            return VClass(dotted)
        if dotted.startswith("kappadata"):
            r = self.resolve_dotted(dotted)
            if r is not None:
                m2, n2 = r
                return VClass(f"{m2.relpath}::{n2}") if n2 in m2.classes else self.repo_function(m2, n2)
        return VModule(dotted)

    def repo_function(self, m, name):
        fi = FuncInfo(m.functions[name], m, None)
        key = f"{m.relpath}::{name}"

        def fn(args, kwargs, st, eng):
            if key in eng.externals:
                eng.used_trusted.add(f"assumed-contract:{key}")
                r = eng.externals[key](args, kwargs, st, eng)
                return r if isinstance(r, list) else [(st, r)]
            if eng.spec_depth:
                return eng.pure_call(fi, None, args, kwargs, st)
            c = eng.contracts.get(key)
            if c is not None and not c.get("inline"):
                return eng.call_contract(c, fi, None, args, kwargs, st)
            return eng.inline(fi, None, args, kwargs, st)
        return VFunc(key, fn)

    def class_def(self, clsid):
        """clsid 'relpath::Name' -> (ModuleInfo, ClassDef)"""
        rel, name = clsid.split("::")
        m = self.module(rel)
        return m, m.classes[name]

    def bases_of(self, clsid):
        """-> list of base ids: 'relpath::Name' for repo classes, dotted for library classes"""
        if "::" not in clsid:
            return _lib.LIB_CLASSES.get(clsid, {}).get("bases", [])
        m, cd = self.class_def(clsid)
        res = []
        for b in cd.bases:
            if isinstance(b, ast.Name):
                n = b.id
                if n in m.classes:
                    res.append(f"{m.relpath}::{n}")
                elif n in m.imports:
                    r = self.resolve_dotted(m.imports[n]) if m.imports[n].startswith("kappadata") else None
                    res.append(f"{r[0].relpath}::{r[1]}" if r else m.imports[n])
                else:
                    res.append(n)
            else:
                res.append(ast.unparse(b))
        return res

    def mro(self, clsid):
        res, todo = [], [clsid]
        while todo:
            c = todo.pop(0)
            if c in res:
                continue
            res.append(c)
            todo = self.bases_of(c) + todo if False else todo + self.bases_of(c)
        return res

    def find_method(self, clsid, name, after=None):
        """-> ('repo', FuncInfo, clsid) | ('lib', handler, clsid) | None. `after`: start after this class (super())"""
        mro = self.mro(clsid)
        if after is not None:
            mro = mro[mro.index(after) + 1:]
        for c in mro:
            if "::" in c:
                m, cd = self.class_def(c)
                for n in cd.body:
                    if isinstance(n, ast.FunctionDef) and n.name == name:
                        return "repo", FuncInfo(n, m, cd.name), c
            else:
                h = _lib.LIB.get(f"{c}.{name}")
                if h is not None:
                    return "lib", h, c
        return None

    def class_assigns(self, clsid, attr):
        """does any method of the class (or a repo base) store self.<attr>?"""
        for c in self.mro(clsid):
            if "::" not in c:
                continue
            m, cd = self.class_def(c)
            for n in ast.walk(cd):
                if isinstance(n, ast.Attribute) and n.attr == attr and isinstance(n.ctx, ast.Store) \
                        and isinstance(n.value, ast.Name) and n.value.id == "self":
                    return True
        return False

    def is_subclass(self, clsid, other):
        return other in self.mro(clsid)

    def class_attr(self, clsid, attr):
        """value of a class-level assignment `attr = <expr>` found along the MRO (evaluated in that class's module)"""
        for c in self.mro(clsid):
            if "::" not in c:
                continue
            m, cd = self.class_def(c)
            for n in cd.body:
                if isinstance(n, ast.Assign) and any(isinstance(t, ast.Name) and t.id == attr for t in n.targets):
                    saved = self.cur_fi
                    self.cur_fi = FuncInfo(ast.parse("def _f(): pass").body[0], m, cd.name)
                    try:
                        return self.ev1_plain(n.value)
                    finally:
                        self.cur_fi = saved
        return None

    def bound_method(self, ref, h, attr, st):
        r = self.find_method(h.cls, attr)
        if r is None:
            return self.class_attr(h.cls, attr)
        kind, target, owner = r
        if kind == "lib":
            self.used_trusted.add(f"lib:{owner}.{attr}")
            return VFunc(f"{owner}.{attr}", lambda args, kwargs, s, eng: target([ref] + list(args), kwargs, s, eng))
        fi = target
        decos = [ast.unparse(d) for d in fi.node.decorator_list]
        key = f"{fi.module.relpath}::{fi.qual}"

        def fn(args, kwargs, s, eng, fi=fi, key=key):
            if eng.spec_depth:
                return eng.pure_call(fi, ref, args, kwargs, s)
            c = eng.contracts.get(key)
            if c is not None and not c.get("inline"):
                return eng.call_contract(c, fi, ref, args, kwargs, s)
            return eng.inline(fi, ref, args, kwargs, s)
        if "property" in decos:
            return fn([], {}, st, self)
        if "staticmethod" in decos:
            return VFunc(key, lambda args, kwargs, s, eng: eng.inline(fi, None, args, kwargs, s))
        return VFunc(key, fn)

    def list_method(self, ref, attr):
        def fn(args, kwargs, st, eng):
            cur = st.heap[ref.oid]
            if attr == "append":
                v = args[0]
                if isinstance(v, VRef) and isinstance(st.heap[v.oid], VSeq):
                    v = st.heap[v.oid]
                if cur.concrete is not None:
                    new = VSeq.of(cur.concrete + [v], typeof(v) if not cur.concrete else cur.etype)
                else:
                    new = VSeq(cur.len + 1, lambda i, cur=cur, v=v: ite(i == cur.len, v, cur.elem(i)), cur.etype)
                if isinstance(v, VSeq):
                    oldflat = getattr(cur, "flat", None)
                    if oldflat is None and cur.concrete is not None and not cur.concrete:
                        oldflat = z3.IntVal(0)
                    if oldflat is not None:
                        new.flat = oldflat + v.len
                st.heap[ref.oid] = new
                return [(st, NONEV)]
            if attr == "extend":
                st.heap[ref.oid] = eng.seq_concat(cur, eng.as_seq(args[0], st))
                return [(st, NONEV)]
            if attr == "index":
                return eng.seq_method(cur, "index")(args, kwargs, st, eng)
            if attr == "copy":
                return [(st, st.alloc(cur))]
            return eng.seq_method(cur, attr)(args, kwargs, st, eng)
        return fn

    def seq_method(self, sq, attr):
        def fn(args, kwargs, st, eng):
            if attr == "index":
                x = args[0]
                r = z3.Int(uid("index"))
                k = z3.Int(uid("k"))
                eng.safety(st, "list.index:present", eng.contains(sq, x, st, None), None, "list.index of absent value")
                st.assume(0 <= r, r < sq.len, veq(sq.elem(r), x),
                          z3.ForAll([k], z3.Implies(z3.And(0 <= k, k < r), z3.Not(veq(sq.elem(k), x)))))
                return [(st, VInt(r))]
            if attr == "tolist":
                return [(st, eng.fresh_list(VSeq(sq.len, sq.elem, sq.etype, sq.concrete), st))]
            if attr == "numpy":
                r = VSeq(sq.len, sq.elem, sq.etype)
                r.kind = z3.IntVal(2)
                return [(st, r)]
            if attr == "repeat_interleave":
                r = _e_to_int(eng.deref(kwargs.get("repeats", args[0] if args else None), st))
                eng.safety(st, "repeat_interleave:positive", r > 0, None, "repeats must be positive in the model", kind="model")
                return [(st, VSeq(sq.len * r, lambda i: sq.elem(i / r), sq.etype))]
            if attr == "item":
                return [(st, sq.elem(z3.IntVal(0)))]
            if attr in ("roll", "flip") and isinstance(sq.etype, TInt) and not eng.spec_depth:
                # integer index tensors: the result is named by a fresh function (defined by a quantified equation with the
                # application as its pattern), so that later quantified facts about result[k] have an arithmetic-free trigger
                sh = _e_to_int(eng.deref(kwargs.get("shifts", args[0] if args else None), st)) if attr == "roll" else None
                f = z3.Function(uid("idx_" + attr), z3.IntSort(), z3.IntSort())
                k = z3.Int(uid("k"))
                src = (lambda kk: _e_to_int(sq.elem((kk - sh) % sq.len))) if attr == "roll" else (lambda kk: _e_to_int(sq.elem(sq.len - 1 - kk)))
                st.assume(z3.ForAll([k], f(k) == src(k), patterns=[f(k)]))
                r = VSeq(sq.len, lambda kk: VInt(f(kk if z3.is_expr(kk) else _e_to_int(kk))), INT)
                r.kind = sq.kind
                return [(st, r)]
            if attr == "roll":
                sh = _e_to_int(eng.deref(kwargs.get("shifts", args[0] if args else None), st))
                r = VSeq(sq.len, lambda k: sq.elem((k - sh) % sq.len), sq.etype)
                r.kind = sq.kind
                return [(st, r)]
            if attr == "flip":
                r = VSeq(sq.len, lambda k: sq.elem(sq.len - 1 - k), sq.etype)
                r.kind = sq.kind
                return [(st, r)]
            if attr == "clone":
                r = VSeq(sq.len, sq.elem, sq.etype, sq.concrete)
                r.kind = sq.kind
                return [(st, r)]
            if attr == "nonzero" and isinstance(sq.etype, TBool):
                from .libtorch import seq_filter
                r = seq_filter(st, eng, sq.len, lambda p: sq.elem(p).t, lambda p: VInt(p), INT, "nonzero")
                r.kind = sq.kind
                if sq.kind is not None and z3.is_int_value(sq.kind) and sq.kind.as_long() == 2:
                    return [(st, VTuple([r]))]          # numpy: tuple of index arrays
                return [(st, r)]
            if attr in ("max", "min", "sum") and not args and not kwargs and isinstance(sq.etype, (TInt, TReal)):
                isint = isinstance(sq.etype, TInt)
                conv = _e_to_int if isint else _e_to_real
                m = z3.Int(uid("seq_" + attr)) if isint else z3.Real(uid("seq_" + attr))
                k, j = z3.Int(uid("k")), z3.Int(uid("j"))
                if attr == "sum":
                    # only what is needed: a sum of non-negative terms dominates each term
                    st.assume(z3.Implies(z3.ForAll([k], z3.Implies(z3.And(0 <= k, k < sq.len), conv(sq.elem(k)) >= 0)),
                                         z3.ForAll([j], z3.Implies(z3.And(0 <= j, j < sq.len), m >= conv(sq.elem(j))))))
                    st.assume(z3.Implies(sq.len == 0, m == 0))
                else:
                    eng.safety(st, f"seq.{attr}:non-empty", sq.len > 0, None, f"{attr}() of an empty tensor raises")
                    w = z3.Int(uid("witness"))
                    st.assume(0 <= w, w < sq.len, m == conv(sq.elem(w)),
                              z3.ForAll([k], z3.Implies(z3.And(0 <= k, k < sq.len), conv(sq.elem(k)) <= m if attr == "max" else conv(sq.elem(k)) >= m)))
                return [(st, VInt(m) if isint else VReal(m))]
            if attr in ("sqrt", "floor", "float", "double") and isinstance(sq.etype, (TInt, TReal)) and attr != "long":
                if attr == "sqrt":
                    f = z3.Function("RSqrt", z3.RealSort(), z3.RealSort())
                    k = z3.Int(uid("k"))
                    st.assume(z3.ForAll([k], z3.Implies(_e_to_real(sq.elem(k)) >= 0, f(_e_to_real(sq.elem(k))) >= 0)))
                    r = VSeq(sq.len, lambda i: VReal(f(_e_to_real(sq.elem(i)))), REAL)
                elif attr == "floor":
                    r = VSeq(sq.len, lambda i: VReal(z3.ToReal(z3.ToInt(_e_to_real(sq.elem(i))))), REAL)
                else:
                    r = VSeq(sq.len, lambda i: VReal(_e_to_real(sq.elem(i))), REAL)
                r.kind = sq.kind
                return [(st, r)]
            if attr == "type" and isinstance(sq.etype, TReal) and args and "long" in repr(args[0]):
                # .type(torch.long): truncation towards zero
                def trunc(x):
                    return z3.If(x >= 0, z3.ToInt(x), -z3.ToInt(-x))
                r = VSeq(sq.len, lambda i: VInt(trunc(_e_to_real(sq.elem(i)))), INT)
                r.kind = sq.kind
                return [(st, r)]
            if attr in ("view", "reshape", "type", "to"):
                return [(st, sq)]           # same elements (only the leading dimension is modelled)
            if attr in ("long", "int", "contiguous"):
                return [(st, sq)]
            if attr == "squeeze":
                return [(st, sq)]
            if attr == "unique" and isinstance(sq.etype, TInt) and not args and set(kwargs) <= {"return_counts"}:
                # assumed contract of torch.Tensor.unique (sorted=True default): the strictly increasing enumeration of the values that
                # occur, every count >= 1 (nothing is said about the counts beyond that)
                name = uid("unique")
                U = z3.Function(name + "$val", z3.IntSort(), z3.IntSort())
                Wt = z3.Function(name + "$wit", z3.IntSort(), z3.IntSort())
                Ix = z3.Function(name + "$idx", z3.IntSort(), z3.IntSort())
                Cn = z3.Function(name + "$cnt", z3.IntSort(), z3.IntSort())
                ln = z3.Int(name + "$len")
                k, j = z3.Int(uid("k")), z3.Int(uid("j"))
                st.assume(ln >= 0, ln <= sq.len,
                          z3.ForAll([k], z3.Implies(z3.And(0 <= k, k + 1 < ln), U(k) < U(k + 1)), patterns=[U(k + 1)]),
                          z3.ForAll([k], z3.Implies(z3.And(0 <= k, k < ln), z3.And(0 <= Wt(k), Wt(k) < sq.len, _e_to_int(sq.elem(Wt(k))) == U(k),
                                                                                  Cn(k) >= 1)), patterns=[U(k)]),
                          z3.ForAll([j], z3.Implies(z3.And(0 <= j, j < sq.len), z3.And(0 <= Ix(j), Ix(j) < ln, U(Ix(j)) == _e_to_int(sq.elem(j)))),
                                    patterns=[Ix(j)]))
                eng.used_trusted.add("model:torch.Tensor.unique (sorted distinct values that occur, counts >= 1)")
                u = VSeq(ln, lambda t: VInt(U(t)), INT); u.kind = sq.kind
                rc = kwargs.get("return_counts")
                if rc is None or z3.is_false(z3.simplify(eng.truth(rc, st))):
                    return [(st, u)]
                cn = VSeq(ln, lambda t: VInt(Cn(t)), INT); cn.kind = sq.kind
                return [(st, VTuple([u, cn]))]
            raise Unsupported(f"seq.{attr}")
        return fn

    # ------------------------------------------------------------------ obligations
    def oblige(self, st, name, kind, goal, node=None, note=""):
        if self.spec_depth:
            return
        if isinstance(goal, bool):
            goal = z3.BoolVal(goal)
        where = ""
        if node is not None and hasattr(node, "lineno") and self.cur_fi is not None:
            where = f"{self.cur_fi.module.relpath}:{node.lineno}"
        prefix = self.top_func
        if self.cur_func != self.top_func:
            name = f"in:{self.cur_func.split('::')[-1]}:{name}"
        self.obligations.append(Obligation(f"{prefix}:{name}", kind, st.pc, goal, where, note, func=self.top_func))

    def safety(self, st, name, cond, node, note, kind="safety", assume=True):
        if self.spec_depth:
            return
        c = z3.simplify(cond) if not isinstance(cond, bool) else z3.BoolVal(cond)
        if z3.is_true(c):
            return
        self.oblige(st, name, kind, c, node, note)
        if not assume:
            return
        st.assume(c)

    # ------------------------------------------------------------------ inlining / contracts
    def bind_args(self, fnode, self_val, args, kwargs, st, eval_defaults_in):
        a = fnode.args
        params = [p.arg for p in a.posonlyargs + a.args]
        local = {}
        args = list(args)
        if self_val is not None:
            args = [self_val] + args
        if len(args) > len(params) and a.vararg is None:
            raise Unsupported(f"too many positional arguments for {fnode.name}")
        for p, v in zip(params, args):
            local[p] = v
        if a.vararg is not None:
            local[a.vararg.arg] = VTuple(args[len(params):])
        defaults = dict(zip(params[len(params) - len(a.defaults):], a.defaults))
        for p in params[len(args):]:
            if p in kwargs:
                local[p] = kwargs.pop(p)
            elif p in defaults:
                local[p] = self.ev1_plain(defaults[p])
            else:
                raise Unsupported(f"missing argument {p} for {fnode.name}")
        for p, d in zip(a.kwonlyargs, a.kw_defaults):
            if p.arg in kwargs:
                local[p.arg] = kwargs.pop(p.arg)
            elif d is not None:
                local[p.arg] = self.ev1_plain(d)
            else:
                raise Unsupported(f"missing kw-only argument {p.arg}")
        if kwargs:
            if a.kwarg is not None:
                local[a.kwarg.arg] = VRec("kwargs", dict(kwargs))
            else:
                raise Unsupported(f"unexpected keyword arguments {list(kwargs)} for {fnode.name}")
        elif a.kwarg is not None:
            local[a.kwarg.arg] = VRec("kwargs", {})
        return local

    def inline(self, fi, self_val, args, kwargs, st, closure=None):
        """symbolically execute a repo function body at a call site -> list[(st, V)]"""
        if self.depth > 12:
            raise Unsupported(f"inlining depth exceeded at {fi.qual}")
        key = f"{fi.module.relpath}::{fi.qual}"
        if self.depth > 0:
            self.inlined.add(key)
        saved = (self.cur_fi, self.cur_contract, self.cur_func, self.defs, self.loop_env)
        callee_contract = self.contracts.get(key, {}) if closure is None else {}
        st2 = st if self.spec_depth else st
        caller_locals = st2.locals
        new_locals = dict(closure) if closure is not None else {}
        new_locals.update(self.bind_args(fi.node, self_val, list(args), dict(kwargs), st2, None))
        st2.locals = new_locals
        self.cur_fi, self.cur_contract, self.cur_func = fi, callee_contract, key
        if callee_contract.get("defs"):
            self.defs = dict(self.defs, **callee_contract["defs"])
        self.loop_env = []
        self.depth += 1
        out = []
        try:
            if fi.is_generator and self.depth > 1:
                # a generator object: its body runs when iterated; here: eagerly, yields handled by its own specs
                pass
            results = self.exec_block(fi.node.body, st2)
        finally:
            self.depth -= 1
            self.cur_fi, self.cur_contract, self.cur_func, self.defs, self.loop_env = saved
        for s, oc in results:
            s.locals = dict(caller_locals)
            if oc[0] == RET:
                out.append((s, oc[1]))
            elif oc[0] == NEXT:
                out.append((s, NONEV))
            elif oc[0] == RAISE:
                self.pending_raises.append((s, oc[1]))
            else:
                raise Unsupported(f"outcome {oc[0]} escapes function {fi.qual}")
        return out

    def pure_call(self, fi, self_val, args, kwargs, st):
        """a repo function called from a spec expression: executed on a scratch copy of the state (no obligations,
        no effects on the real state); forked results are joined"""
        scratch = st.fork()
        saved_env, self.spec_env = self.spec_env, []
        try:
            res = self.inline(fi, self_val, args, kwargs, scratch)
        finally:
            self.spec_env = saved_env
        self.pending_raises = []
        if len(res) == 1:
            v = res[0][1]
            return [(st, self.deref(v, res[0][0]) if isinstance(v, VRef) and isinstance(res[0][0].heap.get(v.oid), VSeq) else v)]
        for s_, v in res:
            s_.locals = dict(s_.locals, __join=self.deref(v, s_) if isinstance(v, VRef) and isinstance(s_.heap.get(v.oid), VSeq) else v)
        m = merge_states([s_ for s_, _ in res])
        if m is None:
            raise SpecError(f"cannot join the paths of {fi.qual} called from a spec")
        return [(st, m.locals["__join"])]

    def construct(self, cls, args, kwargs, st, node):
        clsid = cls.name
        if "::" not in clsid:
            info = _lib.LIB_CLASSES.get(clsid)
            if info is None or "construct" not in info:
                raise Unsupported(f"construction of library class {clsid}", node)
            self.used_trusted.add(f"lib:{clsid}")
            return info["construct"](args, kwargs, st, self)
        m, cd = self.class_def(clsid)
        decos = [ast.unparse(d) for d in cd.decorator_list]
        ref = st.alloc(HObj(clsid, {}))
        if "dataclass" in decos:
            fields = [(n.target.id, n.value) for n in cd.body if isinstance(n, ast.AnnAssign)]
            vals = list(args)
            for i, (f, d) in enumerate(fields):
                if i < len(vals):
                    v = vals[i]
                elif f in kwargs:
                    v = kwargs[f]
                elif d is not None:
                    v = self.ev1_plain(d)
                else:
                    raise Unsupported(f"dataclass field {f} missing", node)
                st.heap[ref.oid].fields[f] = v
            return [(st, ref)]
        r = self.find_method(clsid, "__init__")
        if r is None:
            return [(st, ref)]
        kind, target, owner = r
        if kind == "lib":
            self.used_trusted.add(f"lib:{owner}.__init__")
            res = target([ref] + list(args), kwargs, st, self)
            return [(s, ref) for s, _ in res]
        return [(s, ref) for s, _ in self.inline(target, ref, args, kwargs, st)]

    def call_contract(self, c, fi, self_val, args, kwargs, st):
        """modular call: assert requires, havoc frame, assume ensures"""
        key = c["target"]
        self.used_trusted.discard(None)
        local = self.bind_args(fi.node, self_val, list(args), dict(kwargs), st, None)
        saved_locals, saved_defs, saved_fi = st.locals, self.defs, self.cur_fi
        st.locals = local
        self.defs = dict(self.defs, **c.get("defs", {}))
        cur_fi, self.cur_fi = self.cur_fi, fi
        try:
            pre = st.fork()
            pre.old = None
            for i, e in enumerate(c.get("requires", [])):
                self.cur_fi = saved_fi
                g = None
                self.cur_fi = fi
                g = self.spec_bool(e, st, {})
                self.cur_fi = saved_fi
                self.oblige(st, f"call:{fi.qual}:requires{i}", "vc", g, None, note=f"precondition of {fi.qual}: {e}")
                self.cur_fi = fi
            # frame
            for fld in c.get("modifies", []):
                obj = st.heap[self_val.oid]
                if fld in obj.fields:
                    obj.fields[fld] = self.havoc_value(obj.fields[fld], st, f"{fld}@call")
            # ghost frame of a modular call: the callee may change every ghost variable its own contract declares (its ensures then say
            # what they are afterwards); assuming post-conditions about unchanged ghost state would contradict the caller's knowledge
            # of the pre-state and silently exclude the very cases the callee acts on. `modifies_ghost` narrows the frame explicitly.
            frame = c.get("modifies_ghost")
            if frame is None:
                frame = [g for g in c.get("ghost", {}) if g != "g_gridver" and g != "g_btver"]
            for g in frame:
                if g in st.ghost:
                    st.ghost[g] = self.havoc_value(st.ghost[g], st, f"{g}@call")
            for pname in c.get("modifies_grid", []):
                grid = self.deref(local[pname], st)
                grid.set_ver(st, z3.Int(uid(f"gridver@{fi.node.name}")))
            rt = c.get("returns")
            result = fresh(rt, f"ret_{fi.node.name}") if rt is not None else NONEV
            if rt is not None:
                acc = []
                seq_len_nonneg(result, acc)
                st.assume(*acc)
            old_old = st.old
            st.old = pre
            for e in c.get("ensures", []):
                for flat in self.flatten_spec(e):
                    st.assume(self.spec_bool(flat, st, {"result": result}))
            st.old = old_old
        finally:
            st.locals = saved_locals
            self.defs = saved_defs
            self.cur_fi = saved_fi
        self.used_trusted.add(f"contract:{key}")
        if isinstance(result, VSeq):
            result = st.alloc(result)
        return [(st, result)]

    @staticmethod
    def flatten_spec(e):
        """a spec entry as plain spec strings for ASSUMING it: isolated lemmas contribute their goal, forall-blocks one quantified
        formula per assertion"""
        if isinstance(e, str):
            return [e]
        if isinstance(e, tuple):
            return [e[0]]
        if isinstance(e, dict) and "forall" in e:
            out = []
            for a in e["asserts"]:
                for g in Engine.flatten_spec(a):
                    out.append(f"forall(lambda {e['forall']}: implies({e['range']}, {g}))")
            return out
        raise SpecError(f"cannot assume spec entry {e!r}")

    def make_macro_bound(self, macro, st0):
        """a macro usable from library handlers (evaluated against the pre-state it was bound in)"""
        params, body = self.defs[macro]

        def fn(args, kwargs, st, eng):
            env = dict(zip(params, args))
            saved = eng.spec_depth
            eng.spec_depth += 1
            try:
                return [(st, eng.spec_val(body, st, env))]
            finally:
                eng.spec_depth = saved
        return fn

    def induction(self, st, name, var, lo, hi, prop, env, node):
        """mathematical induction over lo <= var <= hi: base and step are obligations, the universally
        quantified conclusion is then assumed"""
        lo_t, hi_t = _e_to_int(self.spec_val(lo, st, env)), _e_to_int(self.spec_val(hi, st, env))
        base = self.spec_bool(prop, st, dict(env, **{var: VInt(lo_t)}))
        self.oblige(st, f"{name}:base", "vc", z3.Implies(lo_t <= hi_t, base), node, note=f"{prop} at {var}={lo}")
        k = z3.Int(uid(var))
        pk = self.spec_bool(prop, st, dict(env, **{var: VInt(k)}))
        pk1 = self.spec_bool(prop, st, dict(env, **{var: VInt(k + 1)}))
        self.oblige(st, f"{name}:step", "vc", z3.Implies(z3.And(lo_t <= k, k < hi_t, pk), pk1), node,
                    note=f"{prop}: {var} -> {var}+1")
        q = z3.Int(uid(var))
        st.assume(z3.ForAll([q], z3.Implies(z3.And(lo_t <= q, q <= hi_t),
                                            self.spec_bool(prop, st, dict(env, **{var: VInt(q)})))))

    # ------------------------------------------------------------------ top level
    def _note_models(self, T_):
        """abstract domain objects that a contract's parameters / fields are typed with are assumptions about the environment"""
        if isinstance(T_, TAbs):
            try:
                probe = T_.factory("probe", None)
                doc = (type(probe).__doc__ or "").strip().split("\n\n")[0].replace("\n", " ")
                doc = " ".join(doc.split())[:260]
            except Exception:
                doc = ""
            self.used_trusted.add(f"model:{T_.label}" + (f" - {doc}" if doc else ""))
        elif isinstance(T_, (TOpt,)):
            self._note_models(T_.inner)
        elif isinstance(T_, TSeq):
            self._note_models(T_.elem)
        elif isinstance(T_, TTuple):
            for t in T_.elems:
                self._note_models(t)
        elif isinstance(T_, TRec):
            for t in T_.fields.values():
                self._note_models(t)
        elif isinstance(T_, TObj):
            for t in T_.fields.values():
                self._note_models(t)

    def make_value(self, T_, name, st):
        self._note_models(T_)
        if isinstance(T_, TDict):
            return st.alloc(HObj("builtins.dict", {"entries": VTuple([])}))
        if isinstance(T_, TOpt) and isinstance(T_.inner, TDict):
            return VOpt(z3.Bool(uid(name + "$none")), self.make_value(T_.inner, name, st))
        if isinstance(T_, TObj):
            fields = {f: self.make_value(t, f"{name}.{f}", st) for f, t in T_.fields.items()}
            return st.alloc(HObj(T_.cls, fields, T_))
        if isinstance(T_, TSeq) and T_.mutable:
            v = fresh(T_, name)
            st.assume(v.len >= 0)
            return st.alloc(v)
        v = fresh(T_, name)
        acc = []
        seq_len_nonneg(v, acc)
        st.assume(*acc)
        return v

    def locate(self, target):
        rel, qual = target.split("::")
        m = self.module(rel)
        parts = qual.split(".")
        if len(parts) == 1:
            return FuncInfo(m.functions[parts[0]], m, None)
        cd = m.classes[parts[0]]
        for n in cd.body:
            if isinstance(n, ast.FunctionDef) and n.name == parts[1]:
                return FuncInfo(n, m, parts[0])
        raise SpecError(f"function {target} not found in the current tree")

    def verify(self, c):
        """generate all obligations of one function under its sidecar contract"""
        target = c["target"]
        fi = self.locate(target)
        self.cur_fi, self.cur_contract, self.top_func = fi, c, c.get("name", target)
        self.cur_func = self.top_func
        self.defs = dict(c.get("defs", {}))
        self.loop_env = []
        self.depth = 0
        self.no_merge = not c.get("merge", True)
        self.lib_overrides = dict(c.get("lib", {}))
        self.spec_nowrap = bool(c.get("spec_nowrap"))
        if c.get("externals"):
            self.externals = dict(self.externals, **c["externals"])
        n_before = len(self.obligations)
        src = ast.get_source_segment(fi.module.src, fi.node) or ""
        self.functions_under_contract.append({
            "file": fi.module.relpath, "qualname": fi.qual, "file_sha256": fi.module.sha256,
            "lines": [fi.node.lineno, fi.node.end_lineno], "contract": self.top_func,
            "source_sha256": hashlib.sha256(src.encode()).hexdigest()})
        st = State()
        consts = {}
        st.consts = consts
        for name, T_ in c.get("consts", {}).items():
            consts[name] = self.make_value(T_, name, st) if isinstance(T_, T) else None
        for name, T_ in c.get("consts", {}).items():
            if consts[name] is None and T_ in self.defs and self.defs[T_][0]:
                consts[name] = "__macro__"
        self._late_consts = [n for n, v in consts.items() if v == "__macro__"]
        for n in self._late_consts:
            consts[n] = None
        for name, T_ in c.get("consts", {}).items():
            if consts[name] is None and name not in self._late_consts:
                consts[name] = self.spec_val(T_, st, {})
        for name, (argTs, resT) in c.get("funcs", {}).items():
            def mk(name=name, argTs=argTs, resT=resT):
                sorts = {TInt: z3.IntSort(), TBool: z3.BoolSort(), TReal: z3.RealSort(), TVal: ValSort}
                f = z3.Function(name, *[sorts[type(t)] for t in argTs], sorts[type(resT)])
                wrap = {TInt: VInt, TBool: VBool, TReal: VReal, TVal: VVal}[type(resT)]
                return VFunc(name, lambda args, kwargs, s, e: [(s, wrap(f(*[x.t for x in args])))])
            consts[name] = mk()
        # self / params
        a = fi.node.args
        pnames = [p.arg for p in a.posonlyargs + a.args + a.kwonlyargs]
        ptypes = dict(c.get("params", {}))
        if fi.cls and pnames and pnames[0] == "self":
            sc = c.get("self_class", fi.cls)
            cls_id = sc if "::" in sc else f"{fi.module.relpath}::{sc}"
            st.locals["self"] = self.make_value(TObj(cls_id, c.get("self", {})), "self", st)
        for p in pnames:
            if p == "self" and fi.cls:
                continue
            if p in c.get("concrete", {}):
                cv = c["concrete"][p]
                st.locals[p] = (VStr(cv) if isinstance(cv, str) else VBool(cv) if isinstance(cv, bool) else
                                VInt(cv) if isinstance(cv, int) else VReal(cv) if isinstance(cv, float) else NONEV)
                continue
            if p not in ptypes:
                raise SpecError(f"{target}: parameter {p} has no type in the sidecar")
            st.locals[p] = self.make_value(ptypes[p], p, st)
        if a.vararg is not None:
            st.locals[a.vararg.arg] = self.make_value(ptypes.get(a.vararg.arg, TTuple([])), a.vararg.arg, st)
        if a.kwarg is not None:
            st.locals[a.kwarg.arg] = VRec("kwargs", {})
        if c.get("relational"):
            if fi.cls:
                consts["self2"] = self.make_value(TObj(f"{fi.module.relpath}::{c.get('self_class', fi.cls)}", c.get("self", {})), "self2", st)
                consts["self1"] = st.locals["self"]
            for p in pnames:
                if p == "self" and fi.cls:
                    continue
                consts[p + "2"] = self.make_value(ptypes[p], p + "2", st)
                consts[p + "1"] = st.locals[p]
        for g, (T_, init) in c.get("ghost", {}).items():
            st.ghost[g] = self.make_value(T_, g, st) if init is None else None
        for g, (T_, init) in c.get("ghost", {}).items():
            if init is not None:
                st.ghost[g] = self.spec_val(init, st, {})
        st.old = st
        for e in c.get("axioms", []):
            st.assume(self.spec_bool(e, st, {}))
            self.used_trusted.add(f"definitional-axiom:{e}")
        for n in getattr(self, "_late_consts", []):
            consts[n] = VFunc(n, self.make_macro_bound(c["consts"][n], st))
        for e in c.get("requires", []):
            st.assume(self.spec_bool(e, st, {}))
        for name, e in c.get("let", {}).items():
            # definitional extension: a fresh constant naming a pre-state term (keeps non-linear terms atomic)
            v = self.spec_val(e, st, {})
            nv = fresh(typeof(v), name)
            st.assume(veq(nv, v))
            consts[name] = nv
        st.old = st.fork()
        st.old.old = st.old
        self.ghost_update(c.get("entry_ghost", {}), st, {})
        for i, e in enumerate(c.get("lemmas", [])):
            g = self.prove(st, f"lemma{i}", e, {}, fi.node)
            st.assume(g)
        # vacuity: the precondition must be satisfiable
        self.obligations.append(Obligation(f"{self.top_func}:cover:requires", "cover", st.pc, z3.BoolVal(False),
                                           f"{fi.module.relpath}:{fi.node.lineno}",
                                           "precondition is satisfiable (must be SAT)", func=self.top_func))
        results = self.exec_block(fi.node.body, st)
        if c.get("relational"):
            # second run of the same body on the second receiver / second parameter set (names with suffix 2)
            results2 = []
            for s_, oc in results:
                if oc[0] not in (RET, NEXT):
                    results2.append((s_, oc))
                    continue
                first = dict(s_.locals)
                loc = {}
                for p in pnames:
                    loc[p] = s_.consts["self2"] if (p == "self" and fi.cls) else s_.consts[p + "2"]
                s_.locals = loc
                for s3, oc3 in self.exec_block(fi.node.body, s_):
                    results2.append((s3, oc3))
            results = results2
        n_normal = 0
        cover_pc = None
        for s, oc in results:
            if oc[0] in (RET, NEXT):
                rv = oc[1] if oc[0] == RET else NONEV
                n_normal += 1
                if cover_pc is None:
                    cover_pc = list(s.pc)
                for i, (var, lo, hi, prop) in enumerate(c.get("post_inductions", [])):
                    self.induction(s, f"post-induction{i}", var, lo, hi, prop, {"result": rv}, fi.node)
                for i, e in enumerate(c.get("ensures", [])):
                    s.assume(self.prove(s, f"ensures{i}", e, {"result": rv}, fi.node))
                for i, e in enumerate(c.get("ensures_here", [])):
                    # may name the function's locals as witnesses; proved here, never assumed at call sites
                    self.prove(s, f"ensures_here{i}", e, {"result": rv}, fi.node)
            elif oc[0] == RAISE:
                if c.get("excuse_rejected") and oc[1] in c.get("raises", ()):
                    # nothing is owed on a path that ends in an explicit rejection: obligations emitted earlier on
                    # exactly this path (their pc is a prefix of the rejected path's pc) only have to hold when the
                    # path is NOT continued into the rejection
                    ids = [p.get_id() for p in s.pc]
                    for ob in self.obligations[n_before:]:
                        k = len(ob.pc)
                        if ob.kind in ("safety", "vc") and k < len(ids) and [p.get_id() for p in ob.pc] == ids[:k]:
                            rest = s.pc[k:]
                            if rest and rest[0].eq(ob.goal):        # the obligation's own goal, assumed after it was emitted
                                rest = rest[1:]
                            if rest:
                                ob.pc = ob.pc + [z3.Not(z3.And(rest))]
                allowed = c.get("raises", ("ValueError", "NotImplementedError", "RuntimeError", "AssertionError",
                                           "IndexError", "KeyError", "TypeError"))
                if c.get("no_raise") or oc[1] not in allowed:
                    self.oblige(s, f"noraise:{oc[1]}", "vc", z3.BoolVal(False), fi.node,
                                note=f"{oc[1]} raised on an accepted input")
                for i, e in enumerate(c.get("ensures_on_raise", [])):
                    self.oblige(s, f"ensures_on_raise{i}", "vc", self.spec_bool(e, s, {"exc": VStr(oc[1])}), fi.node, note=e)
            else:
                raise Unsupported(f"outcome {oc[0]} escapes {target}")
        if cover_pc is None and c.get("ensures"):
            # every path ended in a rejection / raise: the post-conditions would be claimed without ever having been stated
            raise Unsupported(f"no path of {target} returns normally under this contract (its ensures would be vacuous)")
        # canary: something that must be refutable on some reachable normal path (guards against an unsound pc)
        if cover_pc is not None:
            self.obligations.append(Obligation(f"{self.top_func}:cover:normal-return", "cover", cover_pc,
                                               z3.BoolVal(False), "", "a normal return is reachable (must be SAT)",
                                               func=self.top_func))
        return len(self.obligations) - n_before
