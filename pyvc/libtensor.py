"""Opaque tensors with an uninterpreted elementwise algebra (C11): a tensor is a term of the value sort; the only operations are
   TScale(t, r)  = t * r (r a real scalar / one-element tensor),   TAdd(a, b) = a + b (equal shapes),   OneHot(label, n_classes)
with no axioms. Two results are equal as terms only if they were built from the same operands by the same operations, which is what
"mixed with the same partner and the same weight" means; the algebraic consequences (rows sum to one, convexity per element) are
checked by the bounded stand-in."""
import z3
from .values import *  # noqa
from .state import *  # noqa
from . import expr as _e

TScale = z3.Function("TScale", ValSort, z3.RealSort(), ValSort)
TAdd = z3.Function("TAdd", ValSort, ValSort, ValSort)
OneHot = z3.Function("OneHot", z3.IntSort(), z3.IntSort(), ValSort)
ShapeOf = z3.Function("ShapeOf", ValSort, ValSort)
NDim = z3.Function("NDim", ValSort, z3.IntSort())


class AbsTensor(VAbs):
    label = "tensor"

    def __init__(self, t):
        self.t = t

    def ite_with(self, c, o):
        return AbsTensor(z3.If(c, self.t, o.t))

    def havoc(self, label):
        return AbsTensor(z3.Const(uid(label), ValSort))

    def getattr(self, name, st, eng):
        if name == "shape":
            return VVal(ShapeOf(self.t))
        if name == "ndim":
            st.assume(NDim(self.t) >= 0)
            return VInt(NDim(self.t))
        raise KeyError(name)

    def call_method(self, name, args, kwargs, st, eng):
        o = eng.deref(args[0], st) if args else None
        if name in ("__mul__", "__rmul__"):
            if isinstance(o, AbsScalar):
                return [(st, AbsTensor(TScale(self.t, o.r)))]
            if isinstance(o, (VReal, VInt)):
                return [(st, AbsTensor(TScale(self.t, _e.to_real(o))))]
        if name in ("__add__", "__radd__") and isinstance(o, AbsTensor):
            return [(st, AbsTensor(TAdd(self.t, o.t) if name == "__add__" else TAdd(o.t, self.t)))]
        raise Unsupported(f"tensor.{name}({o!r}) is outside the modelled algebra")


class AbsScalar(VAbs):
    """a one-element tensor holding a real (torch.tensor([r]) and its views)"""
    label = "scalar-tensor"

    def __init__(self, r):
        self.r = r

    def ite_with(self, c, o):
        return AbsScalar(z3.If(c, self.r, o.r))

    def getattr(self, name, st, eng):
        if name in ("view", "reshape"):
            f = VFunc("scalar.view", lambda a, k, s, e: self)
            f.any_args = True
            return f
        if name == "item":
            return VFunc("scalar.item", lambda a, k, s, e: VReal(self.r))
        raise KeyError(name)

    def call_method(self, name, args, kwargs, st, eng):
        o = eng.deref(args[0], st) if args else None
        if isinstance(o, (VReal, VInt)):
            x = _e.to_real(o)
            r = {"__add__": self.r + x, "__radd__": x + self.r, "__sub__": self.r - x, "__rsub__": x - self.r,
                 "__mul__": self.r * x, "__rmul__": x * self.r}.get(name)
            if r is not None:
                return [(st, AbsScalar(r))]
        if isinstance(o, AbsTensor) and name in ("__mul__", "__rmul__"):
            return [(st, AbsTensor(TScale(o.t, self.r)))]
        raise Unsupported(f"scalar-tensor.{name}({o!r})")


def _tensor_of_list(args, kwargs, st, eng):
    """torch.tensor([r]) with a single real element"""
    v = eng.deref(args[0], st)
    els = v.elems if isinstance(v, VTuple) else (v.concrete if isinstance(v, VSeq) else None)
    if els is None or len(els) != 1:
        raise Unsupported("torch.tensor of something other than a one-element list")
    return AbsScalar(_e.to_real(eng.deref(els[0], st)))


def ext_one_hot(args, kwargs, st, eng):
    """kappadata.utils.one_hot.to_one_hot_vector(label, n_classes): the one-hot row of an integer label (assumed contract)"""
    y = eng.deref(args[0], st)
    n = eng.deref(kwargs.get("n_classes", args[1] if len(args) > 1 else None), st)
    eng.used_trusted.add("model:pyvc/libtensor.py opaque tensors (TScale / TAdd / OneHot uninterpreted, no algebraic law)")
    return AbsTensor(OneHot(_e.to_int(y), _e.to_int(n)))


class AbsTensorDataset(VAbs):
    """the wrapped dataset of a sample wrapper: getitem_x(k) = X(k) (an opaque tensor), getitem_class(k) = Label(k), len = N;
    deterministic functions of the index (the dataset contract of C02)"""
    label = "tensor-dataset"

    def __init__(self, name):
        self.name = name
        self.n = z3.Int(name + "$len")
        self.X = z3.Function(name + "$x", z3.IntSort(), ValSort)
        self.L = z3.Function(name + "$label", z3.IntSort(), z3.IntSort())
        self.C = z3.Int(name + "$num_classes")

    def length(self, st, eng):
        st.assume(self.n >= 0)
        return VInt(self.n)

    def getattr(self, name, st, eng):
        if name in ("getitem_x", "getitem_class"):
            def f(a, k, s, e, name=name):
                i = _e.to_int(e.deref(a[0], s))
                e.safety(s, "lower-dataset:index-inbounds", z3.And(0 <= i, i < self.n), getattr(e, "cur_call_node", None),
                         "index passed to the wrapped dataset is out of its range")
                return AbsTensor(self.X(i)) if name == "getitem_x" else VInt(self.L(i))
            return VFunc(f"dataset.{name}", f)
        if name == "getdim_class":
            return VFunc("dataset.getdim_class", lambda a, k, s, e: VInt(self.C))
        raise KeyError(name)


def _num(eng, v, st):
    v = eng.deref(v, st)
    if isinstance(v, VSeq):
        return v
    raise Unsupported(f"expected a numeric tensor, got {v!r}")


def _clamp(args, kwargs, st, eng):
    t = _num(eng, args[0], st)
    lo = kwargs.get("min", args[1] if len(args) > 1 else None)
    hi = kwargs.get("max", args[2] if len(args) > 2 else None)
    lo = None if lo is None or isinstance(eng.deref(lo, st), VNone) else eng.deref(lo, st)
    hi = None if hi is None or isinstance(eng.deref(hi, st), VNone) else eng.deref(hi, st)
    real = isinstance(t.etype, TReal) or isinstance(lo, VReal) or isinstance(hi, VReal)
    conv = _e.to_real if real else _e.to_int

    def el(k):
        x = conv(t.elem(k))
        if lo is not None:
            x = z3.If(x < conv(lo), conv(lo), x)
        if hi is not None:
            x = z3.If(x > conv(hi), conv(hi), x)
        return VReal(x) if real else VInt(x)
    r = VSeq(t.len, el, REAL if real else INT)
    r.kind = z3.IntVal(1)
    return r


def _stack_cols(args, kwargs, st, eng):
    """torch.stack([a, b, c, d], dim=1) of equally long 1-d tensors: row k is (a[k], b[k], c[k], d[k])"""
    lst = eng.deref(args[0], st)
    cols = lst.concrete if isinstance(lst, VSeq) else (lst.elems if isinstance(lst, VTuple) else None)
    dim = eng.deref(kwargs.get("dim", args[1] if len(args) > 1 else VInt(0)), st)
    if cols is None or not (z3.is_int_value(z3.simplify(_e.to_int(dim))) and z3.simplify(_e.to_int(dim)).as_long() == 1):
        raise Unsupported("torch.stack other than of a literal list along dim=1")
    cols = [_num(eng, c, st) for c in cols]
    for c in cols[1:]:
        eng.safety(st, "stack:equal-lengths", c.len == cols[0].len, None, "torch.stack needs equally long tensors")
    r = VSeq(cols[0].len, lambda k: VTuple([c.elem(k) for c in cols]), TTuple([c.etype for c in cols]))
    r.kind = z3.IntVal(1)
    return r


def _where(args, kwargs, st, eng):
    c, a, b = [_num(eng, x, st) for x in args[:3]]
    real = isinstance(a.etype, TReal) or isinstance(b.etype, TReal)
    conv = _e.to_real if real else _e.to_int
    r = VSeq(c.len, lambda k: (VReal if real else VInt)(z3.If(c.elem(k).t, conv(a.elem(k)), conv(b.elem(k)))), REAL if real else INT)
    r.kind = z3.IntVal(1)
    return r


def _empty(args, kwargs, st, eng):
    n = _e.to_int(eng.deref(args[0], st))
    r = fresh(TSeq(REAL), "empty")
    r = VSeq(z3.If(n >= 0, n, 0), r.elem, REAL)
    r.kind = z3.IntVal(1)
    return st.alloc(r)


MIX_LIB = {"torch.clamp": _clamp, "torch.stack": _stack_cols, "torch.where": _where, "torch.empty": _empty}

TENSOR_DATASET = TAbs(lambda name, idx: AbsTensorDataset(name), "tensor-dataset")
TENSOR_LIB = {"torch.tensor": _tensor_of_list}


def install(eng):
    def _t(v, s, e):
        v = e.deref(v, s)
        if not isinstance(v, AbsTensor):
            raise SpecError(f"expected a tensor, got {v!r}")
        return v.t
    eng.spec_builtins["TXOf"] = VFunc("TXOf", lambda a, k, s, e: AbsTensor(e.deref(a[0], s).X(_e.to_int(e.deref(a[1], s)))))
    eng.spec_builtins["TLabelOf"] = VFunc("TLabelOf", lambda a, k, s, e: VInt(e.deref(a[0], s).L(_e.to_int(e.deref(a[1], s)))))
    eng.spec_builtins["TOneHotOf"] = VFunc("TOneHotOf", lambda a, k, s, e: AbsTensor(OneHot(_e.to_int(e.deref(a[0], s)), _e.to_int(e.deref(a[1], s)))))
    eng.spec_builtins["TMixOf"] = VFunc("TMixOf", lambda a, k, s, e: AbsTensor(
        TAdd(TScale(_t(a[0], s, e), _e.to_real(e.deref(a[2], s))), TScale(_t(a[1], s, e), 1 - _e.to_real(e.deref(a[2], s))))))
    eng.spec_builtins["SameTensor"] = VFunc("SameTensor", lambda a, k, s, e: VBool(_t(a[0], s, e) == _t(a[1], s, e)))
    install_batch(eng)
    eng.spec_builtins["NClassesConst"] = VFunc("NClassesConst", lambda a, k, s, e: VInt(z3.Int("mix$n_classes")))
    eng.spec_builtins["Weight"] = VFunc("Weight", lambda a, k, s, e: VReal(e.deref(a[0], s).r))


# ================================================================================================ batch tensors (C10)
# A batch tensor is an immutable handle (id, batch size, trailing dims); its content is a version kept in the ghost map g_btver
# (id -> version) with Row(version, i) the i-th sample as an opaque tensor term. In-place operations create a new version of the SAME
# handle (so aliasing - the partner tensor being the tensor itself - is modelled faithfully), out-of-place ones a new handle.
from .absobj import GHOST_ANY_CALL as _GAC
BV = "g_btver"
if BV not in _GAC:
    _GAC.append(BV)
Row = z3.Function("BatchRow", z3.IntSort(), z3.IntSort(), ValSort)
TPaste = z3.Function("TPaste", ValSort, ValSort, z3.IntSort(), z3.IntSort(), z3.IntSort(), z3.IntSort(), ValSort)   # dst, src, top, left, bot, right
BT_GHOST = {BV: (TSeq(INT, mutable=False), None)}
_BID = [0]


def _newid():
    _BID[0] += 1
    return z3.IntVal(_BID[0])


class AbsBT(VAbs):
    label = "batch-tensor"

    def __init__(self, bid, n, dims):
        self.bid, self.n, self.dims = bid, n, list(dims)

    def ver(self, st):
        if BV not in st.ghost:
            raise Unsupported("a batch tensor is used in a function whose sidecar contract does not declare the ghost map g_btver")
        return _e.to_int(st.ghost[BV].elem(self.bid))

    def set_ver(self, st, v):
        old, bid = st.ghost[BV], self.bid
        st.ghost[BV] = VSeq(old.len, lambda k, old=old: VInt(z3.If(k == bid, v, _e.to_int(old.elem(k)))), INT)

    def ite_with(self, c, o):
        if len(self.dims) != len(o.dims):
            raise MergeError("batch tensors of different rank")
        return AbsBT(z3.If(c, self.bid, o.bid), z3.If(c, self.n, o.n), [z3.If(c, a, b) for a, b in zip(self.dims, o.dims)])

    def havoc(self, label):
        return AbsBT(z3.Int(uid(label + "$bid")), self.n, self.dims)

    def length(self, st, eng):
        st.assume(self.n >= 0)
        return VInt(self.n)

    def _fresh_from(self, st, rowfn, n=None):
        """a new handle whose rows are rowfn(i)"""
        new = AbsBT(_newid(), self.n if n is None else n, self.dims)
        v = z3.Int(uid("btver"))
        i = z3.Int(uid("i"))
        st.assume(z3.ForAll([i], Row(v, i) == rowfn(i), patterns=[Row(v, i)]))
        new.set_ver(st, v)
        return new

    def _update(self, st, rowfn):
        """in place: the same handle gets a new version whose rows are rowfn(i) (rowfn may read the old version)"""
        v = z3.Int(uid("btver"))
        i = z3.Int(uid("i"))
        st.assume(z3.ForAll([i], Row(v, i) == rowfn(i), patterns=[Row(v, i)]))
        self.set_ver(st, v)
        return self

    def getattr(self, name, st, eng):
        if name == "shape":
            return VTuple([VInt(self.n)] + [VInt(d) for d in self.dims])
        if name == "ndim":
            return VInt(1 + len(self.dims))
        if name in ("type", "float", "to", "contiguous"):
            return VFunc("bt." + name, lambda a, k, s, e: self)          # dtype conversion: same rows (aliasing irrelevant: value is re-set into the batch)
        if name == "clone":
            return VFunc("bt.clone", lambda a, k, s, e: (lambda old: self._fresh_from(s, lambda i: Row(old, i)))(self.ver(s)))
        if name == "roll":
            def f(a, k, s, e):
                sh = _e.to_int(e.deref(k.get("shifts", a[0] if a else None), s))
                old, n = self.ver(s), self.n
                e.safety(s, "roll:non-empty", n >= 1, None, "roll of an empty batch", kind="model")
                return self._fresh_from(s, lambda i: Row(old, (i - sh) % n))
            return VFunc("bt.roll", f)
        if name == "flip":
            return VFunc("bt.flip", lambda a, k, s, e: (lambda old: self._fresh_from(s, lambda i: Row(old, self.n - 1 - i)))(self.ver(s)))
        if name in ("mul_", "add_"):
            def f(a, k, s, e, name=name):
                o = e.deref(a[0], s)
                old = self.ver(s)
                if name == "mul_":
                    if isinstance(o, VSeq) and isinstance(o.etype, (TReal, TInt)):
                        e.safety(s, "tensor:broadcastable", z3.Or(o.len == 1, o.len == self.n), None, "per-sample weights: one per sample or one for all")
                        return self._update(s, lambda i: TScale(Row(old, i), _e.to_real(o.elem(z3.If(o.len == 1, 0, i)))))
                    if isinstance(o, (VReal, VInt)):
                        return self._update(s, lambda i: TScale(Row(old, i), _e.to_real(o)))
                elif isinstance(o, AbsBT):
                    ov = o.ver(s)          # read before the update: `x.add_(x)` adds the current content to itself
                    return self._update(s, lambda i: TAdd(Row(old, i), Row(ov, i)))
                raise Unsupported(f"batch-tensor.{name}({o!r})")
            return VFunc("bt." + name, f)
        raise KeyError(name)

    def _region(self, idx, st, eng):
        """(row or None, [top, left, bot, right]) for x[..., t:b, l:r] / x[i, ..., t:b, l:r]; None for other index forms"""
        idx = eng.deref(idx, st)
        parts = list(idx.elems) if isinstance(idx, VTuple) else [idx]
        row = None
        if len(parts) == 4 and not isinstance(parts[0], (VStr, VTuple)):
            row = _e.to_int(eng.deref(parts[0], st))
            parts = parts[1:]
        if not (len(parts) == 3 and isinstance(parts[0], VStr) and parts[0].s == "..." and
                all(isinstance(p, VTuple) and len(p.elems) == 3 and isinstance(p.elems[0], VStr) and p.elems[0].s == "slice" for p in parts[1:])):
            return None
        (_, t, b), (_, l, r) = [p.elems for p in parts[1:]]
        return row, [_e.to_int(eng.deref(x, st)) for x in (t, l, b, r)]

    def getitem(self, idx, st, eng):
        return self.call_method("__getitem__", [idx], {}, st, eng)

    def _row_ok(self, row, st, eng, what):
        eng.safety(st, f"batch:{what}-row-in-range", z3.And(0 <= row, row < self.n), getattr(eng, "cur_call_node", None),
                   "a sample index lies inside the batch (negative indices would wrap around)")

    def call_method(self, name, args, kwargs, st, eng):
        if name == "__getitem__":
            idx = eng.deref(args[0], st)
            if isinstance(idx, VOpt):
                idx = eng.deref(eng.unopt(idx, st, getattr(eng, "cur_call_node", None), "index tensor"), st)
            reg = self._region(idx, st, eng)
            if reg is not None:
                row, box = reg
                if row is not None:
                    self._row_ok(row, st, eng, "read")
                return [(st, AbsBTRegion(self, self.ver(st), box, row))]
            if isinstance(idx, VSeq) and isinstance(idx.etype, TInt):
                old = self.ver(st)
                k = z3.Int(uid("k"))
                eng.safety(st, "gather:indices-in-range", z3.ForAll([k], z3.Implies(z3.And(0 <= k, k < idx.len),
                           z3.And(0 <= _e.to_int(idx.elem(k)), _e.to_int(idx.elem(k)) < self.n))), None, "fancy index inside the batch")
                return [(st, self._fresh_from(st, lambda i: Row(old, _e.to_int(idx.elem(i))), n=idx.len))]
            if isinstance(idx, VInt):
                self._row_ok(idx.t, st, eng, "read")
                return [(st, AbsRowView(self, idx.t))]
            raise Unsupported("batch-tensor index of this form")
        if name == "__setitem__":
            idx = eng.deref(args[0], st)
            src = eng.deref(args[1], st)
            if isinstance(idx, VInt) and isinstance(src, (AbsRowView, AbsTensor)):
                self._row_ok(idx.t, st, eng, "write")
                old, r = self.ver(st), idx.t
                term = src.term(st) if isinstance(src, AbsRowView) else src.t
                self._update(st, lambda i: z3.If(i == r, term, Row(old, i)))
                return [(st, NONEV)]
            reg = self._region(idx, st, eng)
            if reg is None or not isinstance(src, AbsBTRegion):
                raise Unsupported("batch-tensor store of this form")
            row, box = reg
            eng.safety(st, "paste:same-box", z3.And(*[a == b for a, b in zip(box, src.box)]), None, "source and destination regions have the same shape")
            old, sv = self.ver(st), src.ver
            if row is None and src.row is None:
                self._update(st, lambda i: TPaste(Row(old, i), Row(sv, i), *box))
            elif row is not None and src.row is not None:
                self._row_ok(row, st, eng, "write")
                self._update(st, lambda i: z3.If(i == row, TPaste(Row(old, row), Row(sv, src.row), *box), Row(old, i)))
            else:
                raise Unsupported("paste between a whole batch and a single sample")
            return [(st, NONEV)]
        raise Unsupported(f"batch-tensor.{name}")


class AbsRowView(VAbs):
    """x[i]: a view of one sample of a batch tensor - in-place operations on it change the batch tensor"""
    label = "batch-row-view"

    def __init__(self, bt, i):
        self.bt, self.i = bt, i

    def term(self, st):
        return Row(self.bt.ver(st), self.i)

    def getattr(self, name, st, eng):
        if name in ("mul_", "add_"):
            def f(a, k, s, e, name=name):
                o = e.deref(a[0], s)
                old, r = self.bt.ver(s), self.i
                if name == "mul_" and isinstance(o, (VReal, VInt)):
                    w = _e.to_real(o)
                    self.bt._update(s, lambda i: z3.If(i == r, TScale(Row(old, r), w), Row(old, i)))
                    return self
                if name == "add_" and isinstance(o, (AbsRowView, AbsTensor)):
                    t = o.term(s) if isinstance(o, AbsRowView) else o.t
                    self.bt._update(s, lambda i: z3.If(i == r, TAdd(Row(old, r), t), Row(old, i)))
                    return self
                raise Unsupported(f"row-view.{name}({o!r})")
            return VFunc("rowview." + name, f)
        raise KeyError(name)


class AbsBTRegion(VAbs):
    label = "batch-tensor-region"

    def __init__(self, bt, ver, box, row=None):
        self.bt, self.ver, self.box, self.row = bt, ver, box, row


def mix_externals(n_classes_dims=1):
    """ModeWrapper.has_item / get_item / set_item on the collated batch of the mix collator (assumed contracts): the batch holds
    an image tensor x (N, C, H, W), a one-hot label tensor y (N, classes) and an index tensor, each a function of its name"""
    N = z3.Int("mixb$N")
    dims = {"x": [z3.Int("mixb$C"), z3.Int("mixb$H"), z3.Int("mixb$W")], "class": [z3.Int("mixb$classes")], "index": []}
    fn = {"x": z3.Function("MixXRow", z3.IntSort(), ValSort), "class": z3.Function("MixYRow", z3.IntSort(), ValSort),
          "index": z3.Function("MixIRow", z3.IntSort(), ValSort)}

    def item_name(v, s, e):
        v = e.deref(v, s)
        if not isinstance(v, VStr) or v.s is None:
            raise Unsupported("item name must be a literal")
        return v.s

    def has_item(a, k, s, e):
        return VBool(True)

    def get_item(a, k, s, e):
        name = item_name(k.get("item", a[1] if len(a) > 1 else None), s, e)
        e.used_trusted.add("model:pyvc/libtensor.py batch tensors (opaque rows; in-place ops = new version of the same handle; TScale / TAdd / TPaste uninterpreted; roll / flip / gather / clone as row maps)")
        s.assume(N >= 1, *[d >= 1 for d in dims[name]])
        bt = AbsBT(_newid(), N, dims[name])
        v = z3.Int(uid("btver"))
        i = z3.Int(uid("i"))
        s.assume(z3.ForAll([i], Row(v, i) == fn[name](i), patterns=[Row(v, i)]))
        bt.set_ver(s, v)
        return bt

    def set_item(a, k, s, e):
        return fresh(VAL, "batch_with_item")
    M = "kappadata/wrappers/mode_wrapper.py::ModeWrapper"
    return {f"{M}.has_item": has_item, f"{M}.get_item": get_item, f"{M}.set_item": set_item}


def install_batch(eng):
    def bt(v, s, e):
        v = e.deref(v, s)
        if not isinstance(v, AbsBT):
            raise SpecError(f"expected a batch tensor, got {v!r}")
        return v
    eng.spec_builtins["RowOf"] = VFunc("RowOf", lambda a, k, s, e: AbsTensor(Row(bt(a[0], s, e).ver(s), _e.to_int(e.deref(a[1], s)))))
    eng.spec_builtins["MixXRow"] = VFunc("MixXRow", lambda a, k, s, e: AbsTensor(z3.Function("MixXRow", z3.IntSort(), ValSort)(_e.to_int(e.deref(a[0], s)))))
    eng.spec_builtins["MixYRow"] = VFunc("MixYRow", lambda a, k, s, e: AbsTensor(z3.Function("MixYRow", z3.IntSort(), ValSort)(_e.to_int(e.deref(a[0], s)))))
    eng.spec_builtins["TPasteOf"] = VFunc("TPasteOf", lambda a, k, s, e: AbsTensor(TPaste(e.deref(a[0], s).t, e.deref(a[1], s).t,
                                                                                       *[_e.to_int(e.deref(x, s)) for x in a[2:6]])))
    eng.spec_builtins["BatchN"] = VFunc("BatchN", lambda a, k, s, e: VInt(z3.Int("mixb$N")))
    eng.spec_builtins["ImgH"] = VFunc("ImgH", lambda a, k, s, e: VInt(z3.Int("mixb$H")))
    eng.spec_builtins["ImgW"] = VFunc("ImgW", lambda a, k, s, e: VInt(z3.Int("mixb$W")))
