"""State, obligations and run context of the symbolic executor."""
import z3
from .values import *  # noqa


class Unsupported(Exception):
    """construct outside the subset -> obligations of the function become undecided (never a violation)"""
    def __init__(self, msg, node=None):
        self.node = node
        line = getattr(node, "lineno", None)
        super().__init__(f"{msg}" + (f" at line {line}" if line else ""))


class SpecError(Exception):
    """the sidecar contract could not be resolved against the current source (renamed local, moved loop...)"""


class Obligation:
    def __init__(self, name, kind, pc, goal, where="", note="", func=""):
        self.name = name          # stable name (no path id)
        self.kind = kind          # vc | safety | defined | frame | bounded | cover | canary
        self.pc = list(pc)
        self.goal = goal
        self.where = where
        self.note = note
        self.func = func
        self.verdict = None       # discharged | refuted | undecided
        self.backend = None
        self.ms = 0
        self.model = None
        self.detail = ""

    def smt2(self, pc=None):
        s = z3.Solver()
        for p in (self.pc if pc is None else pc):
            s.add(p)
        s.add(z3.Not(self.goal))
        return s.to_smt2()

    def slices(self):
        """hypothesis subsets to try before the full context (dropping hypotheses is sound for `unsat`;
        a `sat` on a slice proves nothing and is ignored). -> list of smt2 texts, last one is the full context"""
        if self.kind == "cover" or len(self.pc) < 12:
            return [self.smt2()]
        symsets = [symbols_of(p) for p in self.pc]
        count = {}
        for ss in symsets:
            for x in ss:
                count[x] = count.get(x, 0) + 1
        hubs = {x for x, n in count.items() if n > max(8, len(self.pc) // 5)}
        S = set(symbols_of(self.goal))
        out, prev = [], None
        for depth in (1, 2):
            chosen = []
            S2 = set(S)
            for p, ss in zip(self.pc, symsets):
                if (ss - hubs) & S or (ss and ss <= hubs and len(ss) <= 3):
                    chosen.append(p)
                    S2 |= (ss - hubs)
            S = S2
            if len(chosen) < len(self.pc) and len(chosen) != prev:
                out.append(self.smt2(chosen))
                prev = len(chosen)
        out.append(self.smt2())
        return out


_sym_cache = {}


def symbols_of(t):
    key = t.get_id()
    r = _sym_cache.get(key)
    if r is not None:
        return r
    res, seen, todo = set(), set(), [t]
    while todo:
        x = todo.pop()
        i = x.get_id()
        if i in seen:
            continue
        seen.add(i)
        if z3.is_quantifier(x):
            todo.append(x.body())
            continue
        if z3.is_app(x):
            d = x.decl()
            if d.kind() == z3.Z3_OP_UNINTERPRETED:
                res.add(d.name())
            todo.extend(x.children())
    r = frozenset(res)
    _sym_cache[key] = r
    return r


class State:
    def __init__(self):
        self.locals = {}
        self.heap = {}
        self.pc = []
        self.ghost = {}
        self.old = None           # snapshot at function entry (State)
        self.consts = {}          # spec constants (name -> V), immutable
        self.next_oid = 0
        self.trace = []           # branch decisions (for reporting)
        self._nn = set()
        self.owned = frozenset()

    def fork(self):
        s = State()
        s.locals = dict(self.locals)
        s.heap = {k: (v.copy() if isinstance(v, HObj) else v) for k, v in self.heap.items()}
        s.pc = list(self.pc)
        s.ghost = dict(self.ghost)
        s.old = self.old
        s.consts = self.consts
        s.next_oid = self.next_oid
        s.trace = list(self.trace)
        s._nn = set(self._nn)
        s.owned = self.owned
        for k_, v_ in self.__dict__.items():
            if k_.startswith('_lab_'):
                setattr(s, k_, v_)
        return s

    def assume(self, *conds):
        for c in conds:
            if isinstance(c, bool):
                c = z3.BoolVal(c)
            if not z3.is_true(c):
                self.pc.append(c)
        return self

    def alloc(self, payload):
        oid = self.next_oid
        self.next_oid += 1
        self.heap[oid] = payload
        return VRef(oid)


def feasible(pc, timeout_ms=150):
    """quick feasibility check used for pruning only; unknown counts as feasible"""
    s = z3.Solver()
    s.set("timeout", timeout_ms)
    for p in pc:
        s.add(p)
    return s.check() != z3.unsat


def merge_states(states):
    """join several live states that descend from a common ancestor into one (path merging).
    Returns a single State, or None when the states cannot be merged (different heap shapes, unmergeable values)."""
    if len(states) == 1:
        return states[0]
    pcs = [s.pc for s in states]
    n = min(len(p) for p in pcs)
    k = 0
    while k < n and all(p[k].eq(pcs[0][k]) for p in pcs[1:]):
        k += 1
    deltas = [z3.And(p[k:]) if len(p) > k + 1 else (p[k] if len(p) > k else z3.BoolVal(True)) for p in pcs]
    base = states[0]
    if any(s.heap.keys() != base.heap.keys() or s.next_oid != base.next_oid for s in states[1:]):
        # tolerate heap cells allocated on some paths only if they hold immutable list payloads that will be
        # merged by value below; otherwise give up
        allk = set().union(*[set(s.heap.keys()) for s in states])
        common = set(base.heap.keys()).intersection(*[set(s.heap.keys()) for s in states[1:]])
        extra = allk - common
        if any(isinstance(s.heap[k2], HObj) for s in states for k2 in extra if k2 in s.heap):
            return None
        referenced = set()
        for s in states:
            for v in list(s.locals.values()) + list(s.ghost.values()):
                if isinstance(v, VRef):
                    referenced.add(v.oid)
            for h in s.heap.values():
                if isinstance(h, HObj):
                    for v in h.fields.values():
                        if isinstance(v, VRef):
                            referenced.add(v.oid)
        mx = max(s.next_oid for s in states)
        for s in states:
            s.next_oid = mx
        states = list(states)
        keep_extra = True
        for s in states:
            for k2 in extra:
                s.heap.setdefault(k2, None)
        base = states[0]
    if any(s.ghost.keys() != base.ghost.keys() for s in states[1:]):
        return None
    if any(s.locals.keys() != base.locals.keys() for s in states[1:]):
        # a local bound on some paths only: after the join it may only be read where it is bound
        from .stmt import MAYBE
        allnames = set().union(*[set(s.locals) for s in states])
        states = list(states)
        for s in states:
            for nme in allnames:
                s.locals.setdefault(nme, MAYBE)
        base = states[0]

    def m(vals):
        if any(isinstance(v, VSeq) for v in vals) and any(isinstance(v, VRef) for v in vals):
            # a fresh list literal on one path, an immutable sequence on the other: merge the payloads
            vals = [s_.heap[v.oid] if isinstance(v, VRef) and isinstance(s_.heap.get(v.oid), VSeq) else v
                    for v, s_ in zip(vals, states)]
        r = vals[-1]
        for d, v in zip(reversed(deltas[:-1]), reversed(vals[:-1])):
            if v is r:
                continue
            if isinstance(v, V) and isinstance(r, V):
                r = ite(d, v, r)
            elif isinstance(v, V) or isinstance(r, V):
                from .stmt import MAYBE
                r = MAYBE       # bound on some paths, unbound on others
            else:
                raise MergeError("marker")
        return r
    try:
        out = State()
        out.pc = list(pcs[0][:k]) + [z3.Or(deltas)]
        out.old, out.consts, out.next_oid = base.old, base.consts, base.next_oid
        out._nn = set.intersection(*[s._nn for s in states])
        out.owned = frozenset().union(*[s.owned for s in states])
        out.locals = {name: m([s.locals[name] for s in states]) for name in base.locals}
        out.ghost = {name: m([s.ghost[name] for s in states]) for name in base.ghost}
        for oid, h in base.heap.items():
            hs = [s.heap[oid] for s in states]
            if isinstance(h, HObj):
                if any(x.fields.keys() != h.fields.keys() for x in hs):
                    return None
                out.heap[oid] = HObj(h.cls, {f: m([x.fields[f] for x in hs]) for f in h.fields}, h.typ)
            elif any(x is None for x in hs):
                cand = [x for x in hs if x is not None]
                out.heap[oid] = cand[0]      # path-local list payload (reachable only through merged-by-value locals)
            else:
                out.heap[oid] = m(hs)
    except MergeError:
        return None
    return out
