import argparse
import importlib
import json
import os
import sys
import time
import traceback

ROOT = os.path.dirname(os.path.dirname(os.path.abspath(__file__)))
sys.path.insert(0, ROOT)
sys.setrecursionlimit(20000)


def main():
    ap = argparse.ArgumentParser()
    ap.add_argument("pid")
    ap.add_argument("--tier", default=os.environ.get("VERIF_TIER", "quick"))
    ap.add_argument("--replay")
    a = ap.parse_args()
    tier = a.tier if a.tier in ("quick", "thorough") else "quick"
    seed = int(os.environ.get("VERIF_SEED", "0") or 0)
    from pyvc.report import Result, finish
    t0 = time.time()
    mod = importlib.import_module(f"props.{a.pid}")
    if a.replay:
        rp = json.load(open(a.replay))
        print(json.dumps(rp.get("native") or rp.get("solver"), indent=1, default=str)[:4000])
        nat = rp.get("native") or {}
        if nat.get("input") is not None and hasattr(mod, "replay_input"):
            r = mod.replay_input(nat["input"])
            print("replayed on the current tree:", json.dumps(r, default=str)[:2000])
            sys.exit(1 if r and r.get("failed") else 0)
        sys.exit(1 if nat.get("failed") else 0)
    res = Result(a.pid, tier, seed)
    try:
        mod.run(res)
        extra = {"explanation": mod.EXPLANATION} if hasattr(mod, "EXPLANATION") else None
        code = finish(res, t0, mod.LEVEL, f"./check {a.pid} --tier {tier}", getattr(mod, "replay", None),
                      extra_cov=extra, rule=getattr(mod, "RULE", None))
    except Exception as ex:
        traceback.print_exc()
        res.errors.append(f"{type(ex).__name__}: {ex}")
        try:
            res.obligations = [o for o in res.obligations if o.verdict is not None]
            finish(res, t0, "other", f"./check {a.pid} --tier {tier}",
                   extra_cov={"explanation": f"checker crashed: {type(ex).__name__}: {ex}"})
        except Exception:
            traceback.print_exc()
        print(f"CHECKER-ERROR property={a.pid} {type(ex).__name__}: {ex}")
        code = 3
    sys.exit(code)


if __name__ == "__main__":
    main()
