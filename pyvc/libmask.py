"""Abstract 2-d 0/1 grids (torch.zeros / torch.ones masks) for the mask collators (C17).

A grid value is an immutable handle (id, height, width); its current content is a *version* kept in the ghost map g_gridver
(id -> version), so that forks, merges, loop havoc and modular calls treat in-place mutation like every other ghost state.
Content is described by two uninterpreted functions
    GridCell(version, i, j) : Bool          the cell value
    GridBoxSum(version, t, b, l, r) : Int   number of ones in rows [t, b) x columns [l, r)
Writes create a new version and relate the two functions of the new version to the old one (point write, box write, elementwise
product). These write axioms and  0 <= GridBoxSum <= area  are consequences of the counting definition of GridBoxSum; they are the
assumed contract of torch indexing on 2-d tensors (trusted base). flatten().nonzero() is the increasing enumeration of the set cells.
"""
import z3
from .values import *  # noqa
from .state import *  # noqa
from . import expr as _e
from .lib import lib, LIB
from .absobj import GHOST_ANY_CALL

GV = "g_gridver"
if GV not in GHOST_ANY_CALL:
    GHOST_ANY_CALL.append(GV)
I = z3.IntSort()
Cell = z3.Function("GridCell", I, I, I, z3.BoolSort())
BSum = z3.Function("GridBoxSum", I, I, I, I, I, I)
ZERO = z3.Int("gridver$zeros")
GRID_GHOST = {GV: (TSeq(INT, mutable=False), None)}


def _mx(a, b): return z3.If(a >= b, a, b)
def _mn(a, b): return z3.If(a <= b, a, b)
def _area(t, b, l, r): return _mx(b - t, 0) * _mx(r - l, 0)
def b2i(x): return z3.If(x, 1, 0)


def base_axioms(st):
    """valid for every version: the count of a box is between 0 and its area; the all-zero version"""
    if getattr(st, "_grid_axioms", False):
        return
    v, t, b, l, r, i, j = z3.Ints("gv gt gb gl gr gi gj")
    st.assume(z3.ForAll([v, t, b, l, r], z3.And(0 <= BSum(v, t, b, l, r), BSum(v, t, b, l, r) <= _area(t, b, l, r)), patterns=[BSum(v, t, b, l, r)]),
              z3.ForAll([t, b, l, r], BSum(ZERO, t, b, l, r) == 0, patterns=[BSum(ZERO, t, b, l, r)]),
              z3.ForAll([i, j], z3.Not(Cell(ZERO, i, j)), patterns=[Cell(ZERO, i, j)]))
    st._grid_axioms = True


class AbsGrid(VAbs):
    label = "grid"

    def __init__(self, gid, h, w):
        self.gid, self.h, self.w = gid, h, w

    # ---- version access
    def ver(self, st):
        if GV not in st.ghost:
            raise Unsupported("a grid is used in a function whose sidecar contract does not declare the ghost map g_gridver")
        return _e.to_int(st.ghost[GV].elem(self.gid))

    def set_ver(self, st, v):
        old = st.ghost[GV]
        gid = self.gid
        st.ghost[GV] = VSeq(old.len, lambda k, old=old: VInt(z3.If(k == gid, v, _e.to_int(old.elem(k)))), INT)

    def ite_with(self, c, o):
        return AbsGrid(z3.If(c, self.gid, o.gid), z3.If(c, self.h, o.h), z3.If(c, self.w, o.w))

    def havoc(self, label):
        return AbsGrid(z3.Int(uid(label + "$gid")), self.h, self.w)

    # ---- indexing
    def _parts(self, idx, st, eng):
        idx = eng.deref(idx, st)
        parts = idx.elems if isinstance(idx, VTuple) and not (len(idx.elems) == 3 and isinstance(idx.elems[0], VStr) and idx.elems[0].s == "slice") else [idx]
        if len(parts) != 2:
            raise Unsupported("grid index that is not 2-dimensional")
        out = []
        for p, n in zip(parts, (self.h, self.w)):
            if isinstance(p, VTuple) and len(p.elems) == 3 and isinstance(p.elems[0], VStr) and p.elems[0].s == "slice":
                lo = z3.IntVal(0) if isinstance(p.elems[1], VNone) else _e.to_int(eng.deref(p.elems[1], st))
                hi = n if isinstance(p.elems[2], VNone) else _e.to_int(eng.deref(p.elems[2], st))
                out.append(("slice", lo, hi))
            else:
                out.append(("index", _e.to_int(eng.deref(p, st)), None))
        return out

    def _box(self, parts, st, eng, what):
        (k0, t, b), (k1, l, r) = parts
        if k0 == "index" and k1 == "index":
            eng.safety(st, f"grid:{what}-index-in-bounds", z3.And(0 <= t, t < self.h, 0 <= l, l < self.w), getattr(eng, "cur_call_node", None),
                       "a cell index lies inside the grid (negative indices would wrap around silently)")
            return None
        if k0 == "index": b = t + 1
        if k1 == "index": r = l + 1
        eng.safety(st, f"grid:{what}-box-in-bounds", z3.And(0 <= t, t <= b, b <= self.h, 0 <= l, l <= r, r <= self.w), getattr(eng, "cur_call_node", None),
                   "a block [top, bot) x [left, right) lies inside the grid (slices would be clipped silently)")
        return t, b, l, r

    def call_method(self, name, args, kwargs, st, eng):
        base_axioms(st)
        if name == "__getitem__":
            parts = self._parts(args[0], st, eng)
            box = self._box(parts, st, eng, "read")
            if box is None:
                return [(st, VInt(b2i(Cell(self.ver(st), parts[0][1], parts[1][1]))))]
            return [(st, AbsGridView(self, self.ver(st), box))]
        if name == "__setitem__":
            parts = self._parts(args[0], st, eng)
            val = eng.deref(args[1], st)
            if isinstance(val, VBool):
                c = val.t
            else:
                c = _e.to_int(val) != 0
            box = self._box(parts, st, eng, "write")
            old = self.ver(st)
            new = z3.Int(uid("gridver"))
            p, q, t, b, l, r = z3.Ints(f"{uid('p')} {uid('q')} {uid('t')} {uid('b')} {uid('l')} {uid('r')}")
            if box is None:
                i, j = parts[0][1], parts[1][1]
                st.assume(z3.ForAll([p, q], Cell(new, p, q) == z3.If(z3.And(p == i, q == j), c, Cell(old, p, q)), patterns=[Cell(new, p, q)]),
                          z3.ForAll([t, b, l, r], BSum(new, t, b, l, r) == BSum(old, t, b, l, r) +
                                    z3.If(z3.And(t <= i, i < b, l <= j, j < r), b2i(c) - b2i(Cell(old, i, j)), 0), patterns=[BSum(new, t, b, l, r)]))
            else:
                t0, b0, l0, r0 = box
                it, ib, il, ir = _mx(t, t0), _mn(b, b0), _mx(l, l0), _mn(r, r0)
                st.assume(z3.ForAll([p, q], Cell(new, p, q) == z3.If(z3.And(t0 <= p, p < b0, l0 <= q, q < r0), c, Cell(old, p, q)), patterns=[Cell(new, p, q)]),
                          z3.ForAll([t, b, l, r], BSum(new, t, b, l, r) == BSum(old, t, b, l, r) - BSum(old, it, ib, il, ir) + b2i(c) * _area(it, ib, il, ir),
                                    patterns=[BSum(new, t, b, l, r)]))
            self.set_ver(st, new)
            return [(st, NONEV)]
        if name == "__imul__":
            o = eng.deref(args[0], st)
            if not isinstance(o, AbsGrid):
                raise Unsupported("grid *= non-grid")
            eng.safety(st, "grid:same-shape", z3.And(self.h == o.h, self.w == o.w), None, "elementwise product of equal shapes")
            va, vb = self.ver(st), o.ver(st)
            new = z3.Int(uid("gridver"))
            p, q, t, b, l, r = z3.Ints(f"{uid('p')} {uid('q')} {uid('t')} {uid('b')} {uid('l')} {uid('r')}")
            st.assume(z3.ForAll([p, q], Cell(new, p, q) == z3.And(Cell(va, p, q), Cell(vb, p, q)), patterns=[Cell(new, p, q)]),
                      z3.ForAll([t, b, l, r], z3.And(BSum(new, t, b, l, r) <= BSum(va, t, b, l, r), BSum(new, t, b, l, r) <= BSum(vb, t, b, l, r),
                                                      BSum(new, t, b, l, r) >= BSum(va, t, b, l, r) + BSum(vb, t, b, l, r) - _area(t, b, l, r)),
                                patterns=[BSum(new, t, b, l, r)]),
                      # the ground instance for the whole grid (grids have non-negative dimensions)
                      z3.Implies(z3.And(self.h >= 0, self.w >= 0),
                                 BSum(new, 0, self.h, 0, self.w) >= BSum(va, 0, self.h, 0, self.w) + BSum(vb, 0, self.h, 0, self.w) - self.h * self.w))
            self.set_ver(st, new)
            return [(st, self)]
        raise Unsupported(f"grid.{name}")

    def getitem(self, idx, st, eng):
        return self.call_method("__getitem__", [idx], {}, st, eng)

    def getattr(self, name, st, eng):
        base_axioms(st)
        if name == "shape":
            return VTuple([VInt(self.h), VInt(self.w)])
        if name == "sum":
            return VFunc("grid.sum", lambda a, k, s, e: VInt(BSum(self.ver(s), 0, self.h, 0, self.w)))
        if name == "flatten":
            return VFunc("grid.flatten", lambda a, k, s, e: AbsFlat(self, self.ver(s)))
        if name == "clone":
            def f(a, k, s, e):
                _GID[0] += 1
                g = AbsGrid(z3.IntVal(_GID[0]), self.h, self.w)
                g.set_ver(s, self.ver(s))
                return g
            return VFunc("grid.clone", f)
        raise KeyError(name)

    def on_pointwise_alloc(self, st, k0, n, init):
        """a comprehension allocated grids base + k for 0 <= k < n: all of them start in version `init`"""
        k = z3.Int(uid("k"))
        if getattr(self, "site", None) is not None:
            st.assume(self.site >= 10 ** 12)
        gid = z3.substitute(self.gid, (k0, k))
        st.assume(z3.ForAll([k], z3.Implies(z3.And(0 <= k, k < n), _e.to_int(st.ghost[GV].elem(gid)) == init)))


class AbsGridView(VAbs):
    label = "grid-slice"

    def __init__(self, grid, ver, box):
        self.grid, self.ver, self.box = grid, ver, box

    def getattr(self, name, st, eng):
        if name == "sum":
            return VFunc("gridview.sum", lambda a, k, s, e: VInt(BSum(self.ver, *self.box)))
        raise KeyError(name)


class AbsFlat(VAbs):
    label = "flattened-grid"

    def __init__(self, grid, ver):
        self.grid, self.ver = grid, ver

    def getattr(self, name, st, eng):
        if name == "nonzero":
            def f(a, k, s, e):
                from .libtorch import seq_filter
                g, ver = self.grid, self.ver
                s.assume(g.w >= 1, g.h >= 0)
                r = seq_filter(s, e, g.h * g.w, lambda p: Cell(ver, p / g.w, p % g.w), lambda p: VInt(p), INT, "nonzero")
                r.kind = z3.IntVal(1)
                s.assume(r.len == BSum(ver, 0, g.h, 0, g.w))     # counting: as many indices as ones
                r.of_grid = (g, ver)
                return s.alloc(r)
            return VFunc("flat.nonzero", f)
        raise KeyError(name)


GRID = TAbs(lambda name, idx: AbsGrid(z3.Int(name + "$gid"), z3.Int(name + "$h"), z3.Int(name + "$w")), "grid")


_GID = [0]


def _new_grid(args, kwargs, st, eng, ones):
    base_axioms(st)
    eng.used_trusted.add("model:pyvc/libmask.py 0/1 grids (GridCell / GridBoxSum with point-write, box-write and product axioms; "
                         "0 <= box count <= area; flatten().nonzero() = increasing enumeration of the set cells; fresh allocation ids)")
    size = args[0] if len(args) == 1 else VTuple(list(args))
    size = eng.deref(kwargs.get("size", size), st)
    dims = size.elems if isinstance(size, VTuple) else eng.as_seq(size, st).concrete
    if dims is None or len(dims) != 2:
        raise Unsupported("torch.zeros / torch.ones with a shape that is not 2-dimensional")
    h, w = [_e.to_int(eng.deref(d, st)) for d in dims]
    if ones:
        init = z3.Int(uid("gridver$ones"))
        p, q, t, b, l, r = z3.Ints(f"{uid('p')} {uid('q')} {uid('t')} {uid('b')} {uid('l')} {uid('r')}")
        st.assume(z3.ForAll([p, q], Cell(init, p, q) == z3.And(0 <= p, p < h, 0 <= q, q < w), patterns=[Cell(init, p, q)]),
                  z3.ForAll([t, b, l, r], BSum(init, t, b, l, r) == _area(_mx(t, 0), _mn(b, h), _mx(l, 0), _mn(r, w)), patterns=[BSum(init, t, b, l, r)]))
    else:
        init = ZERO
    ck = getattr(eng, "comp_index", None)
    if ck is not None:
        g = AbsGrid(eng.comp_site + ck, h, w)
        g.init_ver, g.site = init, eng.comp_site
        return g
    # allocation freshness: every allocation executed by the symbolic run gets its own concrete positive id; grids that
    # enter as parameters have negative ids (contracts: Gid(p) < 0), comprehension-allocated ones ids >= 10**12
    _GID[0] += 1
    g = AbsGrid(z3.IntVal(_GID[0]), h, w)
    g.set_ver(st, init)
    return g


def _stack(args, kwargs, st, eng):
    sq = eng.as_seq(args[0], st)
    probe = sq.elem(z3.Int(uid("k")))
    if isinstance(probe, AbsGrid):
        r = VSeq(sq.len, sq.elem, sq.etype)
        return st.alloc(r)
    return fresh(VAL, "stacked")


def install(eng):
    """torch.zeros / torch.ones produce grids only for contracts that declare the grid ghost"""
    eng.spec_builtins["Ones"] = VFunc("Ones", lambda a, k, s, e: (base_axioms(s), VInt(BSum(e.deref(a[0], s).ver(s), 0, e.deref(a[0], s).h, 0, e.deref(a[0], s).w)))[1])
    eng.spec_builtins["BoxSum"] = VFunc("BoxSum", lambda a, k, s, e: (base_axioms(s), VInt(BSum(e.deref(a[0], s).ver(s), *[_e.to_int(e.deref(x, s)) for x in a[1:5]])))[1])
    eng.spec_builtins["CellAt"] = VFunc("CellAt", lambda a, k, s, e: VBool(Cell(e.deref(a[0], s).ver(s), _e.to_int(e.deref(a[1], s)), _e.to_int(e.deref(a[2], s)))))
    eng.spec_builtins["InGrid"] = VFunc("InGrid", lambda a, k, s, e: VBool(Cell(e.deref(a[0], s).ver(s), _e.to_int(e.deref(a[1], s)) / e.deref(a[0], s).w,
                                                                             _e.to_int(e.deref(a[1], s)) % e.deref(a[0], s).w)))
    eng.spec_builtins["Gid"] = VFunc("Gid", lambda a, k, s, e: VInt(e.deref(a[0], s).gid))
    eng.spec_builtins["Ver"] = VFunc("Ver", lambda a, k, s, e: VInt(e.deref(a[0], s).ver(s)))
    eng.spec_builtins["GridH"] = VFunc("GridH", lambda a, k, s, e: VInt(e.deref(a[0], s).h))
    eng.spec_builtins["GridW"] = VFunc("GridW", lambda a, k, s, e: VInt(e.deref(a[0], s).w))
    eng.spec_builtins["IsGrid"] = VFunc("IsGrid", lambda a, k, s, e: VBool(isinstance(e.deref(a[0], s), AbsGrid)))


def _linspace(args, kwargs, st, eng):
    """torch.linspace(lo, hi, steps): steps values, the first lo, the last hi (steps >= 2), all between lo and hi"""
    lo, hi = _e.to_real(eng.deref(args[0], st)), _e.to_real(eng.deref(args[1], st))
    n = _e.to_int(eng.deref(kwargs.get("steps", args[2] if len(args) > 2 else None), st))
    eng.safety(st, "linspace:steps-nonnegative", n >= 0, None, "torch.linspace needs a non-negative number of steps")
    f = z3.Function(uid("linspace"), z3.IntSort(), z3.RealSort())
    k = z3.Int(uid("k"))
    st.assume(z3.ForAll([k], z3.Implies(z3.And(0 <= k, k < n), z3.And(_mn(lo, hi) <= f(k), f(k) <= _mx(lo, hi))), patterns=[f(k)]),
              z3.Implies(n >= 1, f(0) == lo), z3.Implies(n >= 2, f(n - 1) == hi))
    r = VSeq(n, lambda i: VReal(f(_e.to_int(i) if not z3.is_expr(i) else i)), REAL)
    r.kind = z3.IntVal(1)
    return st.alloc(r)


def _rand(args, kwargs, st, eng):
    """torch.rand(n, generator=g): n reals in [0, 1) that are a function of (generator key, draw number)"""
    from .libtorch import _gen_draw
    n = _e.to_int(eng.deref(args[0], st))
    key, draw = _gen_draw(kwargs.get("generator"), st, eng)
    f = z3.Function("RandUnit", z3.IntSort(), z3.IntSort(), z3.IntSort(), z3.RealSort())
    k = z3.Int(uid("k"))
    st.assume(z3.ForAll([k], z3.And(0 <= f(key, draw, k), f(key, draw, k) < 1), patterns=[f(key, draw, k)]))
    r = VSeq(n, lambda i: VReal(f(key, draw, i if z3.is_expr(i) else _e.to_int(i))), REAL)
    r.kind = z3.IntVal(1)
    return st.alloc(r)


def _gridlist(name, idx):
    gid = z3.Function(name.split("[")[0] + "$gid", z3.IntSort(), z3.IntSort())
    return AbsGrid(gid(idx) if idx is not None else z3.Int(name + "$gid"), z3.Int(name.split("[")[0] + "$h"), z3.Int(name.split("[")[0] + "$w"))


GRID_ELEM = TAbs(_gridlist, "grid")
from .libtorch import AbsGenerator
GEN = TAbs(lambda name, idx: AbsGenerator(z3.Int(name + "$key")), "torch.Generator")

GRID_LIB = {"torch.rand": _rand, "torch.linspace": _linspace, "torch.zeros": lambda a, k, s, e: _new_grid(a, k, s, e, False), "torch.ones": lambda a, k, s, e: _new_grid(a, k, s, e, True),
            "torch.stack": _stack}


def ext_get_item(args, kwargs, st, eng):
    """ModeWrapper.get_item(mode, item='x', batch): the x entry of a collated batch - a tensor (first dimension = batch size)
    or, for multi-view batches, a non-empty list of such tensors; only lengths matter here"""
    x = fresh(TSeq(TSeq(VAL)), "x_item")
    x.kind = z3.Int(uid("x_item$kind"))
    n = z3.Int(uid("x_item$batch"))
    k = z3.Int(uid("k"))
    inner = x.elem
    x = VSeq(x.len, lambda i: (lambda e: VSeq(n, e.elem, e.etype))(inner(i)), x.etype)
    x.kind = z3.Int(uid("x_item$kind"))
    st.assume(z3.Or(x.kind == 0, x.kind == 1), x.len >= 0, n >= 0, z3.Implies(x.kind == 0, x.len >= 1), z3.Implies(x.kind == 1, x.len == n))
    if "g_batch" in st.ghost:
        st.ghost["g_batch"] = VInt(n)          # the batch size the collator is entitled to read off the x item
    return st.alloc(x)
