"""Discharge obligations on a z3 5.x + cvc5 portfolio, in parallel.

unsat -> discharged; sat -> refuted (model kept); unknown/timeout on every back end -> undecided.
`cover` obligations are vacuity checks: they must be SAT.
"""
import multiprocessing as mp
import os
import re
import subprocess
import tempfile
import time

CVC5 = "/usr/bin/cvc5"


def _z3_check(smt2, timeout_ms, seed=0):
    import z3
    s = z3.Solver()
    s.set("timeout", timeout_ms)
    if seed:
        s.set("random_seed", seed)
    s.from_string(smt2)
    t0 = time.time()
    r = s.check()
    ms = int((time.time() - t0) * 1000)
    model = None
    if r == z3.sat:
        m = s.model()
        model = {}
        for d in m.decls():
            if d.arity() == 0:
                model[d.name()] = str(m[d])
            else:
                model[d.name()] = str(m[d])[:200]
    return str(r), ms, model, (s.reason_unknown() if r == z3.unknown else "")


def _cvc5_check(smt2, timeout_ms, want_model=True):
    if not os.path.exists(CVC5):
        return "unknown", 0, None, "cvc5 not installed"
    text = "(set-logic ALL)\n" + smt2
    if want_model:
        text = "(set-option :produce-models true)\n" + text
    with tempfile.NamedTemporaryFile("w", suffix=".smt2", delete=False) as f:
        f.write(text)
        path = f.name
    t0 = time.time()
    try:
        p = subprocess.run([CVC5, "--lang=smt2", f"--tlimit={timeout_ms}", path], capture_output=True, text=True,
                           timeout=timeout_ms / 1000 + 10)
        out = p.stdout.strip().split("\n")[0] if p.stdout.strip() else "unknown"
        err = p.stderr.strip()[:200]
    except subprocess.TimeoutExpired:
        out, err = "unknown", "timeout"
    finally:
        os.unlink(path)
    ms = int((time.time() - t0) * 1000)
    if out not in ("sat", "unsat"):
        return "unknown", ms, None, (out + " " + err).strip()
    model = None
    if out == "sat" and want_model:
        model = _cvc5_model(text, timeout_ms)
    return out, ms, model, ""


def _cvc5_model(text, timeout_ms):
    with tempfile.NamedTemporaryFile("w", suffix=".smt2", delete=False) as f:
        f.write(text + "\n(get-model)\n")
        path = f.name
    try:
        p = subprocess.run([CVC5, "--lang=smt2", f"--tlimit={timeout_ms}", path], capture_output=True, text=True,
                           timeout=timeout_ms / 1000 + 10)
        model = {}
        for m in re.finditer(r"\(define-fun (\S+) \(\) \S+ (.+?)\)\n", p.stdout):
            model[m.group(1).strip("|")] = m.group(2).strip()
        return model
    except Exception:
        return None
    finally:
        os.unlink(path)


def solve_one(job):
    idx, texts, tier, seed = job[:4]
    is_cover = len(job) > 4 and job[4]
    log = []
    total = 0
    smt2 = texts[-1]
    if is_cover:
        for backend, to in (("z3", 3000), ("cvc5", 4000)):
            r, ms, model, why = (_z3_check(smt2, to, seed) if backend == "z3" else _cvc5_check(smt2, to, False))
            total += ms
            log.append((backend, r, ms, why))
            if r in ("sat", "unsat"):
                return idx, r, backend, total, None, log
        return idx, "unknown", "none", total, None, log
    # sliced contexts first: only `unsat` is meaningful there
    for n, text in enumerate(texts[:-1]):
        for backend, to in (("z3", 1500), ("cvc5", 6000)):
            r, ms, model, why = (_z3_check(text, to, seed) if backend == "z3" else _cvc5_check(text, to, False))
            total += ms
            log.append((f"{backend}/slice{n + 1}", r, ms, why))
            if r == "unsat":
                return idx, "unsat", f"{backend}/slice{n + 1}", total, None, log
            if r == "sat":
                break      # a model of the slice: more hypotheses are needed, go on to the next slice
    if tier == "thorough":
        plan = [("z3", 20000), ("cvc5", 60000)]
    else:
        plan = [("z3", 2000), ("cvc5", 15000), ("z3", 30000)]
    results = {}
    for backend, to in plan:
        if backend == "z3":
            r, ms, model, why = _z3_check(smt2, to, seed)
        else:
            r, ms, model, why = _cvc5_check(smt2, to)
        total += ms
        log.append((backend, r, ms, why))
        if r in ("sat", "unsat"):
            results.setdefault(backend, (r, model))
            if tier != "thorough":
                return idx, r, backend, total, model, log
    if tier == "thorough" and results:
        verdicts = {v[0] for v in results.values()}
        if len(verdicts) > 1:
            return idx, "unknown", "disagree", total, None, log
        backend = "+".join(sorted(results))
        r, model = next(iter(results.values()))
        for b in results:
            if results[b][1]:
                model = results[b][1]
        return idx, r, backend, total, model, log
    return idx, "unknown", "none", total, None, log


def discharge(obligations, tier="quick", seed=0, procs=None):
    """fills verdict/backend/ms/model of each obligation"""
    jobs = []
    for i, ob in enumerate(obligations):
        if ob.verdict is not None:
            continue
        jobs.append((i, ob.slices(), tier, seed, ob.kind == 'cover'))
    if not jobs:
        return
    procs = procs or min(16, max(1, (os.cpu_count() or 4)))
    ctx = mp.get_context("fork")
    with ctx.Pool(min(procs, len(jobs))) as pool:
        for idx, r, backend, ms, model, log in pool.imap_unordered(solve_one, jobs, chunksize=1):
            ob = obligations[idx]
            ob.backend, ob.ms, ob.log = backend, ms, log
            if ob.kind == "cover":
                ob.verdict = {"sat": "discharged", "unsat": "vacuous", "unknown": "undecided"}[r]
            else:
                ob.verdict = {"unsat": "discharged", "sat": "refuted", "unknown": "undecided"}[r]
            ob.model = model
            if r == "unknown":
                ob.detail = "; ".join(f"{b}:{rr}:{ms_}ms {why}" for b, rr, ms_, why in log)
