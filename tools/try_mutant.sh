#!/bin/bash
# tools/try_mutant.sh <patch.diff> <property id>...   : apply the patch to /repo, run the quick checks, undo it
P=$1; shift
git -C /repo apply "$P" || { echo "patch does not apply"; exit 9; }
for id in "$@"; do
  out=$(cd /verif && ./check $id --tier quick 2>&1 | grep -E "^(OK|VIOLATION|UNDECIDED|CHECKER-ERROR|KNOWN)" | cut -c1-260)
  echo "[$id] $out"
done
git -C /repo checkout -- .
