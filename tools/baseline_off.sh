#!/bin/bash
# runs the repository's pinned test suite with the verification guard OFF and checks that every test of
# BASELINE.json's stable_pass list passes
unset KAPPADATA_VERIF
OUT=$(mktemp -d)
cd /repo && /venv/bin/python -m pytest -ra -q -p no:cacheprovider --timeout=900 --continue-on-collection-errors --junitxml=$OUT/junit.xml >$OUT/log.txt 2>&1
/venv/bin/python - "$OUT/junit.xml" <<'PY'
import json, sys, xml.etree.ElementTree as ET
base = json.load(open("/root/.vp/BASELINE.json"))
want = set(base["stable_pass"])
passed = set()
for tc in ET.parse(sys.argv[1]).getroot().iter("testcase"):
    if not any(ch.tag in ("failure", "error", "skipped") for ch in tc):
        passed.add(f"{tc.get('classname')}::{tc.get('name')}")
missing = sorted(want - passed)
print(f"stable_pass={len(want)} passing_now={len(want & passed)} total_passed={len(passed)}")
for m in missing[:20]:
    print("NOT PASSING:", m)
sys.exit(1 if missing else 0)
PY
RC=$?
rm -rf "$OUT"
exit $RC
