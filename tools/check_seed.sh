#!/bin/bash
# tools/check_seed.sh <dir with patch.diff> <property id>... : run quick checks against a scratch worktree carrying the patch (no /repo edit)
D=$(realpath "$1"); shift
cd "$(dirname "$0")/.."
WT=$(mktemp -d /tmp/kdseed.XXXX)
git -C /repo worktree add -q --detach "$WT" HEAD || exit 9
git -C "$WT" apply "$D/patch.diff" || { echo "[$D] APPLY-FAILED"; git -C /repo worktree remove --force "$WT"; exit 9; }
for P in "$@"; do
  OUT=$(KAPPADATA_REPO="$WT" PYTHONPATH="$WT" ./check $P --tier quick 2>&1 | grep -E "^(OK|VIOLATION|UNDECIDED|CHECKER-ERROR|KNOWN)" | cut -c1-300)
  echo "== $D [$P]"; echo "$OUT" | sed 's/^/     /'
done
git -C /repo worktree remove --force "$WT"
