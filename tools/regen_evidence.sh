#!/bin/bash
# re-run every registered quick check on the clean /repo tree so that the committed evidence comes from the unchanged tree
cd "$(dirname "$0")/.."
if [ -n "$(git -C /repo status --porcelain --untracked-files=no)" ]; then echo "/repo has uncommitted changes"; exit 9; fi
rc=0
for id in $(python3 -c "import json; print(' '.join(c['property_id'] for c in json.load(open('MANIFEST.json'))['checks']))"); do
  out=$(./check $id --tier quick 2>&1 | grep -E "^(OK|VIOLATION|UNDECIDED|CHECKER-ERROR)" | cut -c1-200)
  echo "[$id] $out"
  case "$out" in OK*) ;; *) rc=1;; esac
done
exit $rc
