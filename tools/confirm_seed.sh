#!/bin/bash
# tools/confirm_seed.sh <dir with patch.diff demo.py>  : confirm in a scratch worktree that
#  (a) demo passes without the patch, (b) demo fails with it, (c) the pinned stable tests still pass with it
D=$(realpath "$1")
WT=$(mktemp -d /tmp/kdconfirm.XXXX)
git -C /repo worktree add -q --detach "$WT" HEAD || exit 9
cd "$WT"
PYTHONPATH="$WT" /venv/bin/python "$D/demo.py" >/dev/null 2>&1; A=$?
git apply "$D/patch.diff" || { echo "APPLY-FAILED"; git -C /repo worktree remove --force "$WT"; exit 9; }
PYTHONPATH="$WT" /venv/bin/python "$D/demo.py" >/dev/null 2>&1; B=$?
PYTHONPATH="$WT" /venv/bin/python -c "import kappadata,sys; sys.exit(0 if kappadata.__file__.startswith('$WT') else 1)" || echo "WARNING: not importing worktree"
OUT=$(mktemp -d)
OMP_NUM_THREADS=2 MKL_NUM_THREADS=2 PYTHONPATH="$WT" /venv/bin/python -m pytest -ra -q -p no:cacheprovider --timeout=900 --continue-on-collection-errors --junitxml=$OUT/junit.xml >$OUT/log.txt 2>&1
C=$(/venv/bin/python - "$OUT/junit.xml" <<'PY'
import json, sys, xml.etree.ElementTree as ET
want = set(json.load(open("/root/.vp/BASELINE.json"))["stable_pass"])
passed = set()
for tc in ET.parse(sys.argv[1]).getroot().iter("testcase"):
    if not any(ch.tag in ("failure", "error", "skipped") for ch in tc):
        passed.add(f"{tc.get('classname')}::{tc.get('name')}")
print(len(want - passed))
PY
)
rm -rf "$OUT"
cd /; git -C /repo worktree remove --force "$WT"
echo "demo_without_patch_exit=$A demo_with_patch_exit=$B stable_tests_not_passing_with_patch=$C"
[ "$A" = "0" ] && [ "$B" != "0" ] && [ "$C" = "0" ]
