"""tools/try_contract.py <module> <NAME>[,NAME...] [all-contracts-attr]: run single sidecar contracts and print every obligation's verdict
(development aid: no evidence is written)"""
import importlib, sys, os, time
sys.path.insert(0, os.path.dirname(os.path.dirname(os.path.abspath(__file__))))
sys.setrecursionlimit(20000)
from pyvc.report import Result, run_contracts, group
from pyvc.solve import discharge
mod = importlib.import_module(sys.argv[1])
cs = [getattr(mod, n) for n in sys.argv[2].split(",")]
allc = list(cs)
for extra in sys.argv[3:]:
    m, a = extra.rsplit(".", 1)
    allc += getattr(importlib.import_module(m), a)
res = Result("TRY", "quick", 0)
t0 = time.time()
run_contracts(res, cs, allc)
discharge([o for o in res.obligations if o.verdict is None], tier=os.environ.get("VERIF_TIER", "quick"), seed=int(os.environ.get("VERIF_SEED", "0")))
for n, obs in group(res.obligations).items():
    v = {o.verdict for o in obs}
    print(("OK   " if v == {"discharged"} else "!!   ") + n, sorted(v), obs[0].kind, sum(o.ms or 0 for o in obs), "ms")
    if v != {"discharged"} and obs[0].kind != "cover":
        for o in obs:
            if o.verdict != "discharged":
                print("      ", (o.detail or "")[:600], "|", (o.note or "")[:300]); print("       model:", str(o.model)[:800]); break
print("errors:", res.errors, "wall", round(time.time() - t0, 1))
