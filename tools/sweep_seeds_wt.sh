#!/bin/bash
# tools/sweep_seeds_wt.sh [jobs] : like sweep_seeds.sh, but every seeded change is applied to a scratch worktree of /repo HEAD
# (KAPPADATA_REPO), so /repo is never touched and the properties are swept in parallel streams (seeds of one property sequentially,
# because a check rewrites its property's evidence file). One line per seed in seeded/SWEEP.log. Regenerate the evidence afterwards.
cd "$(dirname "$0")/.."
J=${1:-5}
one() {
  prop=$1
  for d in seeded/$prop-*/; do
    id=$(basename $d)
    WT=$(mktemp -d /tmp/kdsweep.XXXX)
    git -C /repo worktree add -q --detach "$WT" HEAD
    if ! git -C "$WT" apply "$PWD/$d/patch.diff" 2>/dev/null; then echo "$id PATCH-DOES-NOT-APPLY"; git -C /repo worktree remove --force "$WT"; continue; fi
    out=$(KAPPADATA_REPO="$WT" PYTHONPATH="$WT" ./check $prop --tier quick 2>&1); code=$?
    git -C /repo worktree remove --force "$WT"
    first=$(echo "$out" | grep -E "^VIOLATION" | head -1 | sed 's/.*obligation=//' | cut -c1-150)
    echo "$id exit=$code $first"
  done
}
export -f one
ls seeded | grep -- - | sed 's/-.*//' | sort -u | xargs -P $J -I{} bash -c 'one {}' | tee seeded/SWEEP.tmp
sort -V seeded/SWEEP.tmp > seeded/SWEEP.log; rm -f seeded/SWEEP.tmp
echo "not exit=1: $(grep -vc 'exit=1' seeded/SWEEP.log)"
