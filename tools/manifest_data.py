TRUST = ("trusted: the pyvc VC generator and its Python-subset semantics (ints mathematical, floats as reals), z3/cvc5, the "
         "library contracts listed in the evidence's trusted_base, the domain assumptions on samplers/datasets named in the contracts")
CHECKS = {
    "C03": dict(level="proof", technique="contract-based deductive verification of the wrapper constructors over integer-sequence terms (AST->SMT; numpy/torch index-array contracts), termination by loop variant, bounded real wrappers",
                text="PercentFilter / SubsetWrapper / RepeatWrapper / ShuffleWrapper / ClassFilterWrapper / SortByClassWrapper / FewshotWrapper constructors establish exactly the promised index sequence (contiguous ranges with None-only defaults, whole round-robin copies "
                     "reaching min_size, a permutation keyed by the seed, order-preserving class filter, strict (class, position) order of valid labelled samples, few-shot selections valid, class-sorted and duplicate-free, oversampling(multiply) keeps every sample and appends only labelled ones); OversamplingWrapper(exact) terminates for every class layout; the remaining three wrappers, the few-shot amounts and the balance clauses are bounded only",
                note=TRUST + "; numpy arange/tile/ceil/shuffle contracts; percent products on reals; KDSubset constructibility as frame obligation"),
    "C04": dict(level="proof", technique="contract-based deductive verification (own AST->SMT VC generator, z3+cvc5), refinement of a ghost spec automaton by loop invariants",
                text="every obligation generated from the real InterleavedSampler.__init__/__iter__/_training_loop and _InterleavedBatchSampler.__iter__ "
                     "(yield-site assertions = the property statement over ghost spec counters, loop invariants, variants for termination, internal asserts) "
                     "is discharged for all N, B, budgets, drop_last settings and config lists; a bounded oracle comparison on the real objects accompanies it",
                note=TRUST),
    "C05": dict(level="proof", technique="contract-based deductive verification (own AST->SMT VC generator, z3+cvc5)",
                text="due(c) as a disjunction over the interval kinds, whole unmixed passes, offsets (by an induction rule), concat-dataset index resolution "
                     "(bisect axiom) and collator dispatch are post-conditions/invariants on the real functions, all discharged unboundedly",
                note=TRUST),
    "C06": dict(level="proof", technique="contract-based deductive verification: constructor postcondition sigma(k) + loop-head invariant at entry",
                text="the constructor's stored checkpoint is proved to be the loop-head state sigma(k) of the uninterrupted run (same geometry spec function), "
                     "the loop's entry obligations are proved from it; equal states give equal continuations",
                note=TRUST),
    "C01": dict(level="proof", technique="contract-based deductive verification of ModeWrapper.__getitem__ against a table specification (quantified loop invariants, AST->SMT) + bounded enumeration of mode strings on the real stacks",
                text="for a well-formed loader table every output position holds its owner entry's value for the normalised index (fused groups delivered in mode order from one joint load), "
                     "bare value vs tuple, context appended iff requested, None unless propagated; helpers on item sequences and the TorchWrapper component dispatch; "
                     "table construction by __init__ and slice/list/iteration forms are bounded only",
                note=TRUST + "; the table well-formedness precondition is established by the bounded stand-in, not by proof"),
    "C02": dict(level="proof", technique="contract-based deductive verification, structural induction through layer contracts (AST->SMT, z3+cvc5); frame check of constructibility; bounded nested stacks",
                text="every layer (KDSubset, KDConcatDataset, KDWrapper, getall helpers) is verified once against the abstract contract of the layer below and "
                     "re-establishes it with its index map composed in (negative indices, bisect over cumulative sizes incl. zero-length parts, balanced round-robin, "
                     "bulk == per-sample, introspection, dispose/worker hooks reach every child); all obligations discharged; "
                     "constructibility under the installed torch is a frame obligation",
                note=TRUST + "; accessor-name dispatch is verified for one representative name per prefix class; int(a/b) treated as exact truncation"),
    "C07": dict(level="proof", technique="frame / effect obligations decided on the AST of every transform class (random sources read, set_rng reach over a class model) + contract verification of every set_rng override (AST->SMT, ghost call maps) + bounded two-instance differential",
                text="for each of the ~80 transform classes discovered on every run: no method reads a process-global random source, set_rng rebinds the own generator and reaches every member that can draw "
                     "(path-sensitive SMT contracts for the 12 overrides incl. loops over symbolic member lists), all names bound; hence output and ctx are a function of the injected seed and the inputs",
                note=TRUST + "; frame obligations are deductive but not SMT proofs (back end 'frame-checker'); torchvision / PIL kernels assumed deterministic and RNG-free"),
    "C08": dict(level="proof", technique="contract-based deductive verification of the seeded getitem paths (generator key seed+idx reaches every KD transform, loops over view configs / transform lists) + frame obligations (no in-place write to dataset values, names bound) + bounded stand-in with real DataLoader workers",
                text="TransformWrapperBase._getitem, KDMultiViewWrapper.getitem_x, SemsegTransformWrapper.getitem_xsemseg: with a seed every KD transform receives default_rng(seed + idx) before it is applied, on every path; "
                     "no in-place tensor operation on values obtained from the wrapped dataset anywhere in the sample-wrapper packages",
                note=TRUST + "; relies on C07 for what a transform does with the injected generator; every public accessor of the transform wrappers (incl. the fused x-class path) is proved to go through the seeded _getitem exactly once; KDMixWrapper's generator key and the ready-made pipelines are bounded only"),
    "C09": dict(level="proof", technique="contract-based deductive verification of every worker hook (reach over children / owned transforms / collators by loop invariants, AST->SMT) + class-model frame obligations + simulated workers",
                text="worker_init_fn of KDWrapper / KDSubset / KDConcatDataset / ModeWrapper / interleaved concat dataset reaches every child; KDDataset re-seeds every registered collator; a transform's hook rebinds its generator from the "
                     "worker's global RNG and (through set_rng, C07) every member at any depth; every sample wrapper that owns transforms has a hook reaching them. The statistical clause ('never replay one another's stream, not even in part') is not applicable and says so in the evidence",
                note=TRUST + "; torch seeds each worker's global numpy RNG (DataLoader contract)"),
    "C10": dict(level="proof", technique="contract-based deductive verification of KDMixCollator.collate (both lambda modes), get_random_bbox and shuffle over batch tensors with opaque per-sample rows and an uninterpreted elementwise algebra (ghost version map for in-place operations and aliasing, row views, loop invariant over the per-sample loop, elementwise real / integer tensor arithmetic; AST->SMT, z3+cvc5) + frame obligation + run-time contract on the real collator, labelled bounded",
                text="for every batch size, shuffle mode and probability split: label row i == w_i*y_i + (1-w_i)*y_p(i) and image row i == w_i*x_i + (1-w_i)*x_p(i) (mixup) or x_i with one box of x_p(i) pasted (cutmix) with the SAME partner p(i) "
                     "(roll / flip / the one permutation drawn, self for a batch of one) and the same weight; the box lies inside the image and the weight handed back is 1 - box area / image area (hence in [0,1]); "
                     "the context's lambda is the weight object used; per-sample mode: sample i's own flag, box and weight (loop invariant; partner rows of the clone untouched until used, by injectivity of p). "
                     "Binary (1-d) labels, numeric consequences (rows sum to one), pixel-level box content and the ModeWrapper item plumbing are bounded only",
                note=TRUST + "; tensor `*` / `+` / box paste are uninterpreted row operations (no algebraic law used); ModeWrapper.has_item / get_item / set_item enter as assumed contracts (image (N,C,H,W), one-hot labels (N,classes)); "
                             "torch.clamp / stack / where / empty / floor / sqrt >= 0 / .type(long) truncation as in pyvc/libtensor.py"),
    "C11": dict(level="proof", technique="contract-based deductive verification of KDMixWrapper.getitem_xclass over an uninterpreted elementwise tensor algebra (result terms compared with the specification term; witnesses = the function's own partner / weight locals; AST->SMT) + frame obligations on the AST + run-time contract on the real wrapper, labelled bounded",
                text="for equal sample shapes (mixup_unify_shapes_mode None): the result is either (x_i, onehot(y_i)) or (lam*x_i + (1-lam)*x_j, lam*onehot(y_i) + (1-lam)*onehot(y_j)) with ONE partner j in [0, len) of the same dataset and ONE weight lam in [0, 1] "
                     "used for data and label; a total probability >= 1 always mixes; one partner draw and one weight per request, no in-place write to dataset values (frame). "
                     "The pad_or_cut_end shape unification, the numeric consequences (rows non-negative with sum one), cutmix (NotImplementedError) and the agreement of image-only / label-only / joint requests through ModeWrapper's fusion are bounded only",
                note=TRUST + "; tensor `*` / `+` are uninterpreted (no algebraic law is used); to_one_hot_vector, getdim_class and the wrapped dataset (deterministic getitem_x / getitem_class) are assumed contracts"),
    "C12": dict(level="proof", technique="contract-based deductive verification (AST->SMT, z3+cvc5) over integer-sequence terms; frame check for rank independence; bounded oracle",
                text="per-rank stream == strided slice of one global draw keyed by seed+epoch, length == len(sampler), repeats occupy consecutive slots: "
                     "postconditions at the yield sites of DistributedSampler/RandomSampler/WeightedSampler.__iter__, lengths of ClassBalancedSampler, all discharged; "
                     "the two internal asserts of DistributedSampler.__iter__ are proved",
                note=TRUST + "; torch.randperm/multinomial/randint are uninterpreted functions of (generator key, draw number); torch's own __iter__ for num_repeats==1 is trusted"),
    "C13": dict(level="proof", technique="contract-based deductive verification (loop invariants with variant on the per-class chunk loop) + bounded stand-in for multiset clauses",
                text="class-balanced: chunk lengths sum to samples_per_class per class (invariant + termination), weighted: no repeats / valid indices from the multinomial axiom, "
                     "length modes of the semi sampler, SemiSampler.__init__ partitions the dataset into labeled / unlabeled pools by the -1 marker; evenness, pool exhaustion and alternation only bounded (stated in evidence)",
                note=TRUST),
    "C14": dict(level="proof", technique="contract-based deductive verification of the crop / pad / erase / segmentation-pair / norm transforms over an abstract image (width, height, channels, per-channel affine value map; torchvision functional ops as assumed contracts that oblige their box / padding arguments and record them in ghost registers; AST->SMT, z3+cvc5, nonlinear real arithmetic for the aspect-ratio fallback) + frame obligations on the einops patterns + bounded image-level stand-in (tensor and PIL)",
                text="get_params of KDRandomCrop / KDTwoRandomCrop / KDRandomResizedCrop / KDSemsegRandomCrop return a box inside the image they were computed for, with the requested size, for all image and target sizes; "
                     "__call__ returns the configured output size and the ctx entries equal the arguments of the applied crop; erase regions lie inside the tensor; every semseg transform passes identical recorded arguments to image and mask; "
                     "KDSemsegPad pads exactly the centred deficit; multi-crop windows lie inside the image; normalise / denormalise compose to the identity affine map per channel on reals; patchify / unpatchify patterns are mirror images. "
                     "Pixel content, PIL inputs, interpolation, spec-augment band widths, patch shuffles, tiling coverage, KDSimpleRandomCrop and float round-off are bounded only",
                note=TRUST + "; torchvision functional crop / resized_crop / pad / resize / hflip / normalize / get_image_size and einops.rearrange enter as assumed contracts; round() as an integer within 1/2; exp > 0, sqrt >= 0 as the only facts about the transcendental functions; "
                             "domain assumption: KDRandomResizedCrop's ratio range is positive and contains 1"),
    "C15": dict(level="proof", technique="relational (two-run) contract verification of every _scale_strength on reals (AST->SMT, z3+cvc5); ghost call maps for forwarding; bounded zoo",
                text="each leaf scaling function is executed twice symbolically on receivers that agree only on the constructed values: factor 1 restores, factor 0 collapses to the identity, "
                     "monotone in between, independent of the previous state (no compounding); forwards reach every member with the unchanged factor (loop invariant over the member list); "
                     "the scheduled transform passes Sched((k // B) * W + r) and writes it to ctx; n_batches per budget kind",
                note=TRUST + "; floats as reals (inf/nan magnitudes outside the model); DataLoader round-robin assignment assumed"),
    "C16": dict(level="proof", technique="contract-based deductive verification (bulk accessor == per-sample accessor as postconditions that call the real mapping function, range lemmas, ownership frame obligation; AST->SMT) + class-model frame check + bounded real wrappers",
                text="ClassGroups / RandomSuperclass / SwapLabel / KDRandomClass / Allgather / Semi wrappers: getall_class()[k] == getitem_class(k) for all k, labels in [0, announced) or -1, "
                     "no write into the list owned by the wrapped dataset; smoothing vector algebra on reals with symbolic class count; every int-label wrapper that rewrites getitem_class also defines getall_class; "
                     "constructors, pseudo-label tables and one-hot encodings are bounded only",
                note=TRUST + "; the wrapped dataset is the abstract int-label dataset (labels in [-1, C), bulk == per-sample below)"),
    "C17": dict(level="proof", technique="contract-based deductive verification of the mask collators over abstract 0/1 grids (uninterpreted cell and box-count functions with write axioms; ghost version map for in-place mutation; loop invariants incl. nested fill loops and quantified invariants over symbolic mask lists; AST->SMT, z3+cvc5) + frame obligation (block sizes keyed by the step counter) + bounded stand-in on the real collators",
                text="DINO: _mask_block switches on exactly `result` <= remaining-budget cells inside the grid, _generate_mask never exceeds its total and terminates, collate touches only the first floor(B*V*p) masks, "
                     "every mask's count <= ratio_max * patches, B*V masks of the configured grid size, batch returned as is. I-JEPA: block sizes in [0, grid-1]; _sample_block_mask returns the sorted duplicate-free in-range indices of a "
                     "rectangle of the requested size plus its exact complement; _sample_block_mask_constrained returns sorted in-range indices inside every acceptable region, more than min_keep of them, leaving the regions unmodified, "
                     "under the property's no-relaxation precondition. I-JEPA collate (list plumbing, truncation, default_collate layout), the count of non-empty masks after the shuffle and the multiprocessing step counter are bounded only",
                note=TRUST + "; torch 2-d indexing / elementwise product / flatten().nonzero() / linspace / rand / stack enter as the assumed contracts of pyvc/libmask.py; parameters are distinct objects from later allocations (allocation freshness); "
                             "ModeWrapper.get_item is an assumed contract (only the batch size is read off the x item)"),
    "C18": dict(level="proof", technique="contract-based deductive verification of the layout state machine (ghost layout/origin, loop invariant over a symbolic member list, AST->SMT) + bounded padding collator",
                text="_call_impl / KDComposeCollator.__call__ / KDSingleCollatorWrapper.__call__: default_collate at most once and exactly when a member asks, every member sees the layout its mode asks for, "
                     "(batch, ctx) iff configured, ctx is the batch's own batched context; obligations on explicitly rejected member orders are excused; the padding collator is bounded only",
                note=TRUST + "; torch default_collate (dict key set preserved, list->batch) assumed"),
    "C19": dict(level="proof", technique="contract-based deductive verification with rely/guarantee interference (map invariant as obligation at every atomic step, AST->SMT incl. try/except) + bounded real-process stand-in",
                text="_cached_getitem returns the wrapped dataset's sample and re-establishes the map invariant for sequential histories, concurrent readers and concurrent clears "
                     "(no KeyError may escape); dispose empties the map; the post-cache transform is applied on every access; base reads only for uncached indices",
                note=TRUST + "; Manager().dict() operations atomic, values round-trip through pickle to equal values, deterministic base dataset"),
    "C20": dict(level="other", technique="contract-based deductive verification in a crash Hoare logic over an abstract file system (one SMT obligation per crash-exposed state of every FS call of the real bodies) + fault-injection stand-in on the real functions",
                text="CI (marker protocol invariant) is precondition and must hold in every state a crash can expose; post-conditions for complete copy / untouched user folder / idempotence / truthful result. "
                     "42 of 48 obligations are discharged; 3 crash windows per function genuinely violate CI (replayed by crash injection) and are listed as known findings, so the claim is 'other', not 'proof'",
                note=TRUST + "; file-system model of crashfs.py (atomic mkdir/marker creation, non-atomic rmtree/copytree/extractall); unzip helpers and folder_contains_mostly_zips enter as assumed contracts and are exercised by the fault-injection stand-in"),
}
PENDING = "check not built yet in this round (work in progress, see DESIGN.md Appendix B)"
NOT_APPLICABLE = {f"C{i:02d}": PENDING for i in range(1, 21)}
NOTES = ("exit codes of every check: 0 held, 1 violation (VIOLATION line), 2 undecided only (never a VIOLATION line), 3 checker error. "
         "fix: commits in /repo are listed in known_findings.json as fixed entries.")
