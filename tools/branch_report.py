#!/usr/bin/env python3
"""tools/branch_report.py : diagnostic - for every contract of every property, the `if` statements of the code under contract of which
only one branch was ever executed symbolically (legitimate when the contract's preconditions exclude the other one; a modelling error
when they do not). Run with /verif/.venv/bin/python."""
import importlib, os, sys
sys.path.insert(0, os.path.dirname(os.path.dirname(os.path.abspath(__file__))))
from pyvc import report
from pyvc.engine import Engine

cov_all = {}
orig_init = Engine.__init__
def init(self, *a, **k):
    orig_init(self, *a, **k)
    self.branch_cov = cov_all
Engine.__init__ = init

class Res:
    def __init__(self):
        self.obligations, self.functions, self.trusted, self.errors, self.notes, self.bounded = [], [], set(), [], [], []
        self.seed, self.tier = 0, "quick"

for pid in sys.argv[1:] or [f"C{i:02d}" for i in range(1, 21)]:
    mod = importlib.import_module(f"props.{pid}")
    # run only the contract part: monkeypatch add_direct / frames / bounded to no-ops is not needed - collect from run_contracts
    orig = report.run_contracts
    seen = []
    def rc(res, contracts, allc=None, _o=orig):
        e = _o(res, contracts, allc)
        return e
    import pyvc.report as R
    res = Res()
    try:
        src = open(mod.__file__).read()
        # call run_contracts the way the property does, skipping everything else: find contract lists by executing run() with stubs
        import types
        stub = types.SimpleNamespace()
        saved = {}
        for name in dir(mod):
            obj = getattr(mod, name)
            if name in ("frames",) or (isinstance(obj, types.ModuleType) and obj.__name__.startswith("replay")):
                saved[name] = obj
                class _Any:
                    def __getattr__(self, k): return lambda *a, **kw: (None, 0, 0, {})
                setattr(mod, name, _Any())
        if hasattr(mod, "add_direct"):
            saved["add_direct"] = mod.add_direct
            mod.add_direct = lambda *a, **k: None
        try:
            mod.run(res)
        except Exception as ex:
            print(f"[{pid}] run stopped after contracts: {type(ex).__name__}: {str(ex)[:80]}")
        for k, v in saved.items():
            setattr(mod, k, v)
    except Exception as ex:
        print(f"[{pid}] {type(ex).__name__}: {ex}")
    for key, taken in sorted(cov_all.items()):
        if len(taken) == 1:
            top, rel, qual, line, test = key
            print(f"[{pid}] {top.split('::')[-1][:50]:50s} {rel.split('/')[-1]}:{line} {qual.split('.')[-1]}: `if {test}` only {'then' if True in taken else 'else'}")
    cov_all.clear()
