#!/bin/bash
# tools/process_seed.sh <dir with patch.diff demo.py meta.json> <property id> : confirm the change in a scratch worktree
# (tools/confirm_seed.sh) and run the property's quick check against a second scratch worktree carrying the patch
# (KAPPADATA_REPO=<wt>; /repo itself is not touched, so several seeds can be processed concurrently). Prints one summary line.
D=$(realpath "$1"); P=$2
cd "$(dirname "$0")/.."
CONF=$(tools/confirm_seed.sh "$D" 2>&1 | tail -1)
WT=$(mktemp -d /tmp/kdseed.XXXX)
git -C /repo worktree add -q --detach "$WT" HEAD || exit 9
git -C "$WT" apply "$D/patch.diff" || { echo "[$D] APPLY-FAILED"; git -C /repo worktree remove --force "$WT"; exit 9; }
OUT=$(KAPPADATA_REPO="$WT" PYTHONPATH="$WT" VERIF_NO_EVIDENCE=1 ./check $P --tier quick 2>&1 | grep -E "^(OK|VIOLATION|UNDECIDED|CHECKER-ERROR|KNOWN)" | cut -c1-300)
git -C /repo worktree remove --force "$WT"
echo "== $D [$P] confirm: $CONF"
echo "$OUT" | sed 's/^/     /'
