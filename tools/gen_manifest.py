#!/usr/bin/env python3
"""writes /verif/MANIFEST.json from tools/manifest_data.py (validated against the schema)"""
import json, os, sys, subprocess
ROOT = os.path.dirname(os.path.dirname(os.path.abspath(__file__)))
sys.path.insert(0, ROOT)
from tools.manifest_data import CHECKS, NOT_APPLICABLE, NOTES
props = [json.loads(l) for l in open(os.path.join(ROOT, "properties.jsonl"))]
ids = [p["id"] for p in props]
fixes = subprocess.run(["git", "-C", "/repo", "log", "--format=%h %s"], capture_output=True, text=True).stdout.strip().split("\n")
man = {
    "version": 1,
    "setup_cmd": "./setup.sh",
    "hooks": {"guard": "KAPPADATA_VERIF", "enable": "none needed: contracts are sidecar files under /verif/contracts, "
              "replay and fault injection monkeypatch from outside the repository; no hook commit exists",
              "baseline_off_cmd": "/verif/tools/baseline_off.sh", "source_commits": [], "add_only": True},
    "engines": [{"name": "pyvc", "path": "pyvc/", "serves_properties": sorted(CHECKS),
                 "kind_free_text": "contract-based deductive verification: sidecar contracts (pre/post, loop invariants, "
                 "variants, ghost state) on the real functions of /repo, VCs generated from the AST on every run, "
                 "discharged by z3 5.1 + cvc5 1.0.3; frame-checker for effect obligations; bounded runtime-contract stand-ins"}],
    "checks": [], "not_applicable": [], "notes": NOTES,
}
for pid in ids:
    if pid in CHECKS:
        c = CHECKS[pid]
        man["checks"].append({
            "property_id": pid, "quick_cmd": f"./check {pid} --tier quick", "thorough_cmd": f"./check {pid} --tier thorough",
            "evidence_file": f"evidence/{pid}.json", "replay_cmd_template": f"./check {pid} --replay {{path}}",
            "engine": "pyvc",
            "level_claimed": {"category": c["level"], "text": c["text"], "design_ref": c.get("design_ref", f"DESIGN.md section 5 {pid}")},
            "level_note": c["note"], "technique": c["technique"]})
    else:
        man["not_applicable"].append({"property_id": pid, "reason": NOT_APPLICABLE.get(pid, "not claimed")})
json.dump(man, open(os.path.join(ROOT, "MANIFEST.json"), "w"), indent=1)
try:
    import jsonschema
    jsonschema.validate(man, json.load(open("/root/.vp/MANIFEST.schema.json")))
    print("MANIFEST.json valid:", len(man["checks"]), "checks,", len(man["not_applicable"]), "not applicable")
except ImportError:
    print("written (jsonschema not available for validation)")
