#!/bin/bash
# tools/seed_sweep.sh : every registered check, quick tier with several VERIF_SEED values and thorough tier with two, on the clean tree;
# prints only runs that are not OK (used to shake out statistical false alarms of the bounded stand-ins and unstable solver verdicts)
cd /verif
for id in $(python3 -c "import json; print(' '.join(c['property_id'] for c in json.load(open('MANIFEST.json'))['checks']))"); do
  for spec in "quick 1" "quick 2" "quick 3" "quick 5" "quick 11" "thorough 1" "thorough 2"; do
    set -- $spec
    out=$(VERIF_SEED=$2 ./check $id --tier $1 2>&1); rc=$?
    if [ $rc -ne 0 ]; then echo "[$id $1 seed=$2] rc=$rc $(echo "$out" | grep -E '^(VIOLATION|UNDECIDED|CHECKER-ERROR)' | head -2 | cut -c1-260)"; fi
  done
  echo "[$id] done"
done
