#!/usr/bin/env python3
"""tools/sync_design_table.py : rewrite the obligation / function counts in DESIGN.md section 9.1 from the evidence files"""
import json, re, os
root = os.path.dirname(os.path.dirname(os.path.abspath(__file__)))
p = os.path.join(root, "DESIGN.md")
s = open(p).read()
for i in range(1, 21):
    pid = f"C{i:02d}"
    ev = json.load(open(os.path.join(root, "evidence", pid + ".json")))
    c = ev["coverage"]
    ob, di, fn = c["obligations"], c["discharged"], len(c.get("functions_under_contract", []))
    cell = f"{ob}" if ob == di else f"{ob} ({di} discharged, {ob - di} known)"
    s, n = re.subn(rf"^\| {pid} \| (\w+) \| [^|]+ \| \d+ \|", lambda m: f"| {pid} | {m.group(1)} | {cell} | {fn} |", s, flags=re.M)
    if n != 1:
        print("row not found", pid, n)
open(p, "w").write(s)
print("synced")
