#!/usr/bin/env python3
"""tools/keep_seed.py <src dir> <seed id> <property> "<detected by ...>" : copy a confirmed seeded change into /verif/seeded/"""
import json, os, shutil, sys
src, sid, prop, detected = sys.argv[1:5]
dst = os.path.join(os.path.dirname(os.path.dirname(os.path.abspath(__file__))), "seeded", sid)
os.makedirs(dst, exist_ok=True)
for f in ("patch.diff", "demo.py"):
    shutil.copy(os.path.join(src, f), os.path.join(dst, f))
meta = json.load(open(os.path.join(src, "meta.json")))
meta.update({"property": prop, "seed_id": sid,
             "confirmed": "tools/confirm_seed.sh: demo exits 0 on the unchanged tree, 1 with the patch; all 301 stable baseline tests pass with the patch",
             "ran": f"tools/try_mutant.sh seeded/{sid}/patch.diff {prop}", "detected_by": detected})
json.dump(meta, open(os.path.join(dst, "meta.json"), "w"), indent=1)
print("kept", dst)
