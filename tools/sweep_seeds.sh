#!/bin/bash
# tools/sweep_seeds.sh : apply every kept seeded change to /repo in turn, run its property's quick check, undo; one line per seed.
# (regenerate the evidence afterwards: tools/regen_evidence.sh)
cd /verif
for d in /verif/seeded/*/; do
  id=$(basename $d); prop=${id%-*}
  if ! git -C /repo apply --check $d/patch.diff 2>/dev/null; then echo "$id PATCH-DOES-NOT-APPLY"; continue; fi
  git -C /repo apply $d/patch.diff
  out=$(./check $prop --tier quick 2>&1); code=$?
  git -C /repo checkout -- .
  first=$(echo "$out" | grep -E "^VIOLATION" | head -1 | sed 's/.*obligation=//' | cut -c1-150)
  echo "$id exit=$code $first"
done
