#!/bin/bash
# Builds /verif/.venv offline: python 3.12 of /venv (torch etc. through a .pth) + z3-solver, cvc5, icontract,
# deal, jsonschema from the offline wheelhouse. Idempotent.
set -e
cd "$(dirname "$0")"
export PIP_NO_INDEX=1 PIP_DISABLE_PIP_VERSION_CHECK=1
if [ ! -x .venv/bin/python ] || ! .venv/bin/python -c "import z3, jsonschema, torch, icontract" 2>/dev/null; then
  rm -rf .venv
  /venv/bin/python -m venv --without-pip .venv
  SP=$(.venv/bin/python -c "import sysconfig; print(sysconfig.get_paths()['purelib'])")
  echo "import site; site.addsitedir('/venv/lib/python3.12/site-packages')" > "$SP/_venv_overlay.pth"
  /venv/bin/python -m pip --version >/dev/null 2>&1 && PIP="/venv/bin/python -m pip" || PIP="python3-vt -m pip"
  $PIP install --no-index --find-links /opt/veriftools/wheels --target "$SP" --no-deps -q \
      z3-solver jsonschema jsonschema_specifications referencing rpds_py attrs icontract asttokens six typing_extensions
fi
.venv/bin/python - <<'PY'
import z3, jsonschema, torch, icontract, numpy, kappadata
print("venv ok: z3", z3.get_version_string(), "torch", torch.__version__, "kappadata", kappadata.__file__)
PY
