"""Bounded stand-in / native replay for C16: real label-rewriting wrappers over small label lists."""
import itertools
import random
import torch


def _ds(labels, n_classes):
    from kappadata.datasets.kd_dataset import KDDataset

    class D(KDDataset):
        def __init__(self):
            super().__init__()
            self.labels = list(labels)

        def __len__(self): return len(self.labels)
        def getitem_x(self, idx, ctx=None): return ("x", idx)
        def getitem_class(self, idx, ctx=None): return self.labels[idx]
        def getall_class(self): return self.labels          # hands out its own list
        def getshape_class(self): return (n_classes,)
    return D()


def builders(labels, C, seed):
    from kappadata.wrappers.dataset_wrappers.class_groups_wrapper import ClassGroupsWrapper
    from kappadata.wrappers.dataset_wrappers.random_superclass_wrapper import RandomSuperclassWrapper
    from kappadata.wrappers.dataset_wrappers.swap_label_wrapper import SwapLabelWrapper
    from kappadata.wrappers.dataset_wrappers.overwrite_classes_wrapper import OverwriteClassesWrapper
    from kappadata.wrappers.dataset_wrappers.allgather_class_wrapper import AllgatherClassWrapper
    from kappadata.wrappers.dataset_wrappers.kd_pseudo_label_wrapper import KDPseudoLabelWrapper
    from kappadata.wrappers.sample_wrappers.kd_random_class_wrapper import KDRandomClassWrapper
    from kappadata.wrappers.sample_wrappers.semi_wrapper import SemiWrapper
    n = len(labels)
    g = torch.Generator().manual_seed(seed)
    logits = torch.randn(n, C, generator=g)
    B = []
    if all(l >= 0 for l in labels):
        for cpg in (1, 2, 3):
            if C % cpg == 0:
                for sh in (False, True):
                    B.append((f"ClassGroups(cpg={cpg},shuffle={sh})", lambda d, cpg=cpg, sh=sh: ClassGroupsWrapper(d, classes_per_group=cpg, shuffle=sh, seed=seed), C))
        for cps, splits in ((1, 1), (2, 1), (2, 2), (3, 2)):
            og = -(-C // cps)
            B.append((f"RandomSuperclass(cps={cps},splits={splits})",
                      lambda d, cps=cps, splits=splits: RandomSuperclassWrapper(d, classes_per_superclass=cps, superclass_splits=splits, seed=seed), og * splits))
        for p in (0.0, 0.5, 1.0):
            B.append((f"SwapLabel(p={p})", lambda d, p=p: SwapLabelWrapper(d, p=p, seed=seed), C))
    new = [(l * 7 + 1) % C for l in range(n)]
    B.append(("OverwriteClasses(list)", lambda d: OverwriteClassesWrapper(d, classes=list(new)), C))
    B.append(("OverwriteClasses(tensor)", lambda d: OverwriteClassesWrapper(d, classes=torch.tensor(new)), C))
    for W in (1, 2, 3):
        if W <= n:
            B.append((f"Allgather(W={W})", lambda d, W=W: AllgatherClassWrapper(d, world_size=W), C))
    B.append(("PseudoLabel(hard 1-D)", lambda d: KDPseudoLabelWrapper(d, pseudo_labels=torch.tensor(new)), C))
    B.append(("PseudoLabel(logits)", lambda d: KDPseudoLabelWrapper(d, pseudo_labels=logits.clone()), C))
    for th in (0.3, 0.6):
        B.append((f"PseudoLabel(threshold={th})", lambda d, th=th: KDPseudoLabelWrapper(d, pseudo_labels=logits.clone(), threshold=th), C))
    # confidence exactly on the threshold: uniform rows / two tied winners
    tied = logits.clone()
    tied[0] = 0.
    if C >= 2:
        tied[1] = float("-inf")
        tied[1, :2] = 1.
    B.append((f"PseudoLabel(threshold=1/{C}, tied rows)", lambda d: KDPseudoLabelWrapper(d, pseudo_labels=tied.clone(), threshold=1.0 / C), C))
    B.append(("PseudoLabel(threshold=0.5, tied rows)", lambda d: KDPseudoLabelWrapper(d, pseudo_labels=tied.clone(), threshold=0.5), C))
    # sampled (top-k) pseudo labels with a seed are static: the same index gives the same label on every read
    if C >= 2:
        probs = logits.clone().softmax(dim=1)
        B.append(("PseudoLabel(topk=2, tau=inf, seeded)", lambda d: KDPseudoLabelWrapper(d, pseudo_labels=probs.clone(), topk=2, tau=float("inf"), seed=seed), C))
        B.append(("PseudoLabel(topk=2, probs, seeded)", lambda d: KDPseudoLabelWrapper(d, pseudo_labels=probs.clone(), topk=2, seed=seed), C))
    for mode in ("random", "randperm"):
        B.append((f"RandomClass({mode})", lambda d, mode=mode: KDRandomClassWrapper(d, mode=mode, seed=seed), C))
    for sp in (0.0, 0.4, 1.0):
        B.append((f"Semi({sp})", lambda d, sp=sp: SemiWrapper(dataset=d, semi_percent=sp, seed=seed), C))
    return B


def check_wrapper(name, build, rng_range, labels, C):
    d = _ds(labels, C)
    before = list(d.labels)
    try:
        w = build(d)
    except AssertionError:
        return None
    n = len(labels)
    per = [w.getitem_class(i) for i in range(n)]
    per = [p.item() if torch.is_tensor(p) else p for p in per]
    # reproducible: repeated and reordered reads of the same instance give the same label (seeded wrappers are static)
    for rep in range(3):
        again = [w.getitem_class(i) for i in (range(n) if rep % 2 == 0 else reversed(range(n)))]
        again = [p.item() if torch.is_tensor(p) else p for p in again]
        if (again if rep % 2 == 0 else again[::-1]) != per:
            return {"what": "repeated reads of the same index give different labels", "wrapper": name, "first": per, "again": again}
    try:
        bulk = w.getall_class()
    except NotImplementedError:
        bulk = None
    if bulk is not None:
        bulk = [b.item() if torch.is_tensor(b) else b for b in (bulk.tolist() if torch.is_tensor(bulk) else list(bulk))]
        if bulk != per:
            return {"what": "bulk label accessor differs from the per-sample accessor", "wrapper": name, "bulk": bulk, "per_sample": per}
    announced = w.getshape_class()[0]
    for v in per:
        if not (v == -1 or 0 <= v < announced):
            return {"what": "label outside the announced range", "wrapper": name, "label": v, "announced": announced}
    if d.labels != before:
        return {"what": "the wrapped dataset's own labels were modified", "wrapper": name, "before": before, "after": list(d.labels)}
    if [w.getitem_x(i) for i in range(n)] != [("x", i) for i in range(n)]:
        return {"what": "data other than the label was changed", "wrapper": name}
    w2 = build(_ds(labels, C))
    per2 = [w2.getitem_class(i) for i in range(n)]
    per2 = [p.item() if torch.is_tensor(p) else p for p in per2]
    if per2 != per:
        return {"what": "mapping is not a function of constructor arguments and seed", "wrapper": name}
    return None


def check_encodings(labels, C):
    from kappadata.wrappers.sample_wrappers.label_smoothing_wrapper import LabelSmoothingWrapper
    from kappadata.wrappers.sample_wrappers.one_hot_wrapper import OneHotWrapper
    d = _ds(labels, C)
    for name, w in (("OneHot", OneHotWrapper(dataset=d)), ("LabelSmoothing(0.1)", LabelSmoothingWrapper(d, smoothing=0.1)),
                    ("LabelSmoothing(1.0)", LabelSmoothingWrapper(d, smoothing=1.0))):
        for i, l in enumerate(labels):
            if l < 0 or C < 2:
                continue
            v = w.getitem_class(i)
            if not torch.is_tensor(v) or v.shape != (C,):
                return {"what": "encoding is not a class vector", "wrapper": name}
            if (v < 0).any() or abs(v.sum().item() - 1) > 1e-5 or (v.max() - v[l]).abs() > 1e-7:
                return {"what": "encoding is not non-negative / does not sum to one / loses the argmax", "wrapper": name, "vector": v.tolist(), "label": l}
    return None


def check_binary_smoothing():
    """binary datasets (one logit): labels 0 / 1 move towards 1/2 by smoothing / 2, unlabeled samples keep the -1 marker"""
    from kappadata.wrappers.sample_wrappers.label_smoothing_wrapper import LabelSmoothingWrapper
    labels = [0, 1, -1, 1, -1, 0]
    for s in (0.1, 0.5, 1.0):
        w = LabelSmoothingWrapper(_ds(labels, 1), smoothing=s)
        for i, l in enumerate(labels):
            v = w.getitem_class(i)
            v = v.flatten().tolist() if torch.is_tensor(v) else [v]
            if l == -1:
                if any(x != -1 for x in v):
                    return {"what": "an unlabeled sample of a binary dataset does not keep the -1 marker after smoothing", "smoothing": s, "value": v}
            elif len(v) != 1 or abs(v[0] - (l - s / 2 if l == 1 else l + s / 2)) > 1e-9 or not (0 <= v[0] <= 1):
                return {"what": "binary label is not moved by smoothing / 2 towards 1/2", "smoothing": s, "label": l, "value": v}
    return None


def check_smoothing_after_class_change():
    """the smoothing wrapper reads the class count of the dataset it wraps on every access"""
    from kappadata.wrappers.sample_wrappers.label_smoothing_wrapper import LabelSmoothingWrapper
    from kappadata.wrappers.sample_wrappers.kd_random_class_wrapper import KDRandomClassWrapper
    inner = KDRandomClassWrapper(_ds([0, 1, 2, 1], 5), mode="random", seed=3)
    w = LabelSmoothingWrapper(inner, smoothing=0.1)
    for C in (5, 10, 3):
        inner.num_classes = C
        for i in range(4):
            v = w.getitem_class(i)
            l = inner.getitem_class(i)
            if v.shape != (C,) or (v < 0).any() or abs(v.sum().item() - 1) > 1e-5 or (v.max() - v[l]).abs() > 1e-7:
                return {"what": "smoothed encoding is not non-negative / does not sum to one / loses the argmax after the class count changed",
                        "classes": C, "vector": v.tolist()}
    return None


def search(limit, seed):
    n = 1
    r = check_smoothing_after_class_change()
    if r is not None:
        r["input"] = {"scenario": "LabelSmoothing over KDRandomClassWrapper, num_classes 5 -> 10 -> 3"}
        return r, n
    n += 1
    r = check_binary_smoothing()
    if r is not None:
        r["input"] = {"scenario": "LabelSmoothing over a binary dataset with unlabeled samples", "labels": [0, 1, -1, 1, -1, 0]}
        return r, n
    layouts = [([0, 1], 2), ([1, 0, 1, 2, 2, 0], 3), ([3, 1, 0, 2, 2, 1, 0, 3], 4), ([0, 5, 2, 3, 1, 4, 4, 0], 6), ([0, -1, 1, -1, 1], 2)]
    for labels, C in layouts:
        for s in (seed, seed + 1):
            for name, build, rr in builders(labels, C, s):
                n += 1
                try:
                    r = check_wrapper(name, build, rr, labels, C)
                except Exception as ex:
                    r = {"what": f"{type(ex).__name__}: {str(ex)[:120]}", "wrapper": name}
                if r is not None:
                    r["input"] = {"labels": labels, "classes": C, "seed": s, "wrapper": name}
                    return r, n
        n += 1
        r = check_encodings(labels, C)
        if r is not None:
            r["input"] = {"labels": labels, "classes": C}
            return r, n
    return None, n
