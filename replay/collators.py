"""Bounded stand-in / native replay for C18: real compose/single collators with recording members; padding collator."""
import itertools
import torch


def _member(mode, log):
    from kappadata.collators.base.kd_single_collator import KDSingleCollator

    class M(KDSingleCollator):
        def __init__(self, dataset_mode=None, return_ctx=None):
            super().__init__(dataset_mode=dataset_mode, return_ctx=return_ctx)

        @property
        def default_collate_mode(self): return mode

        def collate(self, batch, dataset_mode, ctx=None):
            collated = torch.is_tensor(batch) or (isinstance(batch, (tuple, list)) and len(batch) and torch.is_tensor(batch[0]) and batch[0].ndim == 2)
            log.append((mode, "collated" if torch.is_tensor(batch) else "raw", isinstance(ctx, dict)))
            return batch
    return M


def check_order(modes, return_ctx, bs, member_cfg=None):
    """member_cfg: the members' own (standalone) configuration - a composition uses ITS configuration, whatever the members carry"""
    from kappadata.collators.base.kd_compose_collator import KDComposeCollator
    log = []
    members = [_member(m, log)(**(member_cfg or {})) for m in modes]
    c = KDComposeCollator(members, dataset_mode="x", return_ctx=return_ctx)
    samples = [torch.full((3,), float(i)) for i in range(bs)]
    batch = [(s, {"k": torch.tensor(i), "j": torch.tensor(2 * i)}) for i, s in enumerate(samples)] if return_ctx else samples
    try:
        out = c(batch)
    except AssertionError:
        return None          # order not supported by the pipeline: explicit rejection
    except Exception as ex:
        return {"what": f"{type(ex).__name__}: {str(ex)[:100]}", "modes": modes, "return_ctx": return_ctx}
    if return_ctx:
        if not (isinstance(out, tuple) and len(out) == 2):
            return {"what": "(batch, ctx) not returned although configured", "modes": modes}
        out, ctx = out
        if not isinstance(ctx, dict) or set(ctx.keys()) != {"k", "j"}:
            return {"what": "batched context loses or invents keys", "modes": modes, "ctx": str(ctx)[:100]}
        if ctx["k"].tolist() != list(range(bs)) or ctx["j"].tolist() != [2 * i for i in range(bs)]:
            return {"what": "batched context values are not the per-sample ones", "modes": modes}
    needs = any(m in ("before", "after") for m in modes)
    if needs:
        if not torch.is_tensor(out) or out.shape != (bs, 3) or out[:, 0].tolist() != [float(i) for i in range(bs)]:
            return {"what": "default collation not applied exactly once", "modes": modes, "return_ctx": return_ctx,
                    "observed": str(getattr(out, "shape", type(out)))}
    else:
        if torch.is_tensor(out):
            return {"what": "default collation applied although no member asks for it", "modes": modes}
    for (m, lay, ctx_ok) in log:
        if (m == "before") != (lay == "collated"):
            return {"what": "a member saw a layout other than the one its mode asks for", "modes": modes, "log": log}
        if not ctx_ok:
            return {"what": "member did not get a dict context", "modes": modes}
    if len(log) != len(modes):
        return {"what": "not every member ran exactly once", "modes": modes, "log": log}
    return None


def check_padding(lengths, return_ctx, extra, through=False):
    """through: the samples carry a context but the pipeline is configured with return_ctx=False, so the (sample, ctx) pairs
    travel through the padding collator itself (the configuration of the repository's own tests)"""
    from kappadata.collators.pad_sequences_collator import PadSequencesCollator
    c = PadSequencesCollator(dataset_mode="x class" if extra else "x", return_ctx=return_ctx and not through)
    seqs = [torch.arange(1, n + 1).float().unsqueeze(1).repeat(1, 2) for n in lengths]
    samples = []
    for i, s in enumerate(seqs):
        item = (s, i, 0.1 * (i + 1), i % 2 == 0) if extra else (s,)
        samples.append((item, {"k": i}) if return_ctx else item)
    try:
        out = c(samples)
    except Exception as ex:
        return {"what": f"{type(ex).__name__}: {str(ex)[:100]}", "lengths": lengths, "return_ctx": return_ctx, "extra": extra}
    if return_ctx:
        if not (isinstance(out, tuple) and len(out) == 2 and isinstance(out[1], dict)):
            return {"what": "(batch, ctx) not returned", "lengths": lengths}
        out, ctx = out
        if set(ctx.keys()) != {"k"} or ctx["k"].tolist() != list(range(len(lengths))):
            return {"what": "context not batched like default_collate (keys lost / invented or values changed)", "lengths": lengths,
                    "through_collator": through, "observed": str(ctx)[:100]}
    x = out[0]
    L = max(lengths)
    if tuple(x.shape) != (len(lengths), L, 2):
        return {"what": "not padded to the batch maximum", "shape": tuple(x.shape), "lengths": lengths}
    for i, n in enumerate(lengths):
        if not torch.equal(x[i, :n], seqs[i]) or x[i, n:].abs().sum() != 0:
            return {"what": "content changed or padding not zero", "row": i, "lengths": lengths}
    if extra:
        from torch.utils.data import default_collate
        for col in (1, 2, 3):
            ref = default_collate([it[col] for it in ([s_[0] for s_ in samples] if return_ctx else samples)])
            if out[col].dtype != ref.dtype or not torch.equal(out[col], ref):
                return {"what": "a non-sequence field is not collated like default_collate would", "field": col, "lengths": lengths,
                        "observed": f"{out[col].dtype} {out[col].tolist()}", "expected": f"{ref.dtype} {ref.tolist()}"}
    return None


def check_wrapper_twice():
    """the single-collator wrapper hands out a context of its own for every batch"""
    from kappadata.collators.base.kd_single_collator_wrapper import KDSingleCollatorWrapper
    from kappadata.collators.pad_sequences_collator import PadSequencesCollator

    class Rec(PadSequencesCollator):
        def collate(self, batch, _, ctx=None):
            if ctx is not None and len(batch) > 2:
                ctx["big"] = len(batch)
            if ctx is not None:
                ctx["n"] = len(batch)
            return super().collate(batch, _, ctx)
    w = KDSingleCollatorWrapper(Rec(), dataset_mode="x", return_ctx=True)
    b1, c1 = w([torch.ones(2, 1), torch.ones(3, 1), torch.ones(1, 1)])
    snap = dict(c1)
    b2, c2 = w([torch.ones(2, 1), torch.ones(1, 1)])
    if c1 != snap:
        return {"what": "the context handed out for one batch is overwritten by the next batch", "first": str(snap), "now": str(c1)}
    if c2 != {"n": 2}:
        return {"what": "context of a batch carries keys of an earlier batch", "observed": str(c2)}
    return None


def search(limit, seed):
    n = 0
    modes = [None, "before", "after"]
    for k in (1, 2, 3):
        for order in itertools.product(modes, repeat=k):
            for rc, bs in itertools.product((False, True), (1, 3)):
                n += 1
                r = check_order(list(order), rc, bs)
                if r is not None:
                    r["input"] = {"modes": list(order), "return_ctx": rc, "batch_size": bs}
                    return r, n
                if k <= 2 and bs == 3:
                    # members that carry a standalone configuration of their own, different from the composition's
                    for cfg in ({"dataset_mode": "x", "return_ctx": not rc}, {"dataset_mode": "class x", "return_ctx": rc}):
                        n += 1
                        r = check_order(list(order), rc, bs, cfg)
                        if r is not None:
                            r["input"] = {"modes": list(order), "return_ctx": rc, "batch_size": bs, "member_config": cfg}
                            return r, n
    for lengths in ([1], [3, 1], [2, 2], [1, 4, 2], [5, 1, 1, 3], [6, 2, 6, 1, 3]):
        for rc, extra in itertools.product((False, True), (False, True)):
            n += 1
            r = check_padding(lengths, rc, extra)
            if r is not None:
                r["input"] = {"lengths": lengths, "return_ctx": rc, "extra_field": extra}
                return r, n
            if rc:
                n += 1
                r = check_padding(lengths, rc, extra, through=True)
                if r is not None:
                    r["input"] = {"lengths": lengths, "return_ctx": rc, "extra_field": extra, "ctx_route": "through the padding collator"}
                    return r, n
    n += 1
    r = check_wrapper_twice()
    if r is not None:
        r["input"] = {"scenario": "same KDSingleCollatorWrapper collates two batches"}
        return r, n
    return None, n
