"""Bounded stand-ins / native replay for C12 and C13: the statements evaluated on the real samplers."""
import itertools
import torch
from collections import Counter


def _mk_class_dataset(labels, n_classes):
    from kappadata.datasets.kd_dataset import KDDataset

    class _DS(KDDataset):
        def __init__(self, labels, n_classes):
            super().__init__()
            self.labels, self.n_classes = list(labels), n_classes

        def __len__(self): return len(self.labels)
        def getitem_x(self, idx, ctx=None): return idx
        def getitem_class(self, idx, ctx=None): return self.labels[idx]
        def getall_class(self): return list(self.labels)
        def getshape_class(self): return (self.n_classes,)
    return _DS(labels, n_classes)


def global_draw(n, seed, epoch, R):
    g = torch.Generator().manual_seed(seed + epoch)
    perm = torch.randperm(n, generator=g)
    return perm.repeat_interleave(R)[:n].tolist()


def check_distributed(n, W, R, drop_last, seed, epoch):
    from kappadata.samplers.distributed_sampler import DistributedSampler
    ds = range(n)
    streams = []
    for r in range(W):
        s = DistributedSampler(ds, num_replicas=W, rank=r, shuffle=True, seed=seed, drop_last=drop_last, num_repeats=R)
        s.set_epoch(epoch)
        lst = list(s)
        if len(lst) != len(s):
            return {"what": "rank stream length != len(sampler)", "rank": r, "len": len(lst), "expected": len(s)}
        if lst != list(s):
            return {"what": "same (seed, epoch) does not reproduce the stream", "rank": r}
        streams.append(lst)
    L = len(streams[0])
    inter = [streams[t % W][t // W] for t in range(W * L)]
    g = global_draw(n, seed, epoch, R)
    if n == 0:
        return None
    if drop_last:
        exp = g[:W * L]
    else:
        exp = [g[t % n] for t in range(W * L)]
    if inter != exp:
        return {"what": "rank streams do not interleave back into the global draw", "observed": inter, "expected": exp}
    return None


def check_weighted(n, W, size, seed, epoch, zeros=0):
    from kappadata.samplers.weighted_sampler import WeightedSampler
    ds = range(n)
    weights = torch.arange(1, n + 1).float()
    weights[:zeros] = 0.
    streams = []
    for r in range(W):
        s = WeightedSampler(ds, weights, size=size, seed=seed, rank=r, world_size=W)
        s.set_epoch(epoch)
        lst = list(s)
        if len(lst) != len(s):
            return {"what": "rank stream length != len(sampler)", "rank": r, "len": len(lst), "expected": len(s)}
        if lst != list(s):
            return {"what": "equal (seed, epoch) does not reproduce the stream", "rank": r}
        if len(set(lst)) != len(lst):
            return {"what": "weighted sampler repeats an index within an epoch", "rank": r, "stream": lst}
        if any(not 0 <= i < n for i in lst):
            return {"what": "invalid index", "stream": lst}
        streams.append(lst)
    L = len(streams[0])
    inter = [streams[t % W][t // W] for t in range(W * L)]
    EL = n if size is None else size
    if zeros and EL > n - zeros:
        return None      # torch.multinomial itself rejects more draws than non-zero weights without replacement
    g = torch.multinomial(weights, EL, replacement=False, generator=torch.Generator().manual_seed(seed + epoch)).tolist()
    if inter != g[:W * L]:
        return {"what": "rank streams are not the strided slices of one global draw", "observed": inter, "expected": g[:W * L]}
    if len(set(inter)) != len(inter):
        return {"what": "global draw repeats an index"}
    return None


def check_class_balanced(labels, n_classes, spc, W, shuffle, seed, epoch):
    from kappadata.samplers.class_balanced_sampler import ClassBalancedSampler
    ds = _mk_class_dataset(labels, n_classes)
    streams = []
    for r in range(W):
        try:
            s = ClassBalancedSampler(ds, shuffle=shuffle, samples_per_class=spc, seed=seed, rank=r, world_size=W)
        except AssertionError:
            return None
        s.set_epoch(epoch)
        if r == 0:
            list(s)         # a rank that already iterated once in this epoch must still see the same draw
        lst = list(s)
        if len(lst) != len(s):
            return {"what": "rank stream length != len(sampler)", "rank": r}
        if lst != list(s):
            return {"what": "equal (seed, epoch) does not reproduce the stream", "rank": r}
        if any(not 0 <= i < len(labels) for i in lst):
            return {"what": "invalid index", "stream": lst}
        streams.append(lst)
    L = len(streams[0])
    inter = [streams[t % W][t // W] for t in range(W * L)]
    eff = s.effective_length
    k = s.num_classes
    per = s.samples_per_class
    if eff != k * per:
        return {"what": "effective_length != classes * samples_per_class"}
    if shuffle and spc is not None and len(labels) > 1:
        s.set_epoch(epoch + 1)
        other = list(s)
        s.set_epoch(epoch)
    if W * L == eff:
        cnt = Counter(labels[i] for i in inter)
        if any(cnt[c] != per for c in range(k)):
            return {"what": "an epoch does not contain samples_per_class indices of every class", "counts": dict(cnt), "spc": per}
        mult = Counter(inter)
        for c in range(k):
            pool = [i for i, l in enumerate(labels) if l == c]
            m = [mult[i] for i in pool]
            if max(m) - min(m) > 1:
                return {"what": "class samples are not reused as evenly as possible", "class": c, "multiplicities": m}
    else:
        if eff - W * L >= W:
            return {"what": "more than trailing entries dropped"}
    return None


def check_semi(labels, L_, U_, W, mode, seed, epoch):
    from kappadata.samplers.semi_sampler import SemiSampler
    ds = _mk_class_dataset(labels, max(2, max(labels) + 1))
    lens = set()
    for r in range(W):
        try:
            s = SemiSampler(ds, num_labeled=L_, num_unlabeled=U_, rank=r, world_size=W, seed=seed, length_mode=mode)
        except AssertionError:
            return None
        s.set_epoch(epoch)
        lst = list(s)
        lens.add(len(lst))
        if len(lst) != len(s):
            return {"what": "rank stream length != len(sampler)"}
        lab = [i for i, l in enumerate(labels) if l != -1]
        unl = [i for i, l in enumerate(labels) if l == -1]
        nl = {"labeled": len(lab) // L_, "unlabeled": len(unl) // U_, "all": len(labels) // (L_ + U_)}[mode]
        if s.effective_length != nl * (L_ + U_):
            return {"what": "effective length does not match the length mode"}
        seq_l, seq_u = [], []
        for i, idx in enumerate(lst):
            want_labeled = i % (L_ + U_) < L_
            if (labels[idx] != -1) != want_labeled:
                return {"what": "labeled/unlabeled alternation broken", "pos": i, "stream": lst}
            (seq_l if want_labeled else seq_u).append(idx)
        for seq, pool in ((seq_l, lab), (seq_u, unl)):
            for q in range(0, len(seq), len(pool)):
                w = seq[q:q + len(pool)]
                if len(set(w)) != len(w):
                    return {"what": "a pool element repeats before the pool was exhausted", "window": w}
    if len(lens) != 1:
        return {"what": "rank streams differ in length"}
    return None


def cases_c12(limit, rng):
    cs = []
    for n, W, R, dl, seed, ep in itertools.product(range(0, 8), range(1, 5), (1, 2, 3), (False, True), (0, 3), (0, 1)):
        cs.append(("distributed", dict(n=n, W=W, R=R, drop_last=dl, seed=seed, epoch=ep)))
    for n, W, size, seed, ep in itertools.product(range(1, 8), range(1, 4), (None, 1, 3), (0, 2), (0, 1)):
        if size is not None and size > n:
            continue
        cs.append(("weighted", dict(n=n, W=W, size=size, seed=seed, epoch=ep)))
        if n >= 4:
            cs.append(("weighted", dict(n=n, W=W, size=size, seed=seed, epoch=ep, zeros=2)))
    for labels in ([0, 1], [0, 0, 1], [0, 1, 1, 1, 0], [0, 1, 2, 2, 1, 0, 0], [1, 0, 0, 0, 0, 0]):
        for spc, W, sh, seed in itertools.product((None, 1, 3, 5, 7, 13), (1, 2, 3), (True, False), (0, 1, 2, 3)):
            if (spc in (7, 13) and not sh and seed > 0) or (seed > 1 and spc not in (7, 13)):
                continue        # heavy oversampling (several whole passes + a cut last pass) is explored with more seeds, shuffled
            cs.append(("class_balanced", dict(labels=labels, n_classes=max(labels) + 1, spc=spc, W=W, shuffle=sh, seed=seed, epoch=seed)))
    rng.shuffle(cs)
    return cs[:limit]


def cases_c13(limit, rng):
    cs = [c for c in cases_c12(10 ** 6, rng) if c[0] != "distributed"]
    for labels in ([0, -1], [0, -1, -1, 1], [-1, 0, 1, -1, -1, 0, 1, 1], [0, 0, 0, -1], [-1, -1, -1, 1, 0]):
        for L_, U_, W, mode, seed in itertools.product((1, 2), (1, 3), (1, 2), ("labeled", "unlabeled", "all"), (0, 1)):
            cs.append(("semi", dict(labels=labels, L_=L_, U_=U_, W=W, mode=mode, seed=seed, epoch=seed)))
    rng.shuffle(cs)
    return cs[:limit]


CHECKS = {"distributed": check_distributed, "weighted": check_weighted, "class_balanced": check_class_balanced,
          "semi": check_semi}


def run_cases(cases):
    n = 0
    for kind, kw in cases:
        n += 1
        try:
            r = CHECKS[kind](**kw)
        except Exception as ex:
            r = {"what": f"{type(ex).__name__}: {ex}"}
        if r is not None:
            r.update(kind=kind, input=kw, tried=n)
            return r, n
    return None, n
