"""Bounded stand-in / native replay for C02: random nestings of real KDSubset / KDConcatDataset / KDWrapper layers over
an id-encoded root dataset; the composed index map is computed independently and compared."""
import random


def _classes():
    from kappadata.datasets.kd_dataset import KDDataset
    from kappadata.datasets.kd_wrapper import KDWrapper

    class Root(KDDataset):
        def __init__(self, rid, n):
            super().__init__()
            self.rid, self.n, self.disposed = rid, n, 0

        def __len__(self): return self.n
        def getitem_x(self, idx, ctx=None): return (self.rid, idx if idx >= 0 else idx + self.n)
        def getall_x(self):
            if not hasattr(self, "_all_x"):
                self._all_x = [(self.rid, i) for i in range(self.n)]
            return self._all_x          # hands out its internal list (a dataset is allowed to)
        def getitem_class(self, idx, ctx=None): return ((idx if idx >= 0 else idx + self.n) + self.rid) % 3
        def getall_class(self): return [(i + self.rid) % 3 for i in range(self.n)]
        def getshape_class(self): return (3,)
        def dispose(self): self.disposed += 1

    class Wrap(KDWrapper):
        pass
    return Root, Wrap


def build(spec, roots, Root, Wrap):
    """spec: ("root", rid, n) | ("subset", spec, idxs) | ("wrap", spec) | ("concat", [specs]) -> (dataset, expected x list,
    chain of wrapper layers or None if not linear, root or None)"""
    from kappadata.datasets.kd_subset import KDSubset
    from kappadata.datasets.kd_concat_dataset import KDConcatDataset
    kind = spec[0]
    if kind == "root":
        r = Root(spec[1], spec[2])
        roots.append(r)
        return r, r.getall_x(), [], r
    if kind == "subset":
        ds, exp, chain, root = build(spec[1], roots, Root, Wrap)
        idxs = [i for i in spec[2] if -len(exp) <= i < len(exp)] if exp else []
        sub = KDSubset(ds, idxs)
        return sub, [exp[i] for i in idxs], ([sub] + chain) if chain is not None else None, root
    if kind == "wrap":
        ds, exp, chain, root = build(spec[1], roots, Root, Wrap)
        w = Wrap(ds)
        return w, exp, ([w] + chain) if chain is not None else None, root
    parts = [build(s, roots, Root, Wrap) for s in spec[1]]
    cat = KDConcatDataset([p[0] for p in parts])
    exp = [x for p in parts for x in p[1]]
    if len(parts) == 1:
        return cat, exp, parts[0][2], parts[0][3]
    return cat, exp, None, None


def random_spec(rng, depth, counter):
    if depth == 0 or rng.random() < 0.2:
        counter[0] += 1
        return ("root", counter[0], rng.randint(0, 5))
    k = rng.random()
    if k < 0.4:
        inner = random_spec(rng, depth - 1, counter)
        return ("subset", inner, [rng.randint(-6, 6) for _ in range(rng.randint(0, 6))])
    if k < 0.65:
        return ("wrap", random_spec(rng, depth - 1, counter))
    return ("concat", [random_spec(rng, depth - 1, counter) for _ in range(rng.randint(1, 3))])


def check_spec(spec):
    Root, Wrap = _classes()
    roots = []
    try:
        ds, exp, chain, root = build(spec, roots, Root, Wrap)
    except AssertionError as ex:      # torch ConcatDataset rejects an empty list etc.
        return None
    n = len(exp)
    try:
        if len(ds) != n:
            return {"what": "len differs from the size of the composed map", "expected": n, "observed": len(ds)}
        for k in list(range(n)) + list(range(-n, 0)):
            got = ds.getitem_x(k)
            if got != exp[k]:
                return {"what": "item k is not item map(k) of the underlying dataset", "k": k, "expected": exp[k], "observed": got}
        for attempt in range(2):        # the bulk accessor must stay right when it is called again
            ga = ds.getall_x()
            if list(ga) != exp:
                return {"what": "getall_x disagrees with getitem_x", "call": attempt + 1, "expected": exp, "observed": list(ga)}
        if len(ds) != n:
            return {"what": "len changed after calling the bulk accessor", "expected": n, "observed": len(ds)}
        gc = list(ds.getall_class())
        if n and gc != [ds.getitem_class(k) for k in range(n)]:
            return {"what": "getall_class disagrees with getitem_class"}
        if chain is not None:
            if ds.root_dataset is not root:
                return {"what": "root_dataset does not resolve through the chain"}
            aw = ds.all_wrappers
            if len(aw) != len(chain) or any(a is not b for a, b in zip(aw, chain)):
                return {"what": "all_wrappers differs from the chain of layers", "expected": len(chain), "observed": len(aw)}
            if ds.all_wrapper_types != [type(c) for c in chain]:
                return {"what": "all_wrapper_types differs"}
            for c in chain:
                if not ds.has_wrapper(c) or not ds.has_wrapper_type(type(c)):
                    return {"what": "has_wrapper / has_wrapper_type misses a layer"}
                if c not in ds.get_wrappers_of_type(type(c)):
                    return {"what": "get_wrappers_of_type misses a layer"}
            if ds.getdim_class() != 3 or ds.getshape_class() != (3,):
                return {"what": "shape delegation broken"}
        ds.dispose()
        if any(r.disposed != 1 for r in roots) and chain is not None:
            return {"what": "dispose does not reach the root exactly once", "observed": [r.disposed for r in roots]}
        if chain is None and any(r.disposed < 1 for r in roots):
            return {"what": "dispose does not reach every root", "observed": [r.disposed for r in roots]}
    except Exception as ex:
        return {"what": f"{type(ex).__name__}: {ex}"}
    return None


def balanced_check(sizes, limit):
    """balanced concat sampling round-robins over its parts"""
    from kappadata.datasets.kd_concat_dataset import KDConcatDataset
    Root, Wrap = _classes()
    parts = [Root(i, n) for i, n in enumerate(sizes)]
    if any(n == 0 for n in sizes):
        return None
    cat = KDConcatDataset(parts, balanced_sampling=True)
    for k in range(limit):
        d = k % len(parts)
        s = (k // len(parts)) % sizes[d]
        if cat.getitem_x(k) != (d, s):
            return {"what": "balanced sampling does not round-robin", "k": k, "expected": (d, s), "observed": cat.getitem_x(k)}
    return None


def search(limit, seed):
    rng = random.Random(seed)
    n = distinct = 0
    seen = set()
    for sizes in ([1], [2, 3], [3, 1, 2], [4, 4], [1, 5, 2, 2]):
        n += 1
        r = balanced_check(sizes, 40)
        if r is not None:
            r["input"] = {"balanced_sizes": sizes}
            return r, n, n
    while n < limit:
        spec = random_spec(rng, rng.randint(1, 4), [0])
        n += 1
        key = repr(spec)
        if key not in seen:
            seen.add(key)
            distinct += 1
        r = check_spec(spec)
        if r is not None:
            r["input"] = {"spec": spec}
            return r, n, distinct
    return None, n, distinct
