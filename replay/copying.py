"""Fault-injection stand-in / native replay for C20: the real copy functions are killed at every file-system operation
(and inside the non-atomic ones), possibly several times in a row, then called once more without a fault."""
import builtins
import hashlib
import itertools
import os
import pathlib
import shutil
import tempfile
import zipfile


class Crash(BaseException):
    pass


def tree(path):
    out = {}
    for root, dirs, files in os.walk(path):
        for f in files:
            p = os.path.join(root, f)
            rel = os.path.relpath(p, path)
            if rel in ("autocopy_start.txt", "autocopy_end.txt"):
                continue
            out[rel] = hashlib.sha1(open(p, "rb").read()).hexdigest()
    return out


def make_source(root, fmt, image=False):
    """-> (global_path, relative_path, expected tree)"""
    payload = {"a/x.txt": b"xx", "a/y.txt": b"yyy", "b/z.txt": b"z" * 10, "c/w.txt": b"w"}
    raw = os.path.join(root, "raw_payload")
    for rel, data in payload.items():
        os.makedirs(os.path.dirname(os.path.join(raw, rel)), exist_ok=True)
        open(os.path.join(raw, rel), "wb").write(data)
    expected = {k: hashlib.sha1(v).hexdigest() for k, v in payload.items()}
    g = os.path.join(root, "global")
    os.makedirs(g)
    if fmt == "raw":
        shutil.copytree(raw, os.path.join(g, "ds"))
    elif fmt == "zip":
        with zipfile.ZipFile(os.path.join(g, "ds.zip"), "w") as z:
            for rel in payload:
                z.write(os.path.join(raw, rel), rel)
    else:   # folder of zips
        os.makedirs(os.path.join(g, "ds"))
        for top in ("a", "b", "c"):
            with zipfile.ZipFile(os.path.join(g, "ds", top + ".zip"), "w") as z:
                for rel in payload:
                    if rel.startswith(top + "/"):
                        z.write(os.path.join(raw, rel), rel[len(top) + 1:] if image else rel)
    return g, "ds", expected


class Injector:
    """counts mutating file-system operations on the destination and kills the process (raises Crash) at a chosen one"""

    def __init__(self, dst_root):
        self.dst_root = os.path.realpath(dst_root)
        self.plan = None          # (op index, phase) or None
        self.n = 0
        self.log = []
        self.inside = 0           # > 0 while one of the wrapped high-level operations runs (its own unlinks are not counted again)

    def _mine(self, p):
        return os.path.realpath(str(p)).startswith(self.dst_root)

    def _hit(self, kind, phase):
        return self.plan is not None and self.plan == (self.n, phase)

    def __enter__(self):
        inj = self
        self.orig = (pathlib.Path.mkdir, builtins.open, shutil.rmtree, shutil.copytree, zipfile.ZipFile.extractall)
        o_mkdir, o_open, o_rmtree, o_copytree, o_extract = self.orig
        self.orig_low = (pathlib.Path.unlink, pathlib.Path.rmdir, os.remove, os.unlink, os.rmdir)
        o_punlink, o_prmdir, o_remove, o_unlink, o_rmdir = self.orig_low

        def low(orig, kind, path_of):
            # entry-by-entry deletion done by the function itself: every removed entry is a crash point of its own
            def f(*a, **k):
                p_ = path_of(*a)
                if inj.inside or not inj._mine(p_):
                    return orig(*a, **k)
                inj.n += 1
                inj.log.append(f"{kind}:{os.path.basename(str(p_))}")
                inj.inside += 1
                try:
                    r = orig(*a, **k)
                finally:
                    inj.inside -= 1
                if inj._hit(kind, "after"):
                    raise Crash(f"{kind}#{inj.n}:after({os.path.basename(str(p_))} removed)")
                return r
            return f
        pathlib.Path.unlink = low(o_punlink, "unlink", lambda self_, *a: self_)
        pathlib.Path.rmdir = low(o_prmdir, "rmdir", lambda self_, *a: self_)
        os.remove = low(o_remove, "unlink", lambda p_, *a: p_)
        os.unlink = low(o_unlink, "unlink", lambda p_, *a: p_)
        os.rmdir = low(o_rmdir, "rmdir", lambda p_, *a: p_)

        def mkdir(self_, *a, **k):
            if inj.inside or not inj._mine(self_):
                return o_mkdir(self_, *a, **k)
            inj.n += 1
            inj.log.append("mkdir")
            r = o_mkdir(self_, *a, **k)
            if inj._hit("mkdir", "after"):
                raise Crash(f"mkdir#{inj.n}:after")
            return r

        def open_(file, mode="r", *a, **k):
            if "w" in mode and inj._mine(file) and os.path.basename(str(file)).startswith("autocopy_"):
                inj.n += 1
                inj.log.append("open:" + os.path.basename(str(file)))
                f = o_open(file, mode, *a, **k)
                if inj._hit("open", "after"):
                    f.close()
                    raise Crash(f"open#{inj.n}:after")
                return f
            return o_open(file, mode, *a, **k)

        def rmtree(path, *a, **k):
            if not inj._mine(path):
                return o_rmtree(path, *a, **k)
            if inj.inside:
                return o_rmtree(path, *a, **k)
            inj.n += 1
            inj.log.append("rmtree")
            inj.inside += 1
            try:
                return rmtree_body(path, *a, **k)
            finally:
                inj.inside -= 1

        def rmtree_body(path, *a, **k):
            if inj._hit("rmtree", "during-start-first"):
                # a crash inside rmtree: entries are removed one by one; the start marker happens to go first
                s = os.path.join(str(path), "autocopy_start.txt")
                if os.path.exists(s):
                    os.remove(s)
                raise Crash(f"rmtree#{inj.n}:during(start marker already removed)")
            if inj._hit("rmtree", "during-payload-first"):
                for root, dirs, files in os.walk(str(path)):
                    for f in files:
                        if not f.startswith("autocopy_"):
                            os.remove(os.path.join(root, f))
                            raise Crash(f"rmtree#{inj.n}:during(one payload file removed)")
                raise Crash(f"rmtree#{inj.n}:during(nothing removed)")
            r = o_rmtree(path, *a, **k)
            if inj._hit("rmtree", "after"):
                raise Crash(f"rmtree#{inj.n}:after")
            return r

        def copytree(src, dst, *a, **k):
            if not inj._mine(dst):
                return o_copytree(src, dst, *a, **k)
            inj.n += 1
            inj.log.append("copytree")
            inj.inside += 1
            try:
                return copytree_body(src, dst, *a, **k)
            finally:
                inj.inside -= 1

        def copytree_body(src, dst, *a, **k):
            if inj._hit("copytree", "during"):
                # partial copy: the first file only
                for root, dirs, files in os.walk(str(src)):
                    for f in files:
                        rel = os.path.relpath(os.path.join(root, f), str(src))
                        os.makedirs(os.path.dirname(os.path.join(str(dst), rel)), exist_ok=True)
                        shutil.copy(os.path.join(root, f), os.path.join(str(dst), rel))
                        raise Crash(f"copytree#{inj.n}:during")
            r = o_copytree(src, dst, *a, **k)
            if inj._hit("copytree", "after"):
                raise Crash(f"copytree#{inj.n}:after")
            return r

        def extractall(self_, path=None, *a, **k):
            if path is None or not inj._mine(path):
                return o_extract(self_, path, *a, **k)
            inj.n += 1
            inj.log.append("extractall")
            inj.inside += 1
            try:
                return extract_body(self_, path, *a, **k)
            finally:
                inj.inside -= 1

        def extract_body(self_, path=None, *a, **k):
            if inj._hit("extractall", "during"):
                names = self_.namelist()
                if names:
                    self_.extract(names[0], path)
                raise Crash(f"extractall#{inj.n}:during")
            r = o_extract(self_, path, *a, **k)
            if inj._hit("extractall", "after"):
                raise Crash(f"extractall#{inj.n}:after")
            return r
        pathlib.Path.mkdir, builtins.open, shutil.rmtree, shutil.copytree, zipfile.ZipFile.extractall = \
            mkdir, open_, rmtree, copytree, extractall
        return self

    def __exit__(self, *a):
        pathlib.Path.mkdir, builtins.open, shutil.rmtree, shutil.copytree, zipfile.ZipFile.extractall = self.orig
        pathlib.Path.unlink, pathlib.Path.rmdir, os.remove, os.unlink, os.rmdir = self.orig_low


PHASES = ["after", "during", "during-start-first", "during-payload-first"]


def run_scenario(fn_name, fmt, crashes, user_provided=False, with_relative=True):
    """crashes: list of (op index, phase) for successive killed invocations; then one clean invocation.
    -> None or a failure dict"""
    if fn_name == "folder":
        from kappadata.copying.folder import copy_folder_from_global_to_local as fn
    else:
        from kappadata.copying.image_folder import copy_imagefolder_from_global_to_local as fn
    root = tempfile.mkdtemp(prefix="kdverif-c20-")
    try:
        g, rel, expected = make_source(root, fmt, image=(fn_name == "image"))
        if fn_name == "image" and fmt == "zips":
            expected = expected   # classwise zips extract into <class>/<file>
        local = os.path.join(root, "local")
        os.makedirs(local)
        dst = os.path.join(local, rel) if with_relative else local
        gp, lp, rp = (g, local, rel) if with_relative else (os.path.join(g, rel) if fmt != "zip" else os.path.join(g, rel), local, None)
        if not with_relative:
            shutil.rmtree(local)
        user_tree = None
        if user_provided:
            os.makedirs(dst, exist_ok=True)
            open(os.path.join(dst, "mine.txt"), "w").write("user data")
            user_tree = tree(dst)
        sites = []
        for plan in crashes:
            with Injector(local) as inj:
                inj.plan = plan
                try:
                    fn(gp, lp, relative_path=rp, num_workers=0)
                    sites.append(None)       # the planned crash point was not reached
                except Crash as c:
                    sites.append(str(c))
        with Injector(local) as inj:
            try:
                res = fn(gp, lp, relative_path=rp, num_workers=0)
            except Crash:
                return {"what": "unexpected crash in clean call"}
            except Exception as ex:
                return {"what": f"clean call after crashes raised {type(ex).__name__}: {str(ex)[:80]}", "sites": sites,
                        "site": sites[-1] if sites else None}
            ops = list(inj.log)
        got = tree(dst)
        if user_provided:
            if got != user_tree or ops:
                return {"what": "user-provided folder was touched", "sites": sites, "ops": ops, "site": "user-provided"}
            return None
        if got != expected:
            return {"what": "normal return but the local folder is not a complete copy of the source", "sites": sites,
                    "site": next((s for s in reversed(sites) if s), None), "missing": sorted(set(expected) - set(got))[:4],
                    "result": str(res)}
        # idempotence: a further call must not write anything
        with Injector(local) as inj:
            res2 = fn(gp, lp, relative_path=rp, num_workers=0)
            if inj.log or res2.was_copied or res2.was_deleted:
                return {"what": "a completed automatic copy was deleted or redone", "ops": inj.log, "site": "idempotence"}
        return None
    finally:
        shutil.rmtree(root, ignore_errors=True)


def check_two_splits():
    """two relative paths under one local root: finishing 'train' must not make an interrupted 'val' look complete"""
    from kappadata.copying.folder import copy_folder_from_global_to_local as fn
    root = tempfile.mkdtemp(prefix="kdverif-c20-")
    try:
        g = os.path.join(root, "global")
        expected = {}
        for split in ("train", "val"):
            for i in range(4):
                p = os.path.join(g, split, f"f{i}.txt")
                os.makedirs(os.path.dirname(p), exist_ok=True)
                open(p, "w").write(split * (i + 1))
        local = os.path.join(root, "local")
        os.makedirs(local)
        fn(g, local, relative_path="train")
        with Injector(local) as inj:
            inj.plan = (3, "during")      # mkdir, start marker, copytree(partial)
            try:
                fn(g, local, relative_path="val")
                return {"what": "crash point not reached in two-split scenario", "site": "two-splits"}
            except Crash:
                pass
        res = fn(g, local, relative_path="val")
        want = tree(os.path.join(g, "val"))
        got = tree(os.path.join(local, "val"))
        if got != want:
            return {"what": "normal return but the second split under the same local root is incomplete", "site": "two-splits",
                    "result": str(res), "missing": sorted(set(want) - set(got))}
        return None
    finally:
        shutil.rmtree(root, ignore_errors=True)


def check_symlink_source():
    """a plain-folder source containing a symlink: the local copy must hold the file's bytes, not a link"""
    from kappadata.copying.folder import copy_folder_from_global_to_local as fn
    root = tempfile.mkdtemp(prefix="kdverif-c20-")
    try:
        g = os.path.join(root, "global")
        os.makedirs(os.path.join(g, "ds", "a"))
        os.makedirs(os.path.join(g, "shared"))
        open(os.path.join(g, "shared", "big.bin"), "w").write("payload")
        open(os.path.join(g, "ds", "a", "x.txt"), "w").write("x")
        os.symlink(os.path.join("..", "..", "shared", "big.bin"), os.path.join(g, "ds", "a", "link.bin"))
        local = os.path.join(root, "local")
        os.makedirs(local)
        fn(g, local, relative_path="ds")
        p = os.path.join(local, "ds", "a", "link.bin")
        if os.path.islink(p) or not os.path.exists(p) or open(p).read() != "payload":
            return {"what": "the local copy is not byte-identical: a symlink of the source was copied as a link", "site": "symlink",
                    "islink": os.path.islink(p), "exists": os.path.exists(p)}
        return None
    finally:
        shutil.rmtree(root, ignore_errors=True)


def check_workers(n_zips, workers):
    """folder-of-zips source extracted by several unzip workers: every zip must arrive"""
    from kappadata.copying.folder import copy_folder_from_global_to_local as fn
    root = tempfile.mkdtemp(prefix="kdverif-c20-")
    try:
        g = os.path.join(root, "global", "ds")
        os.makedirs(g)
        expected = set()
        for i in range(n_zips):
            with zipfile.ZipFile(os.path.join(g, f"b{i}.zip"), "w") as z:
                z.writestr(f"b{i}/f.txt", str(i))
            expected.add(os.path.join(f"b{i}", "f.txt"))
        local = os.path.join(root, "local")
        os.makedirs(local)
        res = fn(os.path.join(root, "global"), local, relative_path="ds", num_workers=workers)
        got = set(tree(os.path.join(local, "ds")))
        if got != expected:
            return {"what": "normal return but zips are missing from the local copy", "site": "workers", "zips": n_zips,
                    "workers": workers, "missing": sorted(expected - got), "result": str(res)}
        return None
    finally:
        shutil.rmtree(root, ignore_errors=True)


def check_uppercase_zips():
    """a source folder whose archives end in .ZIP: whatever format the detector decides on, a normal return means a complete copy
    (the archives themselves, or their extracted content) - never an empty folder with both markers"""
    from kappadata.copying.folder import copy_folder_from_global_to_local as fn
    root = tempfile.mkdtemp(prefix="kdverif-c20-")
    try:
        g, rel, expected = make_source(root, "zips")
        src = os.path.join(g, rel)
        for f in os.listdir(src):
            os.rename(os.path.join(src, f), os.path.join(src, f[:-4] + ".ZIP"))
        local = os.path.join(root, "local")
        os.makedirs(local)
        fn(g, local, relative_path=rel, num_workers=0)
        got = tree(os.path.join(local, rel))
        if got != expected and got != tree(src):
            return {"what": "normal return but the local folder is neither the archives nor their content", "site": "uppercase-zip",
                    "local files": sorted(got)[:6]}
        return None
    finally:
        shutil.rmtree(root, ignore_errors=True)


def classify(site):
    """stable label of a crash window for the known-findings file"""
    if site is None:
        return "none"
    op = site.split("#")[0]
    n = int(site.split("#")[1].split(":")[0])
    ph = site.split(":", 1)[1]
    if op == "mkdir":
        return "crash after mkdir of the destination, before the start marker exists" + (" (after rmtree)" if n > 1 else "")
    if op == "rmtree" and "start marker already removed" in ph:
        return "crash inside rmtree after the start marker was removed"
    return f"{op}:{ph}"


def search(two_crashes=True, thorough=False):
    """-> (list of failures, evaluations)"""
    fails, n = [], 0
    for fn_name, fmt, rel in itertools.product(("folder", "image"), ("raw", "zip", "zips"), (True, False)):
        if fn_name == "image" and fmt == "zips":
            continue      # classwise layout differs from the generic oracle; covered by the folder variant
        if not rel and fmt == "zip":
            continue
        singles = [(k, ph) for k in range(1, 9) for ph in PHASES]
        plans = [[p] for p in singles]
        if two_crashes:
            plans += [[p, q] for p in singles[:8] for q in singles[:24:1] if q[1] in ("after", "during-start-first")]
        for plan in plans:
            n += 1
            r = run_scenario(fn_name, fmt, plan, with_relative=rel)
            if r is not None:
                r.update(function=fn_name, format=fmt, relative_path=rel, plan=plan, label=classify(r.get("site")))
                fails.append(r)
        n += 1
        r = run_scenario(fn_name, fmt, [], user_provided=True, with_relative=rel)
        if r is not None:
            r.update(function=fn_name, format=fmt, relative_path=rel, plan=[], label="user-provided")
            fails.append(r)
    extra = [check_two_splits, check_symlink_source, check_uppercase_zips, lambda: check_workers(5, 2)]
    if thorough:
        extra += [lambda: check_workers(7, 3), lambda: check_workers(4, 2), lambda: check_workers(3, 1)]
    for f in extra:
        n += 1
        r = f()
        if r is not None:
            r.update(plan=[], label=r.get("site"), function="folder", format="-", relative_path=True)
            fails.append(r)
    return fails, n
