"""Bounded differential stand-in / native replay for C07: two separately constructed instances of every stochastic transform
with equal injected seeds must agree (outputs and ctx), re-injection must replay, global RNG states must neither matter nor move."""
import random
import numpy as np
import torch


def _eq(a, b):
    if torch.is_tensor(a) and torch.is_tensor(b):
        return a.shape == b.shape and torch.equal(a, b)
    if isinstance(a, (list, tuple)) and isinstance(b, (list, tuple)):
        return len(a) == len(b) and all(_eq(x, y) for x, y in zip(a, b))
    if isinstance(a, dict) and isinstance(b, dict):
        return a.keys() == b.keys() and all(_eq(a[k], b[k]) for k in a)
    if hasattr(a, "tobytes") and hasattr(b, "tobytes") and not isinstance(a, (int, float)):
        try:
            return a.size == b.size and a.tobytes() == b.tobytes()
        except Exception:
            pass
    if isinstance(a, np.ndarray) or isinstance(b, np.ndarray):
        return np.array_equal(a, b)
    return a == b


def zoo():
    """name -> (constructor thunk, input kind)"""
    import kappadata.transforms as T
    from kappadata.transforms.base.kd_scheduled_transform import KDScheduledTransform
    from kappadata.transforms.kd_random_rotation import KDRandomRotation
    from kappadata.transforms.patchwise_transform import PatchwiseTransform
    Z = {
        "KDColorJitter": (lambda: T.KDColorJitter(0.4, 0.4, 0.2, 0.1), "img"),
        "KDRandomColorJitter": (lambda: T.KDRandomColorJitter(0.4, 0.4, 0.2, 0.1, p=0.5), "img"),
        "KDGaussianBlurPIL": (lambda: T.KDGaussianBlurPIL(sigma=(0.1, 2.0)), "img"),
        "KDGaussianBlurTV": (lambda: T.KDGaussianBlurTV(kernel_size=3, sigma=(0.1, 2.0)), "img"),
        "KDRandomGaussianBlurPIL": (lambda: T.KDRandomGaussianBlurPIL(sigma=(0.1, 2.0), p=0.5), "img"),
        "KDRandomGaussianBlurTV": (lambda: T.KDRandomGaussianBlurTV(kernel_size=3, sigma=(0.1, 2.0), p=0.5), "img"),
        "KDRandomGrayscale": (lambda: T.KDRandomGrayscale(p=0.5), "img"),
        "KDRandomHorizontalFlip": (lambda: T.KDRandomHorizontalFlip(p=0.5), "img"),
        "KDRandomSolarize": (lambda: T.KDRandomSolarize(threshold=0.5, p=0.5), "img"),
        "KDRandomCrop": (lambda: T.KDRandomCrop(size=8, padding=2), "img"),
        "KDRandomResizedCrop": (lambda: T.KDRandomResizedCrop(size=8), "img"),
        "KDRandomErasing": (lambda: T.KDRandomErasing(p=1.0), "img"),
        "KDRandomRotation": (lambda: KDRandomRotation(degrees=30), "img"),
        "KDAdditiveGaussianNoise": (lambda: T.KDAdditiveGaussianNoise(std=0.1), "img"),
        "KDAdditiveUniformNoise": (lambda: T.KDAdditiveUniformNoise(), "img"),
        "KDRandomAdditiveGaussianNoise": (lambda: T.KDRandomAdditiveGaussianNoise(std=0.1, p=1.0), "img"),
        "KDThreshold": (lambda: T.KDThreshold(threshold=0.5, threshold_std=0.2), "img"),
        "KDRandomThreshold": (lambda: T.KDRandomThreshold(threshold=0.5, threshold_std=0.2, p=1.0), "img"),
        "KDRandomApply(ColorJitter)": (lambda: T.KDRandomApply(T.KDColorJitter(0.4, 0.4, 0.2, 0.1), p=1.0), "img"),
        "KDRandomApply(Compose)": (lambda: T.KDRandomApply(T.KDComposeTransform([T.KDRandomCrop(size=8), T.KDColorJitter(0.4, 0.4, 0.2, 0.1)]), p=1.0), "img"),
        "Compose(crop, jitter, flip)": (lambda: T.KDComposeTransform([T.KDRandomResizedCrop(size=8), T.KDColorJitter(0.4, 0.4, 0.2, 0.1), T.KDRandomHorizontalFlip()]), "img"),
        "Compose(Compose(noise), RandomApply(noise))": (lambda: T.KDComposeTransform([T.KDComposeTransform([T.KDAdditiveGaussianNoise(std=0.1)]),
                                                                                  T.KDRandomApply(T.KDAdditiveUniformNoise(), p=1.0)]), "img"),
        "Patchwise(noise)": (lambda: PatchwiseTransform(patch_size=4, transform=T.KDAdditiveGaussianNoise(std=0.1)), "img"),
        "Scheduled(noise)": (lambda: KDScheduledTransform(T.KDAdditiveGaussianNoise(std=0.1)), "img"),
        "Scheduled(Compose(jitter))": (lambda: KDScheduledTransform(T.KDComposeTransform([T.KDColorJitter(0.4, 0.4, 0.2, 0.1)])), "img"),
        "KDThreeAugment": (lambda: T.KDThreeAugment(threshold=0.5, sigma=(0.1, 2.0)), "img"),
        "KDSimpleRandomCrop": (lambda: T.KDSimpleRandomCrop(size=8), "img"),
        "KDSpecAugment": (lambda: T.KDSpecAugment(time_masking=4, frequency_masking=3), "spec"),
        "KDRandAugment": (lambda: T.KDRandAugment(num_ops=2, magnitude=9, magnitude_std=0.5, fill_color=(0, 0, 0), interpolation="bicubic"), "pil"),
    }
    for name in ("KDMagnitudeJitter", "KDRoll", "PatchwiseShuffle", "PatchwiseRandomRotation"):
        if hasattr(T, name):
            cls = getattr(T, name)
            if name == "KDMagnitudeJitter": Z[name] = (lambda cls=cls: cls(alpha=10), "spec")
            if name == "KDRoll": Z[name] = (lambda cls=cls: cls(), "spec")
            if name == "PatchwiseShuffle": Z[name] = (lambda cls=cls: cls(), "patches")
            if name == "PatchwiseRandomRotation": Z[name] = (lambda cls=cls: cls(), "patches")
    try:
        from kappadata.common.transforms.byol_transforms import BYOLTransform0
        Z["BYOLTransform0"] = (lambda: BYOLTransform0(), "pil32")
    except Exception:
        pass
    return Z


def make_input(kind, k):
    g = torch.Generator().manual_seed(100 + k)
    if kind == "img":
        return torch.rand(3, 12, 12, generator=g)
    if kind == "spec":
        return torch.rand(1, 16, 20, generator=g)
    if kind == "patches":
        return torch.rand(3, 4, 4, 4, generator=g)
    from torchvision.transforms.functional import to_pil_image
    n = 32 if kind == "pil32" else 16
    return to_pil_image(torch.rand(3, n, n, generator=g))


def run(t, kind, seed, calls=3):
    t.set_rng(np.random.default_rng(seed))
    outs = []
    for k in range(calls):
        ctx = {}
        x = make_input(kind, k)
        y = t(x.clone() if torch.is_tensor(x) else x, ctx=ctx)
        outs.append((y, ctx))
    return outs


def global_state():
    return (np.random.get_state()[1].tobytes(), np.random.get_state()[2], torch.get_rng_state().numpy().tobytes(), random.getstate())


def perturb(k):
    np.random.seed(1000 + k)
    torch.manual_seed(2000 + k)
    random.seed(3000 + k)


def check(name, make, kind, seed):
    perturb(1)
    a = make()
    before = global_state()
    ra = run(a, kind, seed)
    if global_state() != before:
        return {"what": "the process-global random state is consumed although a generator was injected", "transform": name}
    perturb(2)
    b = make()
    perturb(3)
    before = global_state()
    rb = run(b, kind, seed)
    if global_state() != before:
        return {"what": "the process-global random state is consumed although a generator was injected", "transform": name}
    for k, ((ya, ca), (yb, cb)) in enumerate(zip(ra, rb)):
        if not _eq(ya, yb) or not _eq(ca, cb):
            return {"what": "two instances with equal injected seeds disagree (a member generator is not reached, or global state leaks in)",
                    "transform": name, "call": k, "ctx_a": str(ca)[:120], "ctx_b": str(cb)[:120]}
    ra2 = run(a, kind, seed)
    for k, ((y1, c1), (y2, c2)) in enumerate(zip(ra, ra2)):
        if not _eq(y1, y2) or not _eq(c1, c2):
            return {"what": "re-injecting the seed does not replay the sequence", "transform": name, "call": k}
    return None


def search(limit, seed):
    n = 0
    Z = zoo()
    for name, (make, kind) in list(Z.items())[:limit]:
        for s in (seed, seed + 1):
            n += 1
            try:
                r = check(name, make, kind, s)
            except Exception as ex:
                r = {"what": f"{type(ex).__name__}: {str(ex)[:140]}", "transform": name}
            if r is not None:
                r["input"] = {"transform": name, "seed": s}
                return r, n
    return None, n
