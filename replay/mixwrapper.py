"""Bounded stand-in (runtime contract on the real KDMixWrapper) for C11: id-encoded datasets (sample i is a constant tensor of
value i+1 with class i), so partner and weight are decoded from the label vector and checked against the data."""
import itertools
import torch
from replay.transforms import perturb


def _ds(n, shapes):
    from kappadata.datasets.kd_dataset import KDDataset

    class D(KDDataset):
        def __len__(self): return n
        def getitem_x(self, idx, ctx=None): return torch.full(shapes[int(idx) % len(shapes)], float(int(idx) + 1))
        def getitem_class(self, idx, ctx=None): return int(idx)
        def getshape_class(self): return (max(n, 2),)
    return D()


def expected_partner_view(x2, shape):
    """pad with zeros or cut at the end so that x2 has `shape`"""
    out = torch.zeros(shape)
    sl = tuple(slice(0, min(a, b)) for a, b in zip(shape, x2.shape))
    out[sl] = x2[sl]
    return out


P1 = {"samples": 0, "mixed": 0}


def judge(ds, i, x, y, C):
    """-> ("unmixed" | "mixed", None) when (x, y) is sample i untouched / a convex combination whose label shows the same partner
    and weight as the data; (None, finding) otherwise"""
    xi = ds.getitem_x(i)
    if y.shape != (C,) or (y < -1e-7).any() or abs(float(y.sum()) - 1) > 1e-5:
        return None, {"what": "label vector is not non-negative with sum one", "idx": i, "label": y.tolist()}
    if x.shape != xi.shape:
        return None, {"what": "mixed sample does not keep the shape of sample i", "idx": i, "shape": tuple(x.shape)}
    nz = (y > 1e-9).nonzero().flatten().tolist()
    if nz == [i] and torch.equal(x, xi):
        return "unmixed", None
    lam = float(y[i])
    others = [c for c in nz if c != i]
    if len(others) != 1:
        if len(others) == 0:      # partner == i: convex combination of the sample with itself
            if not torch.allclose(x, xi, atol=1e-5):
                return None, {"what": "label says 'unmixed' but the data changed", "idx": i}
            return "unmixed", None
        return None, {"what": "label is not a combination of two one-hot vectors", "idx": i, "label": y.tolist()}
    j = others[0]
    if abs(float(y[j]) - (1 - lam)) > 1e-5 or not (0 <= lam <= 1):
        return None, {"what": "label weights are not lambda / 1 - lambda with lambda in [0, 1]", "idx": i, "label": y.tolist()}
    exp = lam * xi + (1 - lam) * expected_partner_view(ds.getitem_x(j), xi.shape)
    if not torch.allclose(x, exp, atol=1e-4):
        return None, {"what": "data is not mixed with the partner and weight that the label vector shows", "idx": i, "partner": j, "lambda": lam}
    return "mixed", None


def contract(cfg, seed):
    from kappadata.wrappers.sample_wrappers.kd_mix_wrapper import KDMixWrapper
    from kappadata.wrappers.mode_wrapper import ModeWrapper
    n, shapes = cfg["n"], cfg["shapes"]
    same_shapes = len(set(shapes)) == 1
    ds = _ds(n, shapes)
    mk = lambda sd: KDMixWrapper(_ds(n, shapes), mixup_p=cfg["p"], mixup_alpha=cfg["alpha"], seed=sd,
                                 mixup_unify_shapes_mode=None if same_shapes else "pad_or_cut_end")
    try:
        w = mk(seed)
    except (AssertionError, NotImplementedError):
        return "SKIP"
    C = max(n, 2)
    mixed = 0
    for i in range(n):
        perturb(i)
        try:
            x, y = w.getitem_xclass(i)
        except NotImplementedError:
            return "SKIP"
        verdict, finding = judge(ds, i, x, y, C)
        if finding is not None:
            return finding
        if verdict == "unmixed":
            continue
        mixed += 1
        # seeded: image-only, label-only and joint requests (in any mode order) describe the same draw
        for mode in ("x class", "class x", "x", "class", "class index x"):
            out = ModeWrapper(mk(seed), mode=mode)[i]
            items = dict(zip(mode.split(" "), out if " " in mode else (out,)))
            if "x" in items and not torch.allclose(items["x"], x, atol=1e-6):
                return {"what": "the image delivered for mode order '%s' is not the draw of the joint request" % mode, "idx": i}
            if "class" in items and not torch.allclose(items["class"], y, atol=1e-6):
                return {"what": "the label delivered for mode order '%s' is not the draw of the joint request" % mode, "idx": i}
    if cfg["p"] >= 1.0 and n >= 2:
        # a single configuration can look unmixed by chance (partner == i, or a beta draw that rounds to 1 in float32); the
        # clause is judged over the whole grid (and proved for every draw by the contract on getitem_xclass)
        P1["samples"] += n
        P1["mixed"] += mixed
    # unseeded: whatever order image and label are requested in, one request delivers one draw (same partner, same weight)
    for mode in ("x class", "class x", "class index x", "index x class"):
        mw = ModeWrapper(mk(None), mode=mode)
        for i in range(n):
            perturb(100 + i)
            items = dict(zip(mode.split(" "), mw[i]))
            verdict, finding = judge(ds, i, items["x"], items["class"], C)
            if finding is not None:
                finding["mode"] = mode
                finding["what"] = f"unseeded wrapper, mode '{mode}': " + finding["what"]
                return finding
    return None


def configs():
    S = [(1, 4, 6), (1, 5, 4), (1, 4, 4)]
    out = []
    for n, shapes, p, alpha in itertools.product((1, 2, 3, 4, 6), ([S[0]], [S[2]], [S[0], S[1]], [S[1], S[2], S[0]]), (1.0, 0.5, 0.2), (0.2, 1.0, 5.0)):
        out.append(dict(n=n, shapes=shapes, p=p, alpha=alpha))
    return out


def search(seed, thorough=False):
    """-> (first failing case or None, cases evaluated, distinct non-trivial cases); the whole grid is evaluated either way"""
    n = nt = 0
    first = None
    P1["samples"] = P1["mixed"] = 0
    for cfg in configs():
        for s in range(seed, seed + (20 if thorough else 4)):
            n += 1
            try:
                r = contract(cfg, s)
            except Exception as ex:
                r = {"what": f"{type(ex).__name__}: {str(ex)[:140]}"}
            if r == "SKIP":
                continue
            nt += 1
            if r is not None and first is None:
                r["input"] = dict(cfg, seed=s)
                first = r
    if first is None and P1["samples"] >= 50 and P1["mixed"] == 0:
        first = {"what": "probability-one configurations never mixed any of %d samples" % P1["samples"], "input": {"p": 1.0}}
    return first, n, nt
