"""Bounded stand-in / native replay for C03: the ten dataset-manipulation wrappers over small class layouts; the promised
selection is recomputed from the statement (list comprehensions) and compared with wrapper.indices."""
import itertools
import math
import multiprocessing as mp
import random
from collections import Counter


def _ds(labels, C):
    from kappadata.datasets.kd_dataset import KDDataset

    class D(KDDataset):
        def __init__(self):
            super().__init__()
            self.labels = list(labels)
            self.class_names = [f"c{i}" for i in range(C)]

        def __len__(self): return len(self.labels)
        def getitem_class(self, idx, ctx=None): return self.labels[idx]
        def getall_class(self): return list(self.labels)
        def getshape_class(self): return (C,)
    return D()


def idx(w):
    return [int(i) for i in w.indices]


def _construct(target, args, kwargs, q):
    try:
        q.put(("ok", idx(target(*args, **kwargs))))
    except AssertionError as ex:
        q.put(("assert", str(ex)[:80]))
    except Exception as ex:
        q.put(("error", f"{type(ex).__name__}: {str(ex)[:100]}"))


def construct(cls, ds, timeout=20, **kwargs):
    """build the wrapper in a child process so that a constructor that does not terminate is detected"""
    ctx = mp.get_context("fork")
    q = ctx.Queue()
    p = ctx.Process(target=_construct, args=(cls, (ds,), kwargs, q))
    p.start()
    p.join(timeout)
    if p.is_alive():
        p.terminate()
        return ("timeout", None)
    return q.get()


def checks(labels, C, seed):
    from kappadata.wrappers.dataset_wrappers.class_filter_wrapper import ClassFilterWrapper
    from kappadata.wrappers.dataset_wrappers.percent_filter_wrapper import PercentFilterWrapper
    from kappadata.wrappers.dataset_wrappers.subset_wrapper import SubsetWrapper
    from kappadata.wrappers.dataset_wrappers.shuffle_wrapper import ShuffleWrapper
    from kappadata.wrappers.dataset_wrappers.repeat_wrapper import RepeatWrapper
    from kappadata.wrappers.dataset_wrappers.oversampling_wrapper import OversamplingWrapper
    from kappadata.wrappers.dataset_wrappers.sort_by_class_wrapper import SortByClassWrapper
    from kappadata.wrappers.dataset_wrappers.intra_class_shuffle_wrapper import IntraClassShuffleWrapper
    from kappadata.wrappers.dataset_wrappers.fewshot_wrapper import FewshotWrapper
    from kappadata.wrappers.dataset_wrappers.classwise_subset_wrapper import ClasswiseSubsetWrapper
    n = len(labels)
    ds = lambda: _ds(labels, C)
    rng = list(range(n))
    out = []

    def add(name, kw, got, exp, what):
        if got != exp:
            out.append({"what": what, "wrapper": name, "kwargs": kw, "expected": exp, "observed": got})
    # class filters
    for valid in ([0], [1, 0], list(range(C))):
        add("ClassFilter", {"valid_classes": valid}, idx(ClassFilterWrapper(ds(), valid_classes=valid)), [i for i in rng if labels[i] in valid],
            "class filter does not keep precisely the allowed classes in original order")
        add("ClassFilter", {"invalid_classes": valid}, idx(ClassFilterWrapper(ds(), invalid_classes=valid)), [i for i in rng if labels[i] not in valid],
            "class filter (invalid) does not drop precisely the given classes")
    add("ClassFilter", {"valid_class_names": ["c0"]}, idx(ClassFilterWrapper(ds(), valid_class_names=["c0"])), [i for i in rng if labels[i] == 0],
        "class filter by name differs")
    # percent / index ranges
    grid = [0.0, 1.0, 1 / 3, 0.29, 0.5, 0.75]
    for p in grid:
        a, b = idx(PercentFilterWrapper(ds(), to_percent=p)), idx(PercentFilterWrapper(ds(), from_percent=p))
        add("PercentFilter", {"p": p}, a + b, rng, "complementary percent ranges do not partition the dataset")
        a, b = idx(PercentFilterWrapper(ds(), to_percent=p, ceil_to_index=True)), idx(PercentFilterWrapper(ds(), from_percent=p, ceil_from_index=True))
        add("PercentFilter", {"p": p, "ceil": True}, a + b, rng, "complementary (ceiling) percent ranges do not partition the dataset")
        if n:
            a, b = idx(SubsetWrapper(ds(), end_percent=p)), idx(SubsetWrapper(ds(), start_percent=p))
            add("SubsetWrapper", {"percent": p}, a + b, rng, "complementary percent ranges of SubsetWrapper do not partition")
    for k in range(0, n + 2):
        a, b = idx(SubsetWrapper(ds(), end_index=k)), idx(SubsetWrapper(ds(), start_index=min(k, n)))
        add("SubsetWrapper", {"index": k}, a + b, rng, "complementary index ranges do not partition the dataset")
    # shuffle
    s1, s2 = idx(ShuffleWrapper(ds(), seed=seed)), idx(ShuffleWrapper(ds(), seed=seed))
    add("Shuffle", {"seed": seed}, sorted(s1), rng, "shuffle is not a permutation")
    add("Shuffle", {"seed": seed}, s1, s2, "shuffle is not a function of the seed")
    # repeat
    if n:
        for r in (1, 3):
            add("Repeat", {"repetitions": r}, idx(RepeatWrapper(ds(), repetitions=r)), rng * r, "repeat is not whole round-robin copies")
        for m in (1, n, n + 1, 2 * n + 1):
            got = idx(RepeatWrapper(ds(), min_size=m))
            add("Repeat", {"min_size": m}, got, rng * math.ceil(m / n), "repeat(min_size) does not reach the size with whole copies")
    labeled = all(l >= 0 for l in labels)
    cnt = Counter(l for l in labels if l >= 0)
    # oversampling (construction must terminate)
    for mode in ("multiply", "exact"):
        st, got = construct(OversamplingWrapper, ds(), mode=mode)
        if st == "timeout":
            out.append({"what": "construction does not terminate", "wrapper": "Oversampling", "kwargs": {"mode": mode}})
            continue
        if st != "ok":
            continue
        mx = max(cnt.values()) if cnt else 0
        gc = Counter(labels[i] for i in got if labels[i] >= 0)
        if mode == "multiply":
            if any(i not in got for i in rng):
                out.append({"what": "oversampling loses samples", "wrapper": "Oversampling", "kwargs": {"mode": mode}, "observed": got})
            for c, k in cnt.items():
                if gc[c] != (mx // k) * k:
                    out.append({"what": "oversampling(multiply) does not reach floor(max/c)*c per class", "wrapper": "Oversampling", "class": c, "observed": gc[c]})
        elif labeled:
            if any(i not in got for i in rng):
                out.append({"what": "oversampling loses samples", "wrapper": "Oversampling", "kwargs": {"mode": mode}, "observed": got})
            for c in cnt:
                if gc[c] != mx:
                    out.append({"what": "oversampling(exact) does not give every present class the majority count", "wrapper": "Oversampling", "class": c, "observed": gc[c], "expected": mx})
    if labeled:
        got = idx(SortByClassWrapper(ds()))
        add("SortByClass", {}, got, sorted(rng, key=lambda i: labels[i]), "sort by class is not the stable sort by class")
        g1, g2 = idx(IntraClassShuffleWrapper(ds(), seed=seed)), idx(IntraClassShuffleWrapper(ds(), seed=seed))
        add("IntraClassShuffle", {"seed": seed}, sorted(g1), rng, "intra-class shuffle is not a permutation")
        add("IntraClassShuffle", {"seed": seed}, [labels[i] for i in g1], list(labels), "intra-class shuffle changes the per-position class sequence")
        add("IntraClassShuffle", {"seed": seed}, g1, g2, "intra-class shuffle is not a function of the seed")
        for shots in (1, 2, 5):
            got = idx(FewshotWrapper(ds(), num_shots=shots, seed=seed))
            gc = Counter(labels[i] for i in got)
            if len(set(got)) != len(got) or any(gc[c] != min(shots, k) for c, k in cnt.items()):
                out.append({"what": "few-shot does not take min(shots, count) distinct samples per class", "wrapper": "Fewshot", "shots": shots, "observed": got})
            add("Fewshot", {"shots": shots}, got, idx(FewshotWrapper(ds(), num_shots=shots, seed=seed)), "few-shot is not a function of the seed")
        per = {c: [i for i in rng if labels[i] == c] for c in range(C)}
        for p in (0.0, 0.5, 1.0, 1 / 3):
            a = idx(ClasswiseSubsetWrapper(ds(), end_percent=p))
            b = idx(ClasswiseSubsetWrapper(ds(), start_percent=p))
            exp_a = [i for c in range(C) for i in per[c][:int(p * len(per[c]))]]
            exp_b = [i for c in range(C) for i in per[c][int(p * len(per[c])):]]
            add("ClasswiseSubset", {"end_percent": p}, a, exp_a, "class-wise subset does not take the requested share per class")
            add("ClasswiseSubset", {"start_percent": p}, b, exp_b, "class-wise subset (start) does not take the requested share per class")
        for k in (0, 1, 2):
            a = idx(ClasswiseSubsetWrapper(ds(), end_index=k, check_enough_samples=False))
            add("ClasswiseSubset", {"end_index": k}, a, [i for c in range(C) for i in per[c][:k]], "class-wise subset does not take k samples per class")
    elif C >= 2:
        # unlabeled (-1) samples present: the per-class selection is taken among the labeled samples of each class
        per = {c: [i for i in rng if labels[i] == c] for c in range(C)}
        for p in (0.5, 1.0):
            a = idx(ClasswiseSubsetWrapper(ds(), end_percent=p))
            add("ClasswiseSubset", {"end_percent": p, "unlabeled": True}, a, [i for c in range(C) for i in per[c][:int(p * len(per[c]))]],
                "class-wise subset with unlabeled samples present does not take the requested share of each class")
        a = idx(ClasswiseSubsetWrapper(ds(), end_index=1, check_enough_samples=False))
        add("ClasswiseSubset", {"end_index": 1, "unlabeled": True}, a, [i for c in range(C) for i in per[c][:1]],
            "class-wise subset with unlabeled samples present does not take k samples per class")
    return out


def big_checks(seed):
    """larger layouts for the order-sensitive wrappers (stable ties need > 16 samples; class filters need long class lists)"""
    from kappadata.wrappers.dataset_wrappers.sort_by_class_wrapper import SortByClassWrapper
    from kappadata.wrappers.dataset_wrappers.class_filter_wrapper import ClassFilterWrapper
    out = []
    rng = random.Random(seed)
    labels = [rng.randrange(3) for _ in range(40)]
    got = idx(SortByClassWrapper(_ds(labels, 3)))
    if got != sorted(range(40), key=lambda i: labels[i]):
        out.append({"what": "sort by class is not the stable sort by class", "wrapper": "SortByClass", "n": 40})
    big = [rng.randrange(1000) for _ in range(60)]
    big += big[:10]
    valid = sorted(set(rng.sample(range(1000), 20)) | {big[0], big[3]})
    got = idx(ClassFilterWrapper(_ds(big, 1000), valid_classes=valid))
    if got != [i for i in range(len(big)) if big[i] in valid]:
        out.append({"what": "class filter does not keep precisely the allowed classes in original order", "wrapper": "ClassFilter",
                    "kwargs": {"valid_classes": "20+ of 1000"}})
    got = idx(ClassFilterWrapper(_ds(big, 1000), invalid_classes=valid))
    if got != [i for i in range(len(big)) if big[i] not in valid]:
        out.append({"what": "class filter (invalid) does not drop precisely the given classes", "wrapper": "ClassFilter"})
    return out


def _ds_storage(labels, C, storage):
    """the same labels held in a narrow integer dtype and handed out by the bulk accessor as they are stored (numpy / torch);
    the per-sample accessor returns python ints - a wrapper has to select the same samples whatever the storage is"""
    import numpy as np
    import torch
    from kappadata.datasets.kd_dataset import KDDataset
    store = {"np.uint8": lambda: np.asarray(labels, dtype=np.uint8), "np.int16": lambda: np.asarray(labels, dtype=np.int16),
             "torch.uint8": lambda: torch.tensor(labels, dtype=torch.uint8), "torch.int64": lambda: torch.tensor(labels, dtype=torch.int64),
             "np.int64": lambda: np.asarray(labels, dtype=np.int64)}[storage]()

    class D(KDDataset):
        def __len__(self): return len(labels)
        def getitem_class(self, idx, ctx=None): return int(labels[idx])
        def getall_class(self): return store
        def getshape_class(self): return (C,)
    return D()


def storage_checks(seed):
    """class-based wrappers over 120 samples / 4 classes whose labels are stored in narrow dtypes (products such as
    class * len(dataset) do not fit uint8 / int16 index arithmetic done in the label dtype)"""
    from kappadata.wrappers.dataset_wrappers.sort_by_class_wrapper import SortByClassWrapper
    from kappadata.wrappers.dataset_wrappers.intra_class_shuffle_wrapper import IntraClassShuffleWrapper
    from kappadata.wrappers.dataset_wrappers.oversampling_wrapper import OversamplingWrapper
    from kappadata.wrappers.dataset_wrappers.class_filter_wrapper import ClassFilterWrapper
    out = []
    rng = random.Random(seed + 11)
    n, C = 120, 4
    labels = [rng.choice([0, 1, 1, 2, 3, 3, 3]) for _ in range(n)]
    for storage in ("np.uint8", "np.int16", "torch.uint8", "torch.int64", "np.int64"):
        try:
            ds = _ds_storage(labels, C, storage)
            got = idx(SortByClassWrapper(ds))
            if got != sorted(range(n), key=lambda i: labels[i]):
                out.append({"what": "sort by class is not the stable sort by class", "wrapper": "SortByClass", "storage": storage, "n": n}); break
            got = idx(IntraClassShuffleWrapper(ds, seed=seed))
            if sorted(got) != list(range(n)) or [labels[i] for i in got] != labels:
                out.append({"what": "intra-class shuffle is not a permutation keeping the per-position class sequence",
                            "wrapper": "IntraClassShuffle", "storage": storage}); break
            got = idx(ClassFilterWrapper(ds, valid_classes=[1, 3]))
            if got != [i for i in range(n) if labels[i] in (1, 3)]:
                out.append({"what": "class filter does not keep precisely the allowed classes in original order", "wrapper": "ClassFilter",
                            "storage": storage}); break
            for mode in ("multiply", "exact"):
                got = idx(OversamplingWrapper(ds, mode=mode))
                cnt = Counter(labels[i] for i in got)
                base = Counter(labels)
                mx = max(base.values())
                want = {c: (mx if mode == "exact" else base[c] * max(1, mx // base[c])) for c in base}
                if got[:n] != list(range(n)) and mode == "multiply" or dict(cnt) != want or not set(range(n)) <= set(got):
                    out.append({"what": f"oversampling ({mode}) does not keep every sample / reach the documented class balance",
                                "wrapper": "Oversampling", "storage": storage, "expected": want, "observed": dict(cnt)}); break
            if out:
                break
        except Exception as ex:
            out.append({"what": f"{type(ex).__name__}: {str(ex)[:120]}", "storage": storage}); break
    return out


LAYOUTS = [([0], 1), ([0, 1], 2), ([0, 0, 2], 3), ([1, 0, 1, 2, 2, 0, 1], 3), ([0, 0, 0, 1], 2), ([2, 2, 1, 1, 0, 0, 3], 5), ([0, -1, 1, 1, -1], 2)]


def search(limit, seed):
    n = 1
    r = big_checks(seed)
    if r:
        r[0]["input"] = {"layout": "40 samples / 3 classes; 70 samples / 1000 classes", "seed": seed}
        return r[0], n
    n += 1
    r = storage_checks(seed)
    if r:
        r[0]["input"] = {"layout": "120 samples / 4 classes, labels stored as " + str(r[0].get("storage")), "seed": seed}
        return r[0], n
    for labels, C in LAYOUTS[:limit]:
        for s in (seed, seed + 3):
            n += 1
            try:
                r = checks(labels, C, s)
            except Exception as ex:
                r = [{"what": f"{type(ex).__name__}: {str(ex)[:120]}"}]
            if r:
                r[0]["input"] = {"labels": labels, "classes": C, "seed": s}
                return r[0], n
    return None, n
