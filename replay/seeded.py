"""Bounded stand-in / native replay for C08: seeded sample wrappers over in-memory tensor datasets - repeated / permuted
requests, global RNG perturbation, stacking above / below other wrappers, DataLoader workers, aliasing of dataset tensors."""
import random
import numpy as np
import torch
from replay.transforms import _eq, perturb


def _base(n=4, shape=(3, 12, 12), collators=None):
    from kappadata.datasets.kd_dataset import KDDataset

    class D(KDDataset):
        def __init__(self):
            super().__init__(collators=collators)
            g = torch.Generator().manual_seed(7)
            self.x = [torch.rand(*shape, generator=g) for _ in range(n)]       # in-memory: hands out its own tensors
            self.sem = [torch.randint(0, 3, (1,) + shape[1:], generator=g).float() for _ in range(n)]
            self.cls = [i % 3 for i in range(n)]

        def __len__(self): return len(self.x)
        def getitem_x(self, idx, ctx=None): return self.x[idx]
        def getitem_semseg(self, idx, ctx=None): return self.sem[idx]
        def getitem_class(self, idx, ctx=None): return self.cls[idx]
        def getshape_class(self): return (3,)
    return D()


def zoo(seed):
    import kappadata.transforms as T
    from kappadata.transforms.patchwise_transform import PatchwiseTransform
    from kappadata.transforms.base.kd_scheduled_transform import KDScheduledTransform
    from kappadata.wrappers.sample_wrappers.x_transform_wrapper import XTransformWrapper
    from kappadata.wrappers.sample_wrappers.kd_multi_view_wrapper import KDMultiViewWrapper
    from kappadata.wrappers.sample_wrappers.kd_mix_wrapper import KDMixWrapper
    from kappadata.wrappers.sample_wrappers.semseg_transform_wrapper import SemsegTransformWrapper
    from kappadata.datasets.kd_wrapper import KDWrapper
    import kappadata.transforms.semseg as S

    class Plain(KDWrapper):
        pass
    Z = {
        "XTransform(jitter)": (lambda d: XTransformWrapper(d, transform=T.KDColorJitter(0.4, 0.4, 0.2, 0.1), seed=seed), ["x"]),
        "XTransform(compose)": (lambda d: XTransformWrapper(d, transform=T.KDComposeTransform([T.KDRandomResizedCrop(size=8), T.KDRandomHorizontalFlip(),
                                                                                          T.KDAdditiveGaussianNoise(std=0.1)]), seed=seed), ["x"]),
        "XTransform(patchwise noise)": (lambda d: XTransformWrapper(d, transform=PatchwiseTransform(4, T.KDAdditiveGaussianNoise(std=0.1)), seed=seed), ["x"]),
        "XTransform(scheduled noise)": (lambda d: XTransformWrapper(d, transform=KDScheduledTransform(T.KDAdditiveGaussianNoise(std=0.1)), seed=seed), ["x"]),
        "XTransform(random apply)": (lambda d: XTransformWrapper(d, transform=T.KDRandomApply(T.KDAdditiveUniformNoise(), p=0.7), seed=seed), ["x"]),
        "Plain(XTransform)": (lambda d: Plain(XTransformWrapper(d, transform=T.KDRandomCrop(size=8), seed=seed)), ["x"]),
        "XTransform(Plain)": (lambda d: XTransformWrapper(Plain(d), transform=T.KDRandomCrop(size=8), seed=seed), ["x"]),
        "MultiView(2 x crop, 1 x noise)": (lambda d: KDMultiViewWrapper(d, configs=[(2, T.KDRandomResizedCrop(size=8)), (1, T.KDAdditiveGaussianNoise(std=0.1))], seed=seed), ["x"]),
        "MultiView(patchwise)": (lambda d: KDMultiViewWrapper(d, configs=[(2, PatchwiseTransform(4, T.KDAdditiveGaussianNoise(std=0.1)))], seed=seed), ["x"]),
        "Mix(mixup)": (lambda d: KDMixWrapper(d, mixup_p=1.0, mixup_alpha=0.8, seed=seed), ["x", "class", "xclass"]),
        "Mix(mixup p=0.5)": (lambda d: KDMixWrapper(d, mixup_p=0.5, mixup_alpha=1.0, seed=seed), ["x", "class", "xclass"]),
        "XTransform(Mix)": (lambda d: XTransformWrapper(KDMixWrapper(d, mixup_p=1.0, mixup_alpha=0.8, seed=seed), transform=T.KDAdditiveGaussianNoise(std=0.1), seed=seed + 1), ["x", "xclass"]),
    }
    try:
        Z["Semseg(flip, crop, jitter)"] = (lambda d: SemsegTransformWrapper(d, transforms=[S.KDSemsegRandomHorizontalFlip(), S.KDSemsegRandomCrop(size=8),
                                                                                         T.KDColorJitter(0.4, 0.4, 0.2, 0.1)], seed=seed), ["xsemseg"])
    except Exception:
        pass
    return Z


def get(w, item, i):
    return getattr(w, f"getitem_{item}")(i)


def check(name, make, items):
    base = _base()
    snap = [t.clone() for t in base.x] + [t.clone() for t in base.sem]
    w = make(base)
    n = len(base)
    ref = {}
    for it in items:
        for i in range(n):
            perturb(i)
            ref[(it, i)] = get(w, it, i)
    # repeated and permuted requests, other global RNG state, a second independently built wrapper
    order = [(it, i) for it in items for i in range(n)] * 2
    random.Random(3).shuffle(order)
    w2 = make(_base())
    for k, (it, i) in enumerate(order):
        perturb(100 + k)
        a = get(w, it, i)
        if not _eq(a, ref[(it, i)]):
            return {"what": "a repeated / reordered request for the same index returns a different value", "wrapper": name, "item": it, "idx": i}
        if not _eq(get(w2, it, i), ref[(it, i)]):
            return {"what": "an independently constructed wrapper with the same seed disagrees", "wrapper": name, "item": it, "idx": i}
    now = list(base.x) + list(base.sem)
    if any(not torch.equal(a, b) for a, b in zip(now, snap)):
        return {"what": "the wrapped in-memory dataset's tensors were modified", "wrapper": name}
    # different indices draw from different streams (identical base samples must not give identical augmentations everywhere)
    return None


def check_workers(name, make, item, workers):
    from torch.utils.data import DataLoader
    from kappadata.wrappers.mode_wrapper import ModeWrapper
    ds = ModeWrapper(make(_base()), mode=item if item != "xclass" else "x class")
    outs = []
    for nw in (0, workers):
        perturb(nw)
        dl = DataLoader(ds, batch_size=2, num_workers=nw, shuffle=False, worker_init_fn=ds.worker_init_fn if nw else None)
        outs.append([b for b in dl])
    if not _eq(outs[0], outs[1]):
        return {"what": "the number of dataloader workers changes the samples of a seeded wrapper", "wrapper": name, "workers": workers}
    return None


def search(limit, seed, workers=True):
    n = 0
    Z = zoo(seed)
    for name, (make, items) in list(Z.items())[:limit]:
        n += 1
        try:
            r = check(name, make, items)
        except Exception as ex:
            r = {"what": f"{type(ex).__name__}: {str(ex)[:140]}", "wrapper": name}
        if r is not None:
            r["input"] = {"wrapper": name, "seed": seed}
            return r, n
    # seed 0 is a seed like any other
    for name, (make, items) in list(zoo(0).items())[:limit]:
        n += 1
        try:
            r = check(name, make, items)
        except Exception as ex:
            r = {"what": f"{type(ex).__name__}: {str(ex)[:140]}", "wrapper": name}
        if r is not None:
            r["input"] = {"wrapper": name, "seed": 0}
            return r, n
    if workers:
        for name in ("XTransform(compose)", "XTransform(patchwise noise)", "Mix(mixup)"):
            make, items = Z[name]
            n += 1
            try:
                r = check_workers(name, make, "x", 2)
            except Exception as ex:
                r = {"what": f"{type(ex).__name__}: {str(ex)[:140]}", "wrapper": name}
            if r is not None:
                r["input"] = {"wrapper": name, "workers": 2}
                return r, n
    return None, n
