"""Bounded stand-in / native replay for C15: real transform objects, factor sequences, simulated workers."""
import itertools
import random


def zoo():
    from kappadata.transforms.kd_color_jitter import KDColorJitter
    from kappadata.transforms.kd_gaussian_blur_pil import KDGaussianBlurPIL
    from kappadata.transforms.kd_gaussian_blur_tv import KDGaussianBlurTV
    from kappadata.transforms.kd_solarize import KDSolarize
    from kappadata.transforms.kd_random_grayscale import KDRandomGrayscale
    from kappadata.transforms.kd_random_rotation import KDRandomRotation
    from kappadata.transforms.kd_random_color_jitter import KDRandomColorJitter
    from kappadata.transforms.kd_random_solarize import KDRandomSolarize
    from kappadata.transforms.kd_random_gaussian_blur_pil import KDRandomGaussianBlurPIL
    from kappadata.transforms.kd_random_gaussian_blur_tv import KDRandomGaussianBlurTV
    from kappadata.transforms.kd_threshold import KDThreshold
    from kappadata.transforms.kd_additive_uniform_noise import KDAdditiveUniformNoise
    from kappadata.transforms.kd_rand_augment import KDRandAugment
    from kappadata.transforms.base.kd_compose_transform import KDComposeTransform
    Z = []
    cj_fields = [(f"{k}_{b}", f"og_{k}_{b}", 0.0 if k == "hue" else 1.0) for k in ("brightness", "contrast", "saturation", "hue") for b in ("lb", "ub")]
    for b, c, s, h in ((0.4, 0.4, 0.2, 0.1), (0.8, 0.0, 1.5, 0.5), ((0.5, 0.8), (1.2, 1.9), 0.3, (-0.2, 0.05))):
        Z.append((f"KDColorJitter({b},{c},{s},{h})", lambda b=b, c=c, s=s, h=h: KDColorJitter(b, c, s, h), lambda t: t, cj_fields))
        Z.append((f"KDRandomColorJitter({b},{c},{s},{h})", lambda b=b, c=c, s=s, h=h: KDRandomColorJitter(b, c, s, h, p=0.5),
                  lambda t: t.color_jitter, cj_fields))
    for sig in ((0.1, 2.0), 1.5, (0.5, 0.5)):
        f = [("sigma_ub", "og_sigma_ub", "sigma_lb")]
        Z.append((f"KDGaussianBlurPIL({sig})", lambda sig=sig: KDGaussianBlurPIL(sigma=sig), lambda t: t, f))
        Z.append((f"KDGaussianBlurTV({sig})", lambda sig=sig: KDGaussianBlurTV(kernel_size=3, sigma=sig), lambda t: t, f))
        Z.append((f"KDRandomGaussianBlurPIL({sig})", lambda sig=sig: KDRandomGaussianBlurPIL(sigma=sig, p=0.3), lambda t: t.gaussian_blur, f))
        Z.append((f"KDRandomGaussianBlurTV({sig})", lambda sig=sig: KDRandomGaussianBlurTV(kernel_size=3, sigma=sig, p=0.3), lambda t: t.gaussian_blur, f))
    for th, ident in ((128, 256), (0, 256), (0.3, 1.0), (1.0, 1.0)):
        Z.append((f"KDSolarize({th})", lambda th=th: KDSolarize(threshold=th), lambda t: t, [("threshold", "og_threshold", ident)]))
        Z.append((f"KDRandomSolarize({th})", lambda th=th: KDRandomSolarize(threshold=th, p=0.2), lambda t: t.solarize, [("threshold", "og_threshold", ident)]))
    for p in (0.0, 0.2, 1.0):
        Z.append((f"KDRandomGrayscale({p})", lambda p=p: KDRandomGrayscale(p=p), lambda t: t, [("p", "og_p", 0.0)]))
    for d in (0, 15, 180.0):
        Z.append((f"KDRandomRotation({d})", lambda d=d: KDRandomRotation(degrees=d), lambda t: t,
                  [("degree_lb", "og_degree_lb", 0.0), ("degree_ub", "og_degree_ub", 0.0)]))
    ms = [(k, "og_" + k, 0.0) for k in ("magnitude", "magnitude_std", "magnitude_min", "magnitude_max")]
    Z.append(("KDThreshold", lambda: KDThreshold(threshold=0.5, threshold_std=0.1, threshold_min=0.2, threshold_max=0.9), lambda t: t.magnitude_sampler, ms))
    Z.append(("KDAdditiveUniformNoise", lambda: KDAdditiveUniformNoise(magnitude=0.7, magnitude_min=0.1), lambda t: t.magnitude_sampler, ms))
    Z.append(("KDRandAugment", lambda: KDRandAugment(num_ops=2, magnitude=9, fill_color=(0, 0, 0), interpolation="bicubic", magnitude_std=0.5),
              lambda t: t.magnitude_sampler, ms))
    Z.append(("Compose(ColorJitter,Grayscale)", lambda: KDComposeTransform([KDColorJitter(0.4, 0.4, 0.2, 0.1), KDRandomGrayscale(p=0.2)]),
              lambda t: t.transforms[0], cj_fields))
    Z.append(("Compose(Compose(Solarize),Blur)", lambda: KDComposeTransform([KDComposeTransform([KDSolarize(threshold=100)]), KDGaussianBlurPIL(sigma=(0.1, 2.0))]),
              lambda t: t.transforms[0].transforms[0], [("threshold", "og_threshold", 256)]))
    Z.append(("Compose(Solarize,Blur)#2", lambda: KDComposeTransform([KDSolarize(threshold=100), KDGaussianBlurPIL(sigma=(0.1, 2.0))]),
              lambda t: t.transforms[1], [("sigma_ub", "og_sigma_ub", "sigma_lb")]))
    return Z


def _get(obj, f):
    return getattr(obj, f) if isinstance(f, str) else f


def check_transform(name, make, leaf, fields, seq):
    t = make()
    l = leaf(t)
    import math
    # domain: finite constructed values (magnitude_std=inf only selects the uniform sampler and is never read again)
    og = {f: getattr(l, o) for f, o, _ in fields if getattr(l, f, None) is not None and math.isfinite(getattr(l, o))}
    eps = 1e-9
    for fac in seq:
        t.scale_strength(fac)
    last = seq[-1]
    t2 = make()
    t2.scale_strength(last)
    l2 = leaf(t2)
    for f, o, ident in fields:
        if f not in og:
            continue
        idv = getattr(l, ident) if isinstance(ident, str) else ident
        v = getattr(l, f)
        if abs(v - getattr(l2, f)) > eps:
            return {"what": "result depends on earlier factors (compounding)", "transform": name, "field": f, "sequence": seq,
                    "observed": v, "expected": getattr(l2, f)}
        lo, hi = min(idv, og[f]), max(idv, og[f])
        if not (lo - eps <= v <= hi + eps) and not isinstance(og[f], int):
            return {"what": "bound leaves the range between identity and constructed value", "transform": name, "field": f,
                    "factor": last, "observed": v, "identity": idv, "constructed": og[f]}
        if last == 1.0 and abs(v - og[f]) > eps:
            return {"what": "factor 1 does not restore the constructed range", "transform": name, "field": f, "observed": v, "expected": og[f]}
        if last == 0.0 and abs(v - idv) > eps:
            return {"what": "factor 0 does not collapse to the weakest setting", "transform": name, "field": f, "observed": v, "expected": idv}
    # monotone
    grid = [0.0, 0.1, 0.25, 0.5, 0.75, 0.9, 1.0]
    vals = {f: [] for f, _, _ in fields}
    for fac in grid:
        t3 = make()
        t3.scale_strength(fac)
        for f, _, _ in fields:
            if f in og:
                vals[f].append(getattr(leaf(t3), f))
    for f, vs in vals.items():
        if vs and not (all(a <= b + eps for a, b in zip(vs, vs[1:])) or all(a >= b - eps for a, b in zip(vs, vs[1:]))):
            return {"what": "bound is not monotone in the factor", "transform": name, "field": f, "values": vs}
    return None


def check_scheduled(W, B, n_batches_kind, seed):
    """W simulated workers share the batches round-robin; every sample of global batch b gets the schedule's value at b"""
    import copy
    from kappadata.transforms.base.kd_scheduled_transform import KDScheduledTransform
    from kappadata.transforms.base.kd_transform import KDTransform

    class Rec(KDTransform):
        def __init__(self):
            super().__init__()
            self.s = None

        def _scale_strength(self, factor): self.s = factor
        def __call__(self, x, ctx=None): return (x, self.s)
    n_batches = 7
    kw = {"updates": dict(updates=n_batches), "samples": dict(samples=n_batches * B - (B - 1 if B > 1 else 0)),
          "epochs": dict(epochs=1, dataset_len=n_batches * B, world_size=1, drop_last=True)}[n_batches_kind]
    base = KDScheduledTransform(Rec())
    workers = []
    for r in range(W):
        w = copy.deepcopy(base)
        w._worker_init_fn(r, W, batch_size=B, **kw)
        if w.n_batches != n_batches:
            return {"what": "n_batches differs from the number of global batches of the budget", "observed": w.n_batches, "expected": n_batches,
                    "input": dict(W=W, B=B, kind=n_batches_kind)}
        workers.append(w)
    if W == 1:
        # main-process use: the public hook without a DataLoader worker (get_worker_info() is None) = one single worker
        w0 = copy.deepcopy(base)
        w0.worker_init_fn(0, batch_size=B, **kw)
        workers = [w0]
    for b in range(n_batches):
        w = workers[b % W]
        exp = w.schedule.get_value(b, n_batches)
        for k in range(B):
            ctx = {}
            _, s = w(k, ctx=ctx)
            if s != exp or ctx.get(w.ctx_key) != exp:
                return {"what": "sample of global batch b does not get the schedule's value at b", "batch": b, "expected": exp,
                        "observed": s, "ctx": ctx, "input": dict(W=W, B=B, kind=n_batches_kind)}
    return None


def check_shared_child():
    """the result depends only on the last factor a transform received - also when that factor arrives through another composition
    that shares the child, through a nested composition, or directly"""
    import kappadata.transforms as T

    def strength(t):
        return (t.brightness_lb, t.brightness_ub)
    full = T.KDColorJitter(brightness=0.4, contrast=0.4, saturation=0.2, hue=0.1)
    ref = strength(full)
    child = T.KDColorJitter(brightness=0.4, contrast=0.4, saturation=0.2, hue=0.1)
    view0, view1 = T.KDComposeTransform([child]), T.KDComposeTransform([child])
    for steps in ([(view0, 0.0), (view1, 1.0)], [(view0, 1.0), (child, 0.0), (view0, 1.0)], [(view1, 0.5), (view0, 0.0), (view1, 0.5), (view0, 1.0)],
                  [(T.KDComposeTransform([view0]), 0.0), (view0, 1.0)]):
        for t, f in steps:
            t.scale_strength(f)
        last = steps[-1][1]
        exp = (1 - last * (1 - ref[0]), 1 + last * (ref[1] - 1))
        got = strength(child)
        if abs(got[0] - exp[0]) > 1e-9 or abs(got[1] - exp[1]) > 1e-9:
            return {"what": "a shared / nested / directly scaled child is not at the strength of the last factor it was given",
                    "factors": [f for _, f in steps], "observed": got, "expected": exp}
    return None


def search(limit, seed):
    rng = random.Random(seed)
    n = 0
    Z = zoo()
    seqs = [[1.0], [0.0], [0.5], [0.3, 1.0], [1.0, 0.0], [0.2, 0.9, 0.4], [0.0, 1.0, 0.5, 0.5]]
    for _ in range(3):
        seqs.append([round(rng.random(), 3) for _ in range(rng.randint(1, 4))])
    for (name, make, leaf, fields), seq in itertools.product(Z, seqs):
        n += 1
        try:
            r = check_transform(name, make, leaf, fields, seq)
        except Exception as ex:
            r = {"what": f"{type(ex).__name__}: {ex}", "transform": name, "sequence": seq}
        if r is not None:
            return r, n
        if n >= limit:
            break
    n += 1
    r = check_shared_child()
    if r is not None:
        r["input"] = {"scenario": "child shared between two compositions"}
        return r, n
    for W, B, kind in itertools.product((1, 2, 3), (1, 2, 4), ("updates", "samples", "epochs")):
        n += 1
        r = check_scheduled(W, B, kind, seed)
        if r is not None:
            return r, n
    return None, n
