"""Native replay / bounded cross-check for C04-C06: an executable oracle written from the property statements,
run against the real InterleavedSampler of the current /repo tree."""
import itertools
import random


class RecSampler:
    """sampler whose content depends on the announced epoch only; exposes data_source"""
    def __init__(self, n, with_set_epoch=True, salt=0, ds_extra=0, eager=False):
        self.n, self.epoch, self.salt, self.eager = n, 0, salt, eager
        self.data_source = range(n + ds_extra)      # a sampler may cover only part of its dataset
        self.announced = []
        if with_set_epoch:
            self.set_epoch = self._set_epoch

    def _set_epoch(self, e):
        self.epoch = e
        self.announced.append(e)

    def __len__(self):
        return self.n

    def __iter__(self):
        if self.eager:
            # like torch's DistributedSampler: the order is fixed when iter() is called, not when the first item is taken
            return iter([(j * 3 + self.epoch * 5 + self.salt) % self.n if self.n else 0 for j in range(self.n)])
        return self._lazy()

    def _lazy(self):
        for j in range(self.n):
            yield (j * 3 + self.epoch * 5 + self.salt) % self.n if self.n else 0


def main_seq(N, e):
    return [(j * 3 + e * 5) % N for j in range(N)]


def cfg_seq(n, salt):
    return [(j * 3 + salt) % n for j in range(n)]


def oracle(case, start_epoch=0):
    """expected stream [(flag, idx)] + announced epochs, from the statements of C04/C05/C06"""
    N, B, DL, DLB = case["N"], case["B"], case["drop_last"], case.get("dlb")
    cfgs = case.get("configs", [])
    epochs, updates, samples = case.get("epochs"), case.get("updates"), case.get("samples")
    D = DLB or B
    spe = N // D * D if DL else N
    upe = -(-spe // B)
    offs, acc = [], N
    for c in cfgs:
        offs.append(acc)
        acc += c["len"] + c.get("extra", 0)
    out, announced = [], []

    def run_pass(ci):
        c = cfgs[ci]
        ibs = c.get("bs") or B
        seq = cfg_seq(c["len"], ci)
        for k, x in enumerate(seq):
            out.append(((k + 1) % ibs == 0 or k + 1 == len(seq), offs[ci] + x))
    if epochs == 0 or updates == 0 or samples == 0:
        for ci in range(len(cfgs)):
            run_pass(ci)
        return out, announced
    e, u, s = start_epoch, start_epoch * upe, start_epoch * spe
    prev = s
    while True:
        announced.append(e)
        seq = main_seq(N, e)
        for j in range(spe):
            flag = (j + 1) % B == 0 or j + 1 == spe
            out.append((flag, seq[j]))
            s += 1
            if not flag:
                continue
            u += 1
            ended = j + 1 == spe
            if ended:
                e += 1
            for ci, c in enumerate(cfgs):
                due = ((c.get("ene") is not None and ended and e % c["ene"] == 0) or
                       (c.get("enu") is not None and u % c["enu"] == 0) or
                       (c.get("ens") is not None and prev // c["ens"] < s // c["ens"]))
                if due:
                    run_pass(ci)
            prev = s
            if ((epochs is not None and e >= epochs) or (updates is not None and u >= updates) or
                    (samples is not None and s >= samples)):
                return out, announced


def build(case, **start):
    from kappadata.samplers.interleaved_sampler import InterleavedSampler, InterleavedSamplerConfig
    main = RecSampler(case["N"], case.get("has_set_epoch", True), eager=case.get("eager", False))
    cfgs = [InterleavedSamplerConfig(sampler=RecSampler(c["len"], False, salt=ci, ds_extra=c.get("extra", 0)),
                                     every_n_epochs=c.get("ene"),
                                     every_n_updates=c.get("enu"), every_n_samples=c.get("ens"), batch_size=c.get("bs"))
            for ci, c in enumerate(case.get("configs", []))]
    s = InterleavedSampler(main, batch_size=case["B"], configs=cfgs, drop_last=case["drop_last"],
                           epochs=case.get("epochs"), updates=case.get("updates"), samples=case.get("samples"),
                           drop_last_batch_size=case.get("dlb"), **start)
    return s, main


def take(it, limit=20000):
    out = []
    for x in it:
        out.append(x)
        if len(out) > limit:
            raise RuntimeError("stream does not end")
    return out


def geometry(case):
    N, B, DL, D = case["N"], case["B"], case["drop_last"], case.get("dlb") or case["B"]
    spe = N // D * D if DL else N
    return spe, -(-spe // B)


def check_c04(case):
    """main stream / batch cutting / stopping point only: the main-item projection of the real stream vs the statement"""
    try:
        s, main = build(case)
    except (AssertionError, NotImplementedError):
        return None
    N = case["N"]
    exp, ann = oracle(case)
    got = take(iter(s))
    gm = [(f, i) for f, i in got if i < N]
    em = [(f, i) for f, i in exp if i < N]
    if gm != em:
        return {"what": "main part of the stream (indices, batch flags or stopping point) differs from the statement",
                "case": case, "expected": em[:60], "observed": gm[:60]}
    if case.get("has_set_epoch", True) and main.announced != ann:
        return {"what": "announced epochs differ", "case": case, "expected": ann, "observed": main.announced}
    if got and not got[-1][0]:
        return {"what": "stream does not end on a batch boundary", "case": case, "observed": got[-5:]}
    # a main batch never contains anything else / only an epoch's last batch may be short
    open_main = 0
    for f, i in got:
        if i < N:
            open_main = 0 if f else open_main + 1
        elif open_main:
            return {"what": "a main batch is interrupted by interleaved indices", "case": case, "observed": got[:60]}
    return None


def check_c05(case):
    """side passes only: after every real update exactly the due configs follow, whole, shifted, batched, unmixed"""
    try:
        s, main = build(case)
    except (AssertionError, NotImplementedError):
        return None
    N, B = case["N"], case["B"]
    cfgs = case.get("configs", [])
    got = take(iter(s))
    offs, acc = [], N
    for c in cfgs:
        offs.append(acc)
        acc += c["len"] + c.get("extra", 0)

    def pass_items(ci):
        c = cfgs[ci]
        ibs = c.get("bs") or B
        seq = cfg_seq(c["len"], ci)
        return [((k + 1) % ibs == 0 or k + 1 == len(seq), offs[ci] + x) for k, x in enumerate(seq)]
    if case.get("epochs") == 0 or case.get("updates") == 0 or case.get("samples") == 0:
        exp = [it for ci in range(len(cfgs)) for it in pass_items(ci)]
        if got != exp:
            return {"what": "zero budget does not yield exactly one full pass over every config", "case": case,
                    "expected": exp[:60], "observed": got[:60]}
        return None
    spe, upe = geometry(case)
    e = u = sm = prev = j = 0
    pos = 0
    while pos < len(got):
        f, i = got[pos]
        pos += 1
        if i >= N:
            return {"what": "interleaved indices appear where no update happened", "case": case, "pos": pos - 1, "observed": got[:60]}
        sm += 1
        j += 1
        if not f:
            continue
        u += 1
        ended = j == spe
        if ended:
            e += 1
            j = 0
        exp = []
        for ci, c in enumerate(cfgs):
            due = ((c.get("ene") is not None and ended and e % c["ene"] == 0) or
                   (c.get("enu") is not None and u % c["enu"] == 0) or
                   (c.get("ens") is not None and prev // c["ens"] < sm // c["ens"]))
            if due:
                exp += pass_items(ci)
        nxt = pos
        while nxt < len(got) and got[nxt][1] >= N:
            nxt += 1
        if got[pos:nxt] != exp:
            return {"what": "side passes after an update are not exactly the due configs, whole and in order", "case": case,
                    "update": u, "expected": exp[:40], "observed": got[pos:nxt][:40]}
        pos = nxt
        prev = sm
    # index resolution and collator dispatch on the real concat dataset / collator
    ds = s.dataset
    for ci, c in enumerate(cfgs):
        for k in range(c["len"]):
            d, item = ds[offs[ci] + k]
            if d != ci + 1 or item != k:
                return {"what": "a shifted index does not resolve to its dataset and sample", "case": case,
                        "index": offs[ci] + k, "observed": (d, item), "expected": (ci + 1, k)}
    return None


def check_c06(case):
    """resume only: the resumed real stream is the suffix of the real uninterrupted stream"""
    if case.get("epochs") == 0 or case.get("updates") == 0 or case.get("samples") == 0:
        return None
    try:
        s, main = build(case)
    except (AssertionError, NotImplementedError):
        return None
    N = case["N"]
    spe, upe = geometry(case)
    full = take(iter(s))
    ann = list(main.announced)
    for k in range(1, 8):
        stopped = ((case.get("epochs") is not None and k >= case["epochs"]) or
                   (case.get("updates") is not None and k * upe >= case["updates"]) or
                   (case.get("samples") is not None and k * spe >= case["samples"]))
        if stopped:
            break
        # position of the first main item of epoch k in the uninterrupted run
        cnt, cut = 0, None
        for pos, (f, i) in enumerate(full):
            if i < N:
                if cnt == k * spe:
                    cut = pos
                    break
                cnt += 1
        if cut is None:
            break
        for start in ({"start_epoch": k}, {"start_update": k * upe}, {"start_sample": k * spe}):
            try:
                s2, main2 = build(case, **start)
            except (AssertionError, NotImplementedError):
                continue
            got2 = take(iter(s2))
            if got2 != full[cut:]:
                return {"what": f"resumed stream ({start}) is not the suffix of the uninterrupted run", "case": case,
                        "expected": full[cut:][:60], "observed": got2[:60]}
            exp_ann = [a for a in ann if a >= k]
            if case.get("has_set_epoch", True) and main2.announced != exp_ann:
                return {"what": f"resumed run ({start}) announces different epochs", "case": case,
                        "expected": exp_ann, "observed": main2.announced}
    return None


def check_case(case):
    """-> None if the real code agrees with the oracle on this case, else a dict describing the mismatch"""
    try:
        s, main = build(case)
    except (AssertionError, NotImplementedError):
        return None
    exp, ann = oracle(case)
    got = take(iter(s))
    if got != exp:
        return {"what": "uninterrupted stream differs from the statement", "case": case, "expected": exp[:60], "observed": got[:60]}
    if case.get("has_set_epoch", True) and main.announced != ann:
        return {"what": "announced epochs differ", "case": case, "expected": ann, "observed": main.announced}
    # batches never mix datasets, end on a boundary
    if got and not got[-1][0]:
        return {"what": "stream does not end on a batch boundary", "case": case, "observed": got[-5:]}
    # resume (C06)
    if case.get("epochs") == 0 or case.get("updates") == 0 or case.get("samples") == 0:
        return None
    N, B, DL, D = case["N"], case["B"], case["drop_last"], case.get("dlb") or case["B"]
    spe = N // D * D if DL else N
    upe = -(-spe // B)
    for k in range(1, 8):
        stopped = ((case.get("epochs") is not None and k >= case["epochs"]) or
                   (case.get("updates") is not None and k * upe >= case["updates"]) or
                   (case.get("samples") is not None and k * spe >= case["samples"]))
        if stopped:
            break
        exp_k, ann_k = oracle(case, start_epoch=k)
        for start in ({"start_epoch": k}, {"start_update": k * upe}, {"start_sample": k * spe}):
            try:
                s2, main2 = build(case, **start)
            except (AssertionError, NotImplementedError):
                continue
            got2 = take(iter(s2))
            if got2 != exp_k:
                return {"what": f"resumed stream ({start}) is not the suffix of the uninterrupted run", "case": case,
                        "expected": exp_k[:60], "observed": got2[:60]}
            if case.get("has_set_epoch", True) and main2.announced != ann_k:
                return {"what": f"resumed run ({start}) announces different epochs", "case": case,
                        "expected": ann_k, "observed": main2.announced}
    return None


def case_from_model(model):
    """best-effort translation of a solver model (const name -> value string) into a case"""
    def get(sub, default=None, cast=int):
        for k, v in (model or {}).items():
            if sub in k and "(" not in v and "[" not in v:
                try:
                    return cast(v) if cast is not bool else v == "True"
                except ValueError:
                    pass
        return default
    N = get("main_sampler") if get("main_sampler") is not None else 5
    case = {"N": max(1, min(N or 5, 12)), "B": max(1, get("batch_size", 2) or 2),
            "drop_last": get("drop_last", True, bool), "configs": []}
    case["B"] = min(case["B"], case["N"])
    for kind in ("epochs", "updates", "samples"):
        none = get(f"{kind}!", None, str)
    return case


def neighbourhood(seed_case=None, limit=4000, rng=None):
    """enumerate small cases (the bounded space of C04-C06); seed_case first"""
    rng = rng or random.Random(0)
    if seed_case:
        yield seed_case
    cfg_opts = [[],
                [{"len": 2, "ens": 3}], [{"len": 3, "enu": 2, "bs": 2}], [{"len": 1, "ene": 1}],
                [{"len": 2, "ene": 2, "enu": 3}], [{"len": 3, "ene": 1, "ens": 5, "bs": 2}],
                [{"len": 2, "enu": 1}, {"len": 0, "ene": 1}, {"len": 3, "ens": 4, "bs": 3}],
                [{"len": 2, "ens": 5}, {"len": 2, "ens": 7}],
                [{"len": 2, "enu": 1, "extra": 2}, {"len": 3, "ene": 1, "extra": 1, "bs": 2}, {"len": 1, "ens": 2}]]
    cases = []
    for N in (1, 2, 3, 4, 5, 6, 7, 10):
        for B in range(1, min(N, 5) + 1):
            for DL in (True, False):
                dlbs = [None] + ([m * B for m in (2, 3) if m * B <= N] if DL else [])
                for dlb in dlbs:
                    for kind, vals in (("epochs", (0, 1, 3) + ((7,) if (N, B) in ((10, 4), (5, 2), (7, 3)) else ())), ("updates", (1, 4, 7)), ("samples", (1, 5, 11))):
                        for v in vals:
                            for cf in cfg_opts:
                                cases.append({"N": N, "B": B, "drop_last": DL, "dlb": dlb, kind: v, "configs": cf})
    rng.shuffle(cases)
    for k, c in enumerate(cases):
        if k % 3 == 0:
            c["eager"] = True          # a main sampler whose iter() fixes the epoch's order immediately
    for c in cases[:limit]:
        yield c


def search(seed_case=None, limit=1500, seed=0, check=None):
    n = 0
    check = check or check_case
    for case in neighbourhood(seed_case, limit, random.Random(seed)):
        n += 1
        r = check(case)
        if r is not None:
            r["tried"] = n
            return r, n
    return None, n
