"""Bounded stand-in / native replay for C14 on the real transforms: image-level checks that the abstract image of pyvc/libimg.py
cannot express (pixel content, PIL inputs, interpolation) and a native replay of the sizes a refuted obligation's model names.

Every check builds id-coded inputs, runs the real transform with an injected generator and compares with torchvision functional
operations driven by the recorded context / with the hand-computed expectation."""
import itertools
import numpy as np
import torch
import torchvision.transforms.functional as F
from torchvision.transforms import InterpolationMode

SIZES = [(1, 1), (1, 7), (7, 1), (2, 3), (8, 8), (7, 8), (9, 8), (8, 9), (16, 12), (33, 17), (5, 40), (40, 5), (64, 64)]


def img(h, w, c=3, kind="tensor"):
    base = (torch.arange(h * w, dtype=torch.float32).reshape(1, h, w) % 251 + 1) / 255
    x = torch.cat([base * (0.5 + 0.5 * (k + 1) / c) for k in range(c)])
    if kind == "pil":
        return F.to_pil_image(x)
    return x


def same(a, b):
    if not torch.is_tensor(a):
        a, b = F.pil_to_tensor(a), F.pil_to_tensor(b)
    return a.shape == b.shape and torch.equal(a, b)


def size_of(y):
    w, h = F.get_image_size(y)
    return h, w


def rng(seed):
    return np.random.default_rng(seed)


# ------------------------------------------------------------------------------------------------ crops
def check_random_crop(h, w, size, padding, pad_if_needed, seed, kind):
    from kappadata.transforms.kd_random_crop import KDRandomCrop
    t = KDRandomCrop(size=size, padding=padding, pad_if_needed=pad_if_needed).set_rng(rng(seed))
    x = img(h, w, kind=kind)
    th, tw = t.size
    # the padded input, by hand
    p = x if padding is None else F.pad(x, padding, 0, "constant")
    ph, pw = size_of(p)
    if pad_if_needed and pw < tw:
        p = F.pad(p, [tw - pw, 0], 0, "constant")
    if pad_if_needed and ph < th:
        p = F.pad(p, [0, th - ph], 0, "constant")
    ph, pw = size_of(p)
    ctx = {}
    try:
        y = t(x, ctx)
    except ValueError as ex:
        if ph >= th and pw >= tw:
            return f"ValueError on an input that is large enough ({ph}x{pw} for {th}x{tw}): {ex}"
        return None
    c = ctx["random_crop"]
    if size_of(y) != (th, tw):
        return f"output size {size_of(y)} != requested {(th, tw)}"
    if not (0 <= c["i"] and c["i"] + c["h"] <= ph and 0 <= c["j"] and c["j"] + c["w"] <= pw):
        return f"recorded box {c} leaves the padded input {ph}x{pw}"
    if not same(F.crop(p, c["i"], c["j"], c["h"], c["w"]), y):
        return f"crop(input, **ctx) != output for ctx {c}"
    return None


def check_simple_random_crop(h, w, seed, kind):
    from kappadata.transforms.kd_simple_random_crop import KDSimpleRandomCrop
    from torchvision.transforms import Resize
    t = KDSimpleRandomCrop(size=8, padding=2).set_rng(rng(seed))
    x = img(h, w, kind=kind)
    if max(h, w) / min(h, w) > 8:
        return None                  # torchvision Resize of extreme aspect ratios is not the subject here
    ctx = {}
    y = t(x, ctx)
    if size_of(y) != (8, 8):
        return f"output size {size_of(y)} != (8, 8)"
    p = F.pad(Resize(size=8, interpolation=InterpolationMode.BICUBIC)(x), 2, 0, "reflect")
    c = ctx["random_crop"]
    ph, pw = size_of(p)
    if not (0 <= c["i"] and c["i"] + c["h"] <= ph and 0 <= c["j"] and c["j"] + c["w"] <= pw):
        return f"recorded box {c} leaves the resized and padded input {ph}x{pw}"
    if not same(F.crop(p, c["i"], c["j"], c["h"], c["w"]), y):
        return "crop(pad(resize(input)), **ctx) != output"
    return None


def check_two_random_crop(h, w, size, seed, kind, omin, omax):
    from kappadata.transforms.kd_two_random_crop import KDTwoRandomCrop
    t = KDTwoRandomCrop(size=size, overlap_min=omin, overlap_max=omax, tries=5).set_rng(rng(seed))
    x = img(h, w, kind=kind)
    th, tw = t.size
    ctx = {}
    try:
        y = t(x, ctx)
    except ValueError as ex:
        return None if (h < th or w < tw) else f"ValueError on an input that is large enough: {ex}"
    c = ctx["two_random_crop"]
    for n in (0, 1):
        i, j, hh, ww = c[f"i{n}"], c[f"j{n}"], c[f"h{n}"], c[f"w{n}"]
        if size_of(y[n]) != (th, tw):
            return f"crop {n}: output size {size_of(y[n])} != requested {(th, tw)}"
        if not (0 <= i and i + hh <= h and 0 <= j and j + ww <= w):
            return f"crop {n}: recorded box leaves the input"
        if not same(F.crop(x, i, j, hh, ww), y[n]):
            return f"crop {n}: crop(input, **ctx) != output"
    ih = max(0, min(c["i0"] + c["h0"], c["i1"] + c["h1"]) - max(c["i0"], c["i1"]))
    iw = max(0, min(c["j0"] + c["w0"], c["j1"] + c["w1"]) - max(c["j0"], c["j1"]))
    iou = ih * iw / (2 * th * tw - ih * iw)
    if abs(iou - c["overlap"]) > 1e-9:
        return f"recorded overlap {c['overlap']} != IoU of the recorded boxes {iou}"
    if not c["out_of_tries"] and not (omin - 1e-9 <= iou <= omax + 1e-9):
        return f"overlap {iou} outside [{omin}, {omax}] although not out of tries"
    return None


def check_resized_crop(h, w, size, scale, ratio, seed, kind):
    from kappadata.transforms.kd_random_resized_crop import KDRandomResizedCrop
    t = KDRandomResizedCrop(size=size, scale=scale, ratio=ratio, interpolation="bilinear").set_rng(rng(seed))
    x = img(h, w, kind=kind)
    ctx = {}
    y = t(x, ctx)
    c = ctx["random_resized_crop"]
    if size_of(y) != tuple(t.size):
        return f"output size {size_of(y)} != requested {tuple(t.size)}"
    if (c["og_h"], c["og_w"]) != (h, w):
        return f"recorded original size {(c['og_h'], c['og_w'])} != {(h, w)}"
    if not (0 <= c["i"] and c["h"] >= 1 and c["i"] + c["h"] <= h and 0 <= c["j"] and c["w"] >= 1 and c["j"] + c["w"] <= w):
        return f"recorded box {c} leaves the input or is empty"
    if not same(F.resized_crop(x, c["i"], c["j"], c["h"], c["w"], list(t.size), InterpolationMode.BILINEAR), y):
        return "resized_crop(input, **ctx) != output"
    return None


# ------------------------------------------------------------------------------------------------ erase / mask
def check_erasing(h, w, count, seed, mode):
    from kappadata.transforms.kd_random_erasing import KDRandomErasing
    t = KDRandomErasing(p=1.0, mode=mode, min_count=count, max_count=count, min_area=0.02, max_area=0.5).set_rng(rng(seed))
    x = img(h, w) + 1.0
    x0 = x.clone()
    y = t(x.clone(), {})
    if y.shape != x0.shape:
        return f"shape changed {tuple(x0.shape)} -> {tuple(y.shape)}"
    changed = (y != x0).any(dim=0)
    if changed.all() and h * w > 1:
        return "the whole image was erased"
    if count == 1 and changed.any() and mode == "zeros":
        rows, cols = torch.where(changed.any(dim=1))[0], torch.where(changed.any(dim=0))[0]
        r0, r1, c0, c1 = rows.min(), rows.max(), cols.min(), cols.max()
        if not changed[r0:r1 + 1, c0:c1 + 1].all():
            return "the erased region is not one rectangle"
        if not (y[:, r0:r1 + 1, c0:c1 + 1] == 0).all():
            return "mode zeros: erased pixels are not zero"
    return None


def check_spec_augment(f, t_len, time_masking, frequency_masking, seed):
    from kappadata.transforms.audio.kd_spec_augment import KDSpecAugment
    t = KDSpecAugment(time_masking=time_masking, frequency_masking=frequency_masking).set_rng(rng(seed))
    x = img(f, t_len, c=1) + 1.0
    y = t(x.clone(), {})
    if y.shape != x.shape:
        return f"shape changed {tuple(x.shape)} -> {tuple(y.shape)}"
    masked = (y == 0)[0]
    if not torch.equal(y[~(y == 0)], x[~(y == 0)]):
        return "unmasked values changed"
    if f == 1 or t_len == 1 or masked.all():
        return None                                # a band along one axis is also a band along the other: attribution ambiguous
    rowmask = masked.all(dim=1)                   # axis 1 bands (whole rows)
    rows = torch.where(rowmask)[0]
    cols = torch.where(masked[~rowmask].all(dim=0))[0]      # axis 2 bands (whole columns), judged on the rows not masked entirely
    expect = torch.zeros_like(masked)
    expect[rows, :] = True
    expect[:, cols] = True
    if not torch.equal(expect, masked):
        return "masked positions are not whole rows / columns"
    for idx, lim in ((rows, time_masking), (cols, frequency_masking)):
        if len(idx):
            if lim is None:
                return "masking along an axis that is not configured"
            if int(idx.max() - idx.min()) + 1 != len(idx):
                return "masked band is not contiguous"
            if len(idx) >= max(lim, 1):
                return f"masked band of width {len(idx)} not below the configured parameter {lim}"
    return None


# ------------------------------------------------------------------------------------------------ pairs
def pair(h, w, kind="tensor"):
    g = torch.Generator().manual_seed(h * 1000 + w)
    sem = torch.randint(1, 150, size=(h, w), generator=g)
    x = (sem / 255).unsqueeze(0)
    return x, sem


def aligned(x, sem):
    """image and mask still show the same ids at the same places (pad: 0 next to -1)"""
    if x.shape[-2:] != sem.shape[-2:]:
        return False
    inside = sem >= 0
    return bool(torch.all((x[0] * 255).round().long()[inside] == sem[inside])) and bool(torch.all(x[0][~inside] == 0))


def check_pair(name, h, w, seed):
    import kappadata.transforms.semseg as S
    x, sem = pair(h, w)
    if name == "crop_dominated":
        # one class dominates every window: all re-draws of the category-ratio loop are rejected
        sem = torch.ones(h, w, dtype=torch.long)
        sem[::3, ::4] = torch.arange(2, 2 + sem[::3, ::4].numel()).reshape(sem[::3, ::4].shape) % 100 + 2
        g = torch.Generator().manual_seed(seed)
        x = torch.rand(1, h, w, generator=g)
        t = S.KDSemsegRandomCrop(size=(4, 3), max_category_ratio=0.05).set_rng(rng(seed))
        key = x[0] * 1000 + sem               # both members tagged per pixel: same window <=> tags agree
        y, s = t((x, sem))
        if tuple(y.shape[-2:]) != tuple(s.shape[-2:]):
            return "crop_dominated: image and mask sizes differ"
        ok = False
        for top in range(h - y.shape[-2] + 1):
            for left in range(w - y.shape[-1] + 1):
                if torch.equal(x[:, top:top + y.shape[-2], left:left + y.shape[-1]], y):
                    ok = ok or torch.equal(sem[top:top + y.shape[-2], left:left + y.shape[-1]], s)
        return None if ok else "crop_dominated: image and mask were cropped at different windows"
    if name == "pad":
        t = S.KDSemsegPad(size=(12, 10))
        y, s = t((x, sem))
        want = (max(h, 12), max(w, 10))
    elif name == "crop":
        t = S.KDSemsegRandomCrop(size=(6, 5), max_category_ratio=0.9 if seed % 2 else 1.0).set_rng(rng(seed))
        y, s = t((x, sem))
        want = (min(h, 6), min(w, 5))
    elif name == "flip":
        t = S.KDSemsegRandomHorizontalFlip(p=1.0).set_rng(rng(seed))
        y, s = t((x, sem), {})
        want = (h, w)
        if not torch.equal(s, sem.flip(-1)):
            return "flip: mask is not mirrored"
    elif name == "resize":
        t = S.KDSemsegResize(size=(9, 11), interpolation="nearest")
        y, s = t((x, sem))
        want = (9, 11)
    elif name == "random_resize":
        t = S.KDSemsegRandomResize(base_size=(24, 16), ratio=(0.5, 2.0), interpolation="nearest").set_rng(rng(seed))
        y, s = t((x, sem))
        want = tuple(y.shape[-2:])
        if min(want) < 1:
            return "random resize produced an empty image"
    elif name == "multi_crop":
        from kappadata.transforms.semseg.kd_semseg_overlapped_multi_crop import KDSemsegOverlappedMultiCrop
        ch, cw = 4, 6
        H, W = ch * (1 + h % 3), cw * (1 + w % 3)
        x, sem = pair(H, W)
        t = KDSemsegOverlappedMultiCrop(crop_size=(ch, cw))
        ys, ss = t((x, sem))
        if ys.shape[0] != ss.shape[0] or ys.shape[-2:] != (ch, cw) or ss.shape[-2:] != (ch, cw):
            return f"multi crop: shapes {tuple(ys.shape)} / {tuple(ss.shape)}"
        cover = torch.zeros(H, W, dtype=torch.bool)
        k = 0
        for i in range(1 + (H - ch) // (ch // 2)):
            for j in range(1 + (W - cw) // (cw // 2)):
                top, left = i * (ch // 2), j * (cw // 2)
                if not torch.equal(ss[k], sem[top:top + ch, left:left + cw]) or not aligned(ys[k], ss[k]):
                    return f"multi crop: window {k} is not the ({top},{left}) window of both members"
                cover[top:top + ch, left:left + cw] = True
                k += 1
        if k != ys.shape[0] or not cover.all():
            return "multi crop: windows do not tile the image"
        return None
    else:
        raise KeyError(name)
    if tuple(y.shape[-2:]) != want or tuple(s.shape[-2:]) != want:
        return f"{name}: output sizes {tuple(y.shape[-2:])} / {tuple(s.shape[-2:])}, expected {want}"
    if not aligned(y, s):
        return f"{name}: image and mask no longer show the same pixels at the same places"
    return None


def check_pipeline(h, w, seed):
    """a whole segmentation pipeline through the wrapper: image / mask alignment at the end"""
    import kappadata.transforms.semseg as S
    from kappadata.datasets.kd_dataset import KDDataset
    from kappadata.wrappers.sample_wrappers.semseg_transform_wrapper import SemsegTransformWrapper
    x, sem = pair(h, w)

    class D(KDDataset):
        def __len__(self): return 3
        def getitem_x(self, idx, ctx=None): return x
        def getitem_semseg(self, idx, ctx=None): return sem
    ds = SemsegTransformWrapper(D(), transforms=[S.KDSemsegRandomResize(base_size=(20, 14), ratio=(0.5, 2.0), interpolation="nearest"),
                                                S.KDSemsegRandomCrop(size=(8, 8), max_category_ratio=0.75),
                                                S.KDSemsegRandomHorizontalFlip(p=0.5), S.KDSemsegPad(size=(8, 8))], seed=seed)
    for idx in range(3):
        y, s = ds.getitem_xsemseg(idx)
        if tuple(y.shape[-2:]) != (8, 8) or tuple(s.shape[-2:]) != (8, 8):
            return f"pipeline: output sizes {tuple(y.shape[-2:])} / {tuple(s.shape[-2:])}, expected (8, 8)"
        if not aligned(y, s):
            return "pipeline: image and mask are no longer aligned"
        y2, s2 = ds.getitem_xsemseg(idx)
        if not torch.equal(y, y2) or not torch.equal(s, s2):
            return "pipeline: same index, different geometry"
    return None


# ------------------------------------------------------------------------------------------------ inverses
def check_inverses(h, w, ph, pw, seed):
    from kappadata.transforms.patchify_image import PatchifyImage
    from kappadata.transforms.unpatchify_image import UnpatchifyImage
    from kappadata.transforms.patchify import Patchify
    from kappadata.transforms.unpatchify import Unpatchify
    from kappadata.transforms.patchwise_shuffle import PatchwiseShuffle
    from kappadata.transforms.norm.kd_image_norm import KDImageNorm
    from kappadata.transforms.norm.kd_image_range_norm import KDImageRangeNorm
    H, W = h * ph, w * pw
    x = img(H, W)
    ctx = {}
    p = PatchifyImage((ph, pw))(x.clone(), ctx)
    if tuple(p.shape) != (3, h * w, ph, pw):
        return f"patchify shape {tuple(p.shape)}"
    if (ctx["patchify_lh"], ctx["patchify_lw"]) != (h, w):
        return "patchify records the wrong grid"
    for k in (0, h * w - 1, (h * w) // 2):
        r, c = divmod(k, w)
        if not torch.equal(p[:, k], x[:, r * ph:(r + 1) * ph, c * pw:(c + 1) * pw]):
            return f"patch {k} is not the ({r},{c}) window"
    if not torch.equal(UnpatchifyImage()(p, ctx), x):
        return "unpatchify(patchify(x)) != x"
    # around a patch shuffle, using the recorded permutation
    sh = PatchwiseShuffle().set_rng(rng(seed))
    q = sh(p, ctx)
    perm = torch.as_tensor(np.asarray(ctx["permutation"]))
    if sorted(perm.tolist()) != list(range(h * w)):
        return "recorded permutation is not a permutation"
    if not torch.equal(q, p[:, perm]):
        return "shuffled patches are not the recorded permutation of the patches"
    inv = torch.empty_like(perm)
    inv[perm] = torch.arange(len(perm))
    if not torch.equal(UnpatchifyImage()(q[:, inv], ctx), x):
        return "unpatchify(unshuffle(shuffle(patchify(x)))) != x"
    # the same transform instance applied to a second sample: the first sample's recorded permutation still describes its shuffle
    ctx_b = {}
    sh(PatchifyImage((ph, pw))(x.clone() + 1, ctx_b), ctx_b)
    perm_again = torch.as_tensor(np.asarray(ctx["permutation"]))
    if not torch.equal(perm_again, perm) or not torch.equal(q, p[:, perm_again]):
        return "the permutation recorded for an earlier sample changed when the transform was applied again"
    p5 = Patchify((ph, pw))(x.clone())
    if tuple(p5.shape) != (3, h, w, ph, pw) or not torch.equal(Unpatchify()(p5), x):
        return "Unpatchify(Patchify(x)) != x"
    mean, std = (0.485, 0.456, 0.406), (0.229, 0.224, 0.225 + 0.5 * (seed % 3))
    for n, d in ((KDImageNorm(mean=mean, std=std, inplace=False), KDImageNorm(mean=mean, std=std, inverse=True, inplace=False)),
                 (KDImageRangeNorm(inplace=False), KDImageRangeNorm(inverse=True, inplace=False))):
        y = n(x.clone())
        if y.shape != x.shape:
            return "norm changes the shape"
        if not torch.allclose(d(y), x, atol=1e-5):
            return f"{type(n).__name__}: denormalize(normalize(x)) != x"
        if not torch.allclose(n(d(x.clone())), x, atol=1e-5):
            return f"{type(n).__name__}: normalize(denormalize(x)) != x"
        # values outside [0, 1] (spectrograms, already normalised tensors): the maps are inverse on all reals, not only on image ranges
        for wide in (x.clone() * 6 - 3, -x.clone() * 40):
            if not torch.allclose(d(n(wide.clone())), wide, atol=1e-4) or not torch.allclose(n(d(wide.clone())), wide, atol=1e-4):
                return f"{type(n).__name__}: normalise / denormalise are not inverse on values outside [0, 1]"
    if not torch.allclose(KDImageNorm(mean=mean, std=std, inplace=False)(x.clone()),
                          (x - torch.tensor(mean).view(3, 1, 1)) / torch.tensor(std).view(3, 1, 1), atol=1e-6):
        return "KDImageNorm.normalize != (x - mean) / std"
    return None


# ------------------------------------------------------------------------------------------------ search
def cases(thorough=False, hints=()):
    """(label, thunk, descriptor) in a fixed order; `hints` are (h, w) sizes from a solver model, tried first"""
    sizes = list(hints) + SIZES
    seeds = range(6 if thorough else 2)
    for (h, w), seed in itertools.product(sizes, seeds):
        for kind in ("tensor", "pil"):
            for size, padding, pin in ((8, None, False), ((8, 9), None, True), (8, 2, False), ((4, 3), 1, True), (1, None, False)):
                yield ("random_crop", lambda a=(h, w, size, padding, pin, seed, kind): check_random_crop(*a),
                       dict(h=h, w=w, size=size, padding=padding, pad_if_needed=pin, seed=seed, kind=kind))
            for scale, ratio in (((0.08, 1.0), (3 / 4, 4 / 3)), ((0.9, 1.0), (0.5, 2.0)), ((0.001, 0.002), (3 / 4, 4 / 3)), ((0.5, 1.0), (1.0, 1.0))):
                yield ("random_resized_crop", lambda a=(h, w, (6, 5), scale, ratio, seed, kind): check_resized_crop(*a),
                       dict(h=h, w=w, size=(6, 5), scale=scale, ratio=ratio, seed=seed, kind=kind))
            yield ("simple_random_crop", lambda a=(h, w, seed, kind): check_simple_random_crop(*a), dict(h=h, w=w, seed=seed, kind=kind))
            yield ("two_random_crop", lambda a=(h, w, (4, 3), seed, kind, 0.2, 0.8): check_two_random_crop(*a),
                   dict(h=h, w=w, size=(4, 3), seed=seed, kind=kind, overlap=(0.2, 0.8)))
        for count, mode in ((1, "zeros"), (3, "zeros"), (1, "pixelwise"), (2, "channelwise")):
            yield ("random_erasing", lambda a=(h, w, count, seed, mode): check_erasing(*a), dict(h=h, w=w, count=count, seed=seed, mode=mode))
        for tm, fm in ((3, None), (None, 4), (2, 2), (1, 1), (50, 50)):
            yield ("spec_augment", lambda a=(h, w, tm, fm, seed): check_spec_augment(*a), dict(f=h, t=w, time_masking=tm, frequency_masking=fm, seed=seed))
        for name in ("pad", "crop", "crop_dominated", "flip", "resize", "random_resize", "multi_crop"):
            yield ("semseg_" + name, lambda a=(name, h, w, seed): check_pair(*a), dict(transform=name, h=h, w=w, seed=seed))
        yield ("semseg_pipeline", lambda a=(h, w, seed): check_pipeline(*a), dict(h=h, w=w, seed=seed))
    for (h, w, ph, pw), seed in itertools.product([(1, 1, 1, 1), (2, 3, 4, 2), (4, 4, 2, 2), (3, 1, 5, 7), (1, 6, 3, 1)], seeds):
        yield ("inverses", lambda a=(h, w, ph, pw, seed): check_inverses(*a), dict(grid=(h, w), patch=(ph, pw), seed=seed))


def search(thorough=False, hints=(), only=None):
    n, per = 0, {}
    for label, thunk, desc in cases(thorough, hints):
        if only is not None and label not in only:
            continue
        n += 1
        per[label] = per.get(label, 0) + 1
        try:
            r = thunk()
        except Exception as ex:
            r = f"{type(ex).__name__}: {str(ex)[:160]}"
        if r is not None:
            return {"what": f"{label}: {r}", "input": desc}, n, per
    return None, n, per
