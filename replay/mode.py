"""Bounded stand-in / native replay for C01: real ModeWrapper / TorchWrapper over id-encoded stacks, all short mode strings."""
import itertools
import random


def _classes():
    from kappadata.datasets.kd_dataset import KDDataset
    from kappadata.datasets.kd_wrapper import KDWrapper

    class Base(KDDataset):
        def __init__(self, n):
            super().__init__()
            self.n = n
            self.calls = []

        def __len__(self): return self.n

        def getitem_x(self, idx, ctx=None):
            self.calls.append(("x", idx))
            if ctx is not None:
                ctx["k"] = idx * 10
                ctx["k2"] = idx * 10 + 1          # a second key: every ctx.<key> position must read ITS key
            return ("x", idx)

        def getitem_class(self, idx, ctx=None):
            self.calls.append(("class", idx))
            return ("class", idx)

        def getitem_other(self, idx, ctx=None):
            self.calls.append(("other", idx))
            return ("other", idx)

        def getitem_flag(self, idx, ctx=None):
            # records a context key for some samples only
            if ctx is not None and idx % 2 == 0:
                ctx["flag"] = idx
            return ("flag", idx)

        def getitem_probe(self, idx, ctx=None):
            # reports the context entries it can see: must be those of THIS sample only
            return ("probe", idx, None if ctx is None else tuple(sorted(ctx.items())))

    class Fused(KDWrapper):
        """declares x and class as jointly loaded (like the mix wrapper)"""
        def __init__(self, dataset):
            super().__init__(dataset=dataset)
            self.joint_calls = 0

        @property
        def fused_operations(self):
            return super().fused_operations + [["x", "class"]]

        def getitem_x(self, idx, ctx=None): return self.getitem_xclass(idx, ctx)[0]
        def getitem_class(self, idx, ctx=None): return self.getitem_xclass(idx, ctx)[1]

        def getitem_xclass(self, idx, ctx=None):
            self.joint_calls += 1
            x = self.dataset.getitem_x(idx, ctx)
            c = self.dataset.getitem_class(idx, ctx)
            return ("fx", x, self.joint_calls), ("fc", c, self.joint_calls)

        def getitem_other(self, idx, ctx=None):
            return self.dataset.getitem_other(idx, ctx)

        def getitem_flag(self, idx, ctx=None):
            return self.dataset.getitem_flag(idx, ctx)

        def getitem_probe(self, idx, ctx=None):
            return self.dataset.getitem_probe(idx, ctx)

    class Plain(KDWrapper):
        pass
    return Base, Fused, Plain


def expected_item(item, i, stack, joint_id):
    if item == "index": return i
    if item == "ctx.k": return i * 10
    if item == "ctx.k2": return i * 10 + 1
    if item == "probe": return "PROBE"
    if stack == "fused" and item in ("x", "class"):
        return ("fx" if item == "x" else "fc", (item, i), joint_id)
    return (item, i)


def check_mode(stack, items, n, return_ctx, rng):
    from kappadata.wrappers.mode_wrapper import ModeWrapper
    Base, Fused, Plain = _classes()
    base = Base(n)
    ds = {"base": base, "plain": Plain(base), "fused": Fused(base), "plain-fused": None}[stack] if stack != "plain-fused" else None
    if stack == "plain-fused":
        ds = Fused(Plain(base))
        stack = "fused"
    mode = " ".join(items)
    try:
        mw = ModeWrapper(ds, mode=mode, return_ctx=return_ctx)
    except AssertionError:
        return None
    if len(mw) != n:
        return {"what": "len differs"}
    order = list(range(-n, n))
    rng.shuffle(order)
    fused_both = stack == "fused" and "x" in items and "class" in items
    for i in order:
        ii = i % n
        before = ds.joint_calls if stack == "fused" else 0
        out = mw[i]
        ctx = None
        if return_ctx:
            if not (isinstance(out, tuple) and len(out) == 2 and isinstance(out[1], dict)):
                return {"what": "context not appended although requested", "observed": str(out)[:80]}
            out, ctx = out
            if any(v != ii * 10 for k, v in ctx.items() if k == "k"):
                return {"what": "context carries entries of another sample", "ctx": str(ctx), "idx": i}
        vals = (out,) if len(items) == 1 else out
        if len(items) > 1 and not isinstance(out, tuple):
            return {"what": "several items not delivered as a tuple", "observed": str(out)[:80]}
        if len(items) == 1 and return_ctx is False and isinstance(out, tuple) and items[0] in ("index", "ctx.k", "ctx.k2"):
            return {"what": "single item wrapped"}
        if len(vals) != len(items):
            return {"what": "wrong number of items", "observed": str(out)[:80]}
        joint_now = ds.joint_calls if stack == "fused" else 0
        for p, it in enumerate(items):
            if stack == "fused" and it in ("x", "class"):
                # value of a fused item: tagged with the id of the joint call that produced it
                tag, inner, jid = vals[p]
                if tag != ("fx" if it == "x" else "fc") or inner != (it, ii):
                    return {"what": "position does not hold its own item for this sample", "pos": p, "item": it, "observed": str(vals[p])}
                if fused_both:
                    xs = [vals[q][2] for q, t in enumerate(items) if t in ("x", "class")]
                    firsts = {items.index("x"), items.index("class")}
                    ids = {vals[q][2] for q in firsts}
                    if len(ids) != 1:
                        return {"what": "jointly declared items were not loaded together once", "mode": mode, "joint ids": xs}
            elif it == "probe":
                seen = vals[p][2]
                propagated = return_ctx or any(t.startswith("ctx.") for t in items)
                if not propagated:
                    if seen is not None:
                        return {"what": "a context is handed to the loaders although none is propagated", "observed": str(seen)}
                    continue
                exp_ctx = {}
                for q, t in enumerate(items[:p]):
                    if t == "x" or (stack == "fused" and t == "class"):
                        exp_ctx["k"] = ii * 10
                        exp_ctx["k2"] = ii * 10 + 1
                    if t == "flag" and ii % 2 == 0:
                        exp_ctx["flag"] = ii
                if fused_both and ("x" in items[:p] or "class" in items[:p]):
                    exp_ctx["k"] = ii * 10
                    exp_ctx["k2"] = ii * 10 + 1
                if seen is None or dict(seen) != exp_ctx:
                    return {"what": "the context seen by a loader carries entries of another sample (or misses this sample's)", "idx": i,
                            "expected": str(exp_ctx), "observed": str(seen), "mode": mode}
            else:
                exp = expected_item(it, ii, stack, None)
                if vals[p] != exp:
                    return {"what": "position does not hold its own item for this sample", "pos": p, "item": it,
                            "expected": str(exp), "observed": str(vals[p])}
    # slices, lists, iteration
    ref = [mw[i] for i in range(n)]

    def strip(v):
        # joint-call counters differ between accesses: compare with them removed
        def s1(x):
            if isinstance(x, tuple) and len(x) == 3 and x[0] in ("fx", "fc"):
                return x[:2]
            if isinstance(x, tuple):
                return tuple(s1(y) for y in x)
            if isinstance(x, dict):
                return {k: s1(y) for k, y in x.items()}
            return x
        return s1(v)
    ref = [strip(r) for r in ref]
    for sl in (slice(None), slice(1, None), slice(None, -1), slice(None, None, 2), slice(n, None)):
        if [strip(v) for v in mw[sl]] != ref[sl]:
            return {"what": "slice does not follow sequence semantics", "slice": str(sl)}
    lst = [rng.randrange(n) for _ in range(3)]
    if [strip(v) for v in mw[lst]] != [ref[i] for i in lst]:
        return {"what": "index list does not follow sequence semantics", "list": lst}
    if [strip(v) for v in mw] != ref:
        return {"what": "iteration does not yield self[0..len)"}
    return None


def check_torch_wrapper(n):
    import torch
    from kappadata.wrappers.torch_wrapper import TorchWrapper
    from kappadata.wrappers.mode_wrapper import ModeWrapper

    class TDS(torch.utils.data.Dataset):
        def __len__(self): return n
        def __getitem__(self, i): return (("x", i), ("class", i), ("other", i))
    class TDS2(torch.utils.data.Dataset):
        def __len__(self): return n
        def __getitem__(self, i): return (("x2", i), ("class2", i), ("other2", i))
    tw = TorchWrapper(TDS(), mode="x class other")
    tw2 = TorchWrapper(TDS2(), mode="x class other")
    for i in range(n):
        # two independent stacks (e.g. train / test) read alternately
        a, b = tw.getitem_class(i), tw2.getitem_class(i)
        if a != ("class", i) or b != ("class2", i):
            return {"what": "a torch wrapper returns a sample of another wrapper instance", "idx": i, "observed": str((a, b))}
    for mode in ("class", "other x", "x index class"):
        mw = ModeWrapper(tw, mode=mode)
        for i in range(n):
            out = mw[i]
            vals = (out,) if " " not in mode else out
            for p, it in enumerate(mode.split(" ")):
                exp = i if it == "index" else (it, i)
                if vals[p] != exp:
                    return {"what": "torch wrapper delivers the wrong component", "mode": mode, "pos": p, "observed": str(vals[p])}
    return None


def search(limit, seed, max_items=3):
    rng = random.Random(seed)
    n = 0
    names = ["x", "class", "other", "index", "ctx.k", "ctx.k2", "flag", "probe"]
    modes = []
    for k in range(1, max_items + 1):
        for items in itertools.product(names, repeat=k):
            cpos = [q for q, t in enumerate(items) if t.startswith("ctx.")]
            if cpos and ("x" not in items or items.index("x") > min(cpos)):
                continue          # domain: ctx.<key> after the item that records the key
            modes.append(items)
    rng.shuffle(modes)
    for items in modes[:limit]:
        for stack in ("base", "plain", "fused", "plain-fused"):
            for rc in (False, True):
                n += 1
                try:
                    r = check_mode(stack, list(items), 3, rc, rng)
                except Exception as ex:
                    r = {"what": f"{type(ex).__name__}: {str(ex)[:100]}"}
                if r is not None:
                    r["input"] = {"stack": stack, "mode": " ".join(items), "return_ctx": rc}
                    return r, n
    n += 1
    r = check_torch_wrapper(3)
    if r is not None:
        r["input"] = {"torch_wrapper": True}
        return r, n
    return None, n
