"""Bounded stand-in (runtime contract on the real KDMixCollator.collate) for C10: id-encoded batches - pixel value and
one-hot label of sample i encode i - so partner and weight can be decoded from the output and compared between image and label."""
import itertools
import numpy as np
import torch


def make_batch(n, shape, n_classes, binary, with_index):
    xs = [torch.full(shape, float(i + 1)) for i in range(n)]
    if binary:
        ys = [torch.tensor(float(i % 2)) for i in range(n)]
    else:
        ys = [torch.nn.functional.one_hot(torch.tensor(i % n_classes), n_classes).float() for i in range(n)]
    return xs, ys


def contract(cfg, seed):
    """-> None if the postcondition of C10 holds for this configuration, else a failure dict"""
    from kappadata.collators.kd_mix_collator import KDMixCollator
    n, shape, C, binary = cfg["n"], cfg["shape"], cfg["classes"], cfg["binary"]
    mode = "index x class"
    try:
        col = KDMixCollator(mixup_alpha=cfg["mixup_alpha"], cutmix_alpha=cfg["cutmix_alpha"], mixup_p=cfg["mixup_p"], cutmix_p=cfg["cutmix_p"],
                            apply_mode=cfg["apply_mode"], lamb_mode=cfg["lamb_mode"], shuffle_mode=cfg["shuffle_mode"],
                            dataset_mode=mode, return_ctx=True)
    except (AssertionError, NotImplementedError):
        return "SKIP"
    col.set_rng(np.random.default_rng(seed))
    xs, ys = make_batch(n, shape, C, binary, True)
    batch = [((i, xs[i].clone(), ys[i].clone()), {}) for i in range(n)]
    try:
        (idx, x, y), ctx = col(batch)
    except AssertionError:
        return "SKIP"        # e.g. flip with an odd batch size: explicit rejection
    if idx.tolist() != list(range(n)):
        return {"what": "items other than image and label were changed", "observed": idx.tolist()}
    lam = ctx["lambda"].flatten().float()
    lam = lam.expand(n) if lam.numel() == 1 else lam
    x0 = torch.stack(xs)
    y0 = torch.stack(ys).float()
    if binary:
        y0 = y0.view(n, 1)
        yv = y.view(n, 1)
    else:
        yv = y
        if (yv.sum(dim=1) - 1).abs().max() > 1e-5:
            return {"what": "label rows do not sum to one", "rows": yv.sum(dim=1).tolist()}
    hw = shape[-1] * shape[-2]
    partners = []
    for i in range(n):
        w = float(lam[i])
        vals = torch.unique(x[i])
        xi = float(i + 1)
        # decode the partner from the image
        cand = None
        expected_p = {"roll": (i - 1) % n, "flip": n - 1 - i}.get(cfg["shuffle_mode"])
        order = ([expected_p] if expected_p is not None else []) + [p for p in range(n) if p != expected_p]
        for p in order:
            xp = float(p + 1)
            mix = w * xi + (1 - w) * xp
            if vals.numel() == 1 and abs(float(vals[0]) - mix) < 1e-4:
                kind = "mixup"
            elif all(min(abs(float(v) - xi), abs(float(v) - xp)) < 1e-6 for v in vals):
                kind = "cutmix"
            else:
                continue
            # label must be mixed with the same partner and the same weight
            exp_y = w * y0[i] + (1 - w) * y0[p]
            if (yv[i] - exp_y).abs().max() < 1e-4:
                if kind == "cutmix":
                    pasted = (x[i] == xp) if p != i else torch.zeros_like(x[i], dtype=torch.bool)
                    frac_kept = 1.0 - float(pasted[0].sum()) / hw if p != i else 1.0
                    rows = pasted[0].any(dim=1).nonzero().flatten()
                    cols = pasted[0].any(dim=0).nonzero().flatten()
                    rect = True
                    if rows.numel():
                        sub = pasted[0][rows.min():rows.max() + 1, cols.min():cols.max() + 1]
                        rect = bool(sub.all())
                    if p != i and (abs(frac_kept - w) > 1e-4 or not rect):
                        continue
                cand = (p, kind)
                break
        if cand is None:
            return {"what": "image and label of a sample are not mixed with the same partner and weight (or the reported lambda is not the weight used)",
                    "sample": i, "lambda": w, "image values": [float(v) for v in vals][:6], "label": yv[i].tolist()}
        # the partner is only decodable when its contribution exceeds the comparison tolerance (values of two partners differ by >= 1)
        partners.append(cand[0] if (1 - w) >= 1e-3 else None)
    sm = cfg["shuffle_mode"]
    if n > 1:
        exp = {"roll": [(i - 1) % n for i in range(n)], "flip": [n - 1 - i for i in range(n)]}.get(sm)
        if exp is not None and any(p is not None and p != e for p, e in zip(partners, exp)):
            return {"what": f"partner does not follow shuffle mode {sm}", "partners": partners, "expected": exp}
        if sm == "random":
            ps = [p for p in partners if p is not None]
            if len(set(ps)) != len(ps):
                return {"what": "random shuffle mode does not mix with a permutation of the batch", "partners": partners}
    return None


def ys_key(ys):
    return [tuple(y.flatten().tolist()) for y in ys]


def configs(thorough):
    out = []
    shapes = [(1, 4, 4), (3, 6, 5), (2, 12, 3)] + ([(1, 8, 8), (1, 3, 11)] if thorough else [])
    splits = [(1.0, None, 0.8, None), (None, 1.0, None, 1.0), (0.5, 0.5, 0.8, 1.0), (0.3, 0.7, 1.0, 0.5)]
    for n, shape, (mp, cp, ma, ca), am, lm, sm in itertools.product((1, 2, 3, 4, 6), shapes, splits, ("batch", "sample"), ("batch", "sample"),
                                                                ("roll", "flip", "random")):
        out.append(dict(n=n, shape=shape, classes=max(n, 2), binary=False, mixup_p=mp, cutmix_p=cp, mixup_alpha=ma, cutmix_alpha=ca,
                        apply_mode=am, lamb_mode=lm, shuffle_mode=sm))
    return out


def search(seed, thorough=False):
    """-> (first failing case or None, cases evaluated, distinct non-trivial cases); the whole grid is evaluated either way"""
    n = nontrivial = 0
    first = None
    seeds = range(seed, seed + (20 if thorough else 6))
    for cfg in configs(thorough):
        for s in seeds:
            n += 1
            try:
                r = contract(cfg, s)
            except Exception as ex:
                r = {"what": f"{type(ex).__name__}: {str(ex)[:140]}"}
            if r == "SKIP":
                continue
            nontrivial += 1
            if r is not None and first is None:
                r["input"] = dict(cfg, seed=s)
                first = r
    return first, n, nontrivial
