"""Bounded stand-in / native replay for C19: real SharedDictDataset (multiprocessing Manager), access histories with clears,
reader processes, and a hostile schedule injected through a proxy around the shared dict."""
import itertools
import multiprocessing as mp
import random


class Base:
    """deterministic base dataset with a load counter"""
    def __init__(self, n, payload="tuple"):
        self.n, self.loads, self.payload = n, [0] * n, payload

    def __len__(self): return self.n

    def __getitem__(self, idx):
        self.loads[idx] += 1
        if self.payload == "tuple":
            return (idx, [idx] * 2, {"k": str(idx)})
        if self.payload == "none-mixed":
            return None if idx % 2 == 0 else (idx, 0, "")
        return idx * 1.5


class Hostile:
    """wraps the manager dict: clears it right after a membership test answered True (an interleaving another process could
    produce with dispose())"""
    def __init__(self, d, every=1):
        self.d, self.count, self.every = d, 0, every

    def __contains__(self, k):
        r = k in self.d
        if r:
            self.count += 1
            if self.count % self.every == 0:
                self.d.clear()
        return r

    def __getitem__(self, k): return self.d[k]
    def __setitem__(self, k, v): self.d[k] = v
    def clear(self): self.d.clear()
    def get(self, *a): return self.d.get(*a)


def check_history(n, history, transform, payload):
    from kappadata.caching.shared_dict_dataset import SharedDictDataset
    base = Base(n, payload)
    ref = Base(n, payload)
    tf = (lambda s: ("T", s)) if transform else None
    ds = SharedDictDataset(base, transform=tf)
    since_clear = set()
    try:
        for op in history:
            if op == "clear":
                ds.dispose()
                since_clear = set()
                base.loads = [0] * n
                continue
            got = ds[op]
            exp = ref[op]
            exp = ("T", exp) if transform else exp
            if got != exp:
                return {"what": "cached dataset differs from the wrapped dataset", "op": op, "expected": str(exp), "observed": str(got)}
            since_clear.add(op)
            if base.loads[op] != 1:
                return {"what": "sample loaded more than once between clears (sequential history)", "idx": op, "loads": base.loads[op]}
    finally:
        pass
    return None


def check_hostile(n, history):
    from kappadata.caching.shared_dict_dataset import SharedDictDataset
    base = Base(n)
    ds = SharedDictDataset(base)
    ds.shared_dict = Hostile(ds.shared_dict)
    for op in history:
        try:
            got = ds[op]
        except KeyError as ex:
            return {"what": "KeyError: the shared dict was cleared between the membership test and the read", "op": op}
        if got != Base(n)[op]:
            return {"what": "value differs under concurrent clear", "op": op}
    return None


def check_wrapped_transform_attr():
    from kappadata.caching.shared_dict_dataset import SharedDictDataset

    class WithTransform(Base):
        def __init__(self, n):
            super().__init__(n, "float")
            self.transform = lambda v: v + 100

        def __getitem__(self, idx):
            return self.transform(super().__getitem__(idx))
    base = WithTransform(3)
    ds = SharedDictDataset(base)
    for i in (0, 1, 0):
        if ds[i] != WithTransform(3)[i]:
            return {"what": "cache without a transform differs from the dataset it wraps", "idx": i, "observed": ds[i],
                    "expected": WithTransform(3)[i]}
    return None


def _reader(ds, idxs, q):
    try:
        q.put([ds[i] for i in idxs])
    except Exception as ex:      # pragma: no cover
        q.put(f"{type(ex).__name__}: {ex}")


def check_processes(n, readers, seed):
    from kappadata.caching.shared_dict_dataset import SharedDictDataset
    rng = random.Random(seed)
    ds = SharedDictDataset(Base(n))
    ctx = mp.get_context("fork")
    q = ctx.Queue()
    plans = [[rng.randrange(n) for _ in range(6)] for _ in range(readers)]
    ps = [ctx.Process(target=_reader, args=(ds, p, q)) for p in plans]
    for p in ps:
        p.start()
    outs = [q.get(timeout=30) for _ in ps]
    for p in ps:
        p.join()
    ref = Base(n)
    exp = sorted(str([ref[i] for i in p]) for p in plans)
    if sorted(str(o) for o in outs) != exp:
        return {"what": "reader processes sharing the cache observe values that differ from the wrapped dataset", "observed": str(outs)[:200]}
    return None


class SharedCountBase:
    """base dataset whose load counters live in shared memory (loads by forked readers are counted too)"""
    def __init__(self, n):
        self.n = n
        self.loads = mp.get_context("fork").Array("i", n)

    def __len__(self): return self.n

    def __getitem__(self, idx):
        with self.loads.get_lock():
            self.loads[idx] += 1
        return (idx, [idx] * 2)


def _read_all(ds, idxs):
    for i in idxs:
        ds[i]


def check_sequential_processes():
    """a sequential history spread over several processes that share one cache: each sample is loaded once in total"""
    from kappadata.caching.shared_dict_dataset import SharedDictDataset
    base = SharedCountBase(4)
    ds = SharedDictDataset(base)            # created before any reader exists, not yet accessed (the DataLoader pattern)
    ctx = mp.get_context("fork")
    for plan in ([0, 1], [1, 0, 2], [2, 2]):
        p = ctx.Process(target=_read_all, args=(ds, plan))
        p.start()
        p.join(30)
        if p.exitcode != 0:
            return {"what": f"a reader process failed (exit code {p.exitcode})", "plan": plan}
    ds[0]
    ds[3]
    loads = list(base.loads)
    if loads != [1, 1, 1, 1]:
        return {"what": "readers that share the cached dataset do not share the cache (samples loaded more than once without a clear)",
                "loads": loads, "expected": [1, 1, 1, 1]}
    return None


def check_copy_lifetime():
    """dropping a copy of the cached dataset (pickle round trip, as sent to a reader) does not empty the cache of the others"""
    import copy
    import gc
    import pickle
    from kappadata.caching.shared_dict_dataset import SharedDictDataset
    base = Base(3)
    ds = SharedDictDataset(base)
    ds[0], ds[1]
    for make in (lambda: copy.copy(ds), lambda: pickle.loads(pickle.dumps(ds))):
        try:
            c = make()
        except Exception:
            continue                      # a wrapped dataset that cannot be copied this way is not the subject
        c[0]                              # a hit in the copy
        del c
        gc.collect()
        ds[0], ds[1]
        if base.loads[:2] != [1, 1]:
            return {"what": "the cache was emptied when a copy of the cached dataset was garbage collected", "loads": base.loads}
    return None


def search(limit, seed, processes=True):
    rng = random.Random(seed)
    n_eval = 0
    for n, tf, payload in itertools.product((1, 3), (False, True), ("tuple", "float", "none-mixed")):
        for _ in range(max(1, limit // 8)):
            hist = [rng.choice(list(range(n)) + ["clear"]) for _ in range(rng.randint(1, 8))]
            n_eval += 1
            r = check_history(n, hist, tf, payload)
            if r is not None:
                r["input"] = {"n": n, "history": hist, "transform": tf, "payload": payload}
                return r, n_eval
    for hist in ([0, 0], [1, 0, 1, 1], [2, 2, 2, 0, 0]):
        n_eval += 1
        try:
            r = check_hostile(3, hist)
        except AttributeError:
            r = None            # the shared dict cannot be wrapped from outside: the hostile schedule is not injectable (the proof covers it)
        if r is not None:
            r["input"] = {"n": 3, "history": hist, "schedule": "clear() by another process right after `idx in shared_dict` answered True"}
            return r, n_eval
    n_eval += 1
    r = check_wrapped_transform_attr()
    if r is not None:
        r["input"] = {"scenario": "cache without transform around a dataset that has its own .transform attribute"}
        return r, n_eval
    for name, fn in (("sequential history over reader processes", check_sequential_processes), ("copy dropped", check_copy_lifetime)):
        n_eval += 1
        try:
            r = fn()
        except Exception as ex:
            r = {"what": f"{type(ex).__name__}: {str(ex)[:160]}"}
        if r is not None:
            r["input"] = {"scenario": name}
            return r, n_eval
    if processes:
        for readers in (1, 2, 3):
            n_eval += 1
            r = check_processes(4, readers, seed)
            if r is not None:
                r["input"] = {"readers": readers}
                return r, n_eval
    return None, n_eval
