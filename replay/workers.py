"""Bounded stand-in / native replay for C09: simulated dataloader workers (deepcopy + np.random.seed(worker seed) +
worker_init_fn(rank)); every generator reachable from the dataset must be re-seeded from the worker's global seed."""
import copy
import numpy as np
import torch


def reachable_generators(obj, seen=None, path="ds", out=None, depth=0):
    """all numpy Generators reachable through attributes / lists / tuples / dict values / dataclass fields"""
    seen = seen if seen is not None else set()
    out = out if out is not None else []
    if id(obj) in seen or depth > 12:
        return out
    seen.add(id(obj))
    if isinstance(obj, np.random.Generator):
        out.append((path, obj))
        return out
    if isinstance(obj, (str, bytes, int, float, bool, type(None), torch.Tensor, np.ndarray)) or isinstance(obj, type):
        return out
    if isinstance(obj, (list, tuple)):
        for i, x in enumerate(obj):
            reachable_generators(x, seen, f"{path}[{i}]", out, depth + 1)
        return out
    if isinstance(obj, dict):
        for k, x in obj.items():
            reachable_generators(x, seen, f"{path}[{k!r}]", out, depth + 1)
        return out
    d = getattr(obj, "__dict__", None)
    if isinstance(d, dict) and type(obj).__module__.startswith(("kappadata", "replay", "__main__")):
        for k, x in d.items():
            if k in ("logger",):
                continue
            reachable_generators(x, seen, f"{path}.{k}", out, depth + 1)
    return out


def state(g):
    return str(g.bit_generator.state["state"])


def stacks():
    import kappadata.transforms as T
    from kappadata.transforms.patchwise_transform import PatchwiseTransform
    from kappadata.transforms.base.kd_scheduled_transform import KDScheduledTransform
    from kappadata.wrappers.sample_wrappers.x_transform_wrapper import XTransformWrapper
    from kappadata.wrappers.sample_wrappers.kd_multi_view_wrapper import KDMultiViewWrapper
    from kappadata.wrappers.sample_wrappers.semseg_transform_wrapper import SemsegTransformWrapper
    from kappadata.wrappers.mode_wrapper import ModeWrapper
    from kappadata.datasets.kd_subset import KDSubset
    from kappadata.datasets.kd_concat_dataset import KDConcatDataset
    from kappadata.collators.kd_mix_collator import KDMixCollator
    import kappadata.transforms.semseg as S
    from replay.seeded import _base

    from kappadata.collators.base.kd_compose_collator import KDComposeCollator
    from kappadata.collators.base.kd_single_collator_wrapper import KDSingleCollatorWrapper

    def mix():
        return KDMixCollator(mixup_alpha=0.8, cutmix_alpha=1.0, mixup_p=0.5, cutmix_p=0.5)

    def nested():
        return T.KDComposeTransform([T.KDRandomApply(T.KDComposeTransform([T.KDColorJitter(0.4, 0.4, 0.2, 0.1), T.KDRandomThreshold(threshold=0.5, threshold_std=0.1, p=0.5)]), p=0.5),
                                     PatchwiseTransform(4, T.KDAdditiveGaussianNoise(std=0.1)), KDScheduledTransform(T.KDRandomAdditiveGaussianNoise(std=0.1, p=0.5)),
                                     T.KDRandomColorJitter(0.1, 0.1, 0.1, 0.1, p=0.3), T.KDThreeAugment(threshold=0.5, sigma=(0.1, 2.0))])
    S_ = {
        "Mode(XTransform(nested compose))": lambda: ModeWrapper(XTransformWrapper(_base(), transform=nested()), mode="x"),
        "Mode(Subset(XTransform(jitter)))": lambda: ModeWrapper(KDSubset(XTransformWrapper(_base(), transform=T.KDColorJitter(0.4, 0.4, 0.2, 0.1)), [0, 1]), mode="x"),
        "Mode(Concat(XTransform, XTransform))": lambda: ModeWrapper(KDConcatDataset([XTransformWrapper(_base(), transform=T.KDRandomCrop(size=8)),
                                                                                    XTransformWrapper(_base(), transform=T.KDRandomGrayscale(p=0.5))]), mode="x"),
        "Mode(MultiView(2 configs))": lambda: ModeWrapper(KDMultiViewWrapper(_base(), configs=[(2, T.KDRandomResizedCrop(size=8)), (1, nested())]), mode="x"),
        "Mode(Semseg(flip, crop, jitter))": lambda: ModeWrapper(SemsegTransformWrapper(_base(), transforms=[S.KDSemsegRandomHorizontalFlip(), S.KDSemsegRandomCrop(size=8),
                                                                                                         T.KDColorJitter(0.4, 0.4, 0.2, 0.1)]), mode="x semseg"),
        # a wrapper ABOVE a concat of >= 2 wrapped members: every member's wrappers must be reached, not only datasets[0]
        "Mode(XTransform(Concat(XTransform, XTransform, XTransform)))": lambda: ModeWrapper(XTransformWrapper(KDConcatDataset([
            XTransformWrapper(_base(), transform=T.KDRandomCrop(size=8)), XTransformWrapper(_base(), transform=T.KDRandomGrayscale(p=0.5)),
            XTransformWrapper(_base(collators=[mix()]), transform=nested())]), transform=T.KDColorJitter(0.4, 0.4, 0.2, 0.1)), mode="x"),
        # collators registered on the root dataset: a direct single collator and container collators that only forward set_rng
        "Mode(XTransform(root with mix collator))": lambda: ModeWrapper(XTransformWrapper(_base(collators=[mix()]), transform=T.KDRandomGrayscale(p=0.5)), mode="x class"),
        "Mode(root with compose collator)": lambda: ModeWrapper(_base(collators=[KDComposeCollator([mix(), mix()], dataset_mode="x class")]), mode="x class"),
        "Mode(Subset(root with single-collator wrapper))": lambda: ModeWrapper(KDSubset(_base(collators=[KDSingleCollatorWrapper(mix(), dataset_mode="x class")]), [0, 1, 2]), mode="x class"),
    }
    return S_


def worker(ds, seed, rank=0):
    w = copy.deepcopy(ds)           # what fork / pickling gives a worker
    np.random.seed(seed)             # torch seeds the worker's global numpy RNG with base_seed + worker_id
    w.worker_init_fn(rank, batch_size=2, updates=10)
    return w


def check(name, make):
    np.random.seed(987654321)        # the parent's global state at construction time: unrelated to any worker seed
    ds = make()
    pre = {p: state(g) for p, g in reachable_generators(ds)}
    if not pre:
        return {"what": "harness found no generator in the stack", "stack": name}
    w1, w2, w1b = worker(ds, 11), worker(ds, 12), worker(ds, 11)
    s1 = {p: state(g) for p, g in reachable_generators(w1)}
    s2 = {p: state(g) for p, g in reachable_generators(w2)}
    s1b = {p: state(g) for p, g in reachable_generators(w1b)}
    for p in pre:
        if p not in s1:
            continue
        if s1[p] == pre[p] or s2[p] == pre[p]:
            return {"what": "a reachable generator still has its pre-fork state after the worker hook (every worker would replay the same stream)",
                    "stack": name, "generator": p}
        if s1[p] == s2[p]:
            return {"what": "workers with different seeds end up with the same generator state", "stack": name, "generator": p}
        if s1[p] != s1b[p]:
            return {"what": "the same worker seed does not reproduce the generator state", "stack": name, "generator": p}
    return None


def search(limit, seed):
    n = 0
    for name, make in list(stacks().items())[:limit]:
        n += 1
        try:
            r = check(name, make)
        except Exception as ex:
            r = {"what": f"{type(ex).__name__}: {str(ex)[:140]}", "stack": name}
        if r is not None:
            r["input"] = {"stack": name, "worker seeds": [11, 12]}
            return r, n
    return None, n
