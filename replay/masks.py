"""Bounded stand-in / native replay for C17: the real mask collators on enumerated configurations; every clause of the
property statement is evaluated on the tensors they put into the context."""
import itertools
import math
import numpy as np
import torch


def _x(batch, views, seed):
    g = torch.Generator().manual_seed(seed)
    if views is None:
        return torch.rand(batch, 3, 4, 4, generator=g)
    return [torch.rand(batch, 3, 4, 4, generator=g) for _ in range(views)]


# ------------------------------------------------------------------------------------------------ DINO
def check_dino(batch, views, as_list, prob, size, ratio, seed):
    from kappadata.collators.kd_dino_mask_collator import KDDinoMaskCollator
    c = KDDinoMaskCollator(mask_ratio=ratio, mask_prob=prob, mask_size=size, num_views=views)
    c.set_rng(np.random.default_rng(seed))
    x = _x(batch, views if as_list else None, seed)
    cls = torch.arange(batch)
    b = (x, cls)
    snap = [t.clone() for t in (x if as_list else [x])]
    ctx = {}
    out = c.collate(b, dataset_mode="x class", ctx=ctx)
    if out is not b or not all(torch.equal(a, s) for a, s in zip((x if as_list else [x]), snap)) or not torch.equal(cls, torch.arange(batch)):
        return "batch data does not pass through unchanged"
    m = ctx.get("mask")
    h, w = (size, size) if isinstance(size, int) else size
    if m is None or m.dtype != torch.bool or tuple(m.shape) != (batch * views, h, w):
        return f"mask has shape {None if m is None else tuple(m.shape)} / dtype {None if m is None else m.dtype}, expected {(batch * views, h, w)} bool"
    budget = math.floor(batch * views * prob)
    nonempty = int((m.flatten(1).sum(1) > 0).sum())
    if nonempty > budget:
        return f"{nonempty} non-empty masks > budget floor({batch}*{views}*{prob}) = {budget}"
    top = max(ratio) if isinstance(ratio, tuple) else ratio
    worst = int(m.flatten(1).sum(1).max()) if len(m) else 0
    if worst > top * h * w + 1e-9:
        return f"a mask covers {worst} of {h * w} patches, above the upper ratio {top}"
    if c.collate(b, dataset_mode="x class", ctx=None) is not b:
        return "without a context the batch is not returned as is"
    return None


# ------------------------------------------------------------------------------------------------ I-JEPA
def block_size(step, scale, ar, H, W):
    """the block size the property allows: a function of the step counter and the configuration only"""
    rand = torch.rand(1, generator=torch.Generator().manual_seed(step)).item()
    return _size_from(rand, scale, ar, H, W)


def _size_from(rand, scale, ar, H, W):
    s = scale[0] + rand * (scale[1] - scale[0])
    keep = int(H * W * s)
    a = ar[0] + rand * (ar[1] - ar[0])
    h = int(round(math.sqrt(keep * a)))
    w = int(round(math.sqrt(keep / a)))
    return min(h, H - 1), min(w, W - 1)


def sizes_of_step(step, cfg, H, W):
    g = torch.Generator().manual_seed(step)
    r1 = torch.rand(1, generator=g).item()
    r2 = torch.rand(1, generator=g).item()
    return _size_from(r1, cfg["predictor_mask_scale"], cfg["predictor_aspect_ratio"], H, W), _size_from(r2, cfg["encoder_mask_scale"], (1., 1.), H, W)


def rect_of(idx, W):
    rows, cols = sorted(set((idx // W).tolist())), sorted(set((idx % W).tolist()))
    ok = rows == list(range(rows[0], rows[-1] + 1)) and cols == list(range(cols[0], cols[-1] + 1)) and len(idx) == len(rows) * len(cols)
    return ok, len(rows), len(cols)


def check_ijepa(grid, cfg, batch, seed, steps):
    from kappadata.collators.kd_ijepa_mask_collator import KDIjepaMaskCollator
    H, W = grid
    patch = 4
    mk = lambda s: KDIjepaMaskCollator(input_size=(H * patch, W * patch), patch_size=patch, **cfg).set_rng(np.random.default_rng(s))
    c, c2 = mk(seed), mk(seed + 1000)
    n_enc, n_pred, min_keep = cfg["num_enc_masks"], cfg["num_pred_masks"], cfg["min_keep"]
    for step in range(steps):
        x = _x(batch, None, seed + step)
        cls = torch.arange(batch)
        b = (x, cls)
        snap = x.clone()
        ctx, ctx2 = {}, {}
        out = c.collate(b, dataset_mode="x class", ctx=ctx)
        c2.collate(b, dataset_mode="x class", ctx=ctx2)
        if out is not b or not torch.equal(x, snap):
            return "batch data does not pass through unchanged"
        enc, pred = ctx.get("encoder_masks"), ctx.get("predictor_masks")
        if enc is None or pred is None or enc.dim() != 2 or pred.dim() != 2:
            return "masks missing or not 2-dimensional"
        if pred.shape[0] != n_pred * batch or enc.shape[0] != n_enc * batch:
            return f"{pred.shape[0]} predictor / {enc.shape[0]} encoder rows for batch {batch}, {n_pred} / {n_enc} masks per sample"
        for name, t in (("encoder", enc), ("predictor", pred)):
            if t.numel() and (int(t.min()) < 0 or int(t.max()) >= H * W):
                return f"{name} indices out of range [0, {H * W})"
            if t.shape[1] > 1 and not bool((t[:, 1:] > t[:, :-1]).all()):
                return f"{name} indices not sorted / not duplicate-free"
        (ph, pw), (eh, ew) = sizes_of_step(step, cfg, H, W)
        if ph < 1 or pw < 1 or eh < 1 or ew < 1:
            continue            # a block of zero patches: the configured scale does not give a block on this grid (outside the property's domain)
        shapes = set()
        for r in range(pred.shape[0]):
            ok, nr, ncol = rect_of(pred[r], W)
            if not ok:
                return f"predictor mask row {r} is not a rectangle of the {H}x{W} grid: {pred[r].tolist()[:8]}"
            shapes.add((nr, ncol))
        if len(shapes) > 1:
            return f"predictor masks of one batch have different sizes {sorted(shapes)}"
        if shapes and shapes != {(ph, pw)} and ph >= 1 and pw >= 1:
            return f"step {step}: predictor block size {sorted(shapes)} is not the size determined by the step counter {(ph, pw)}"
        p2 = ctx2["predictor_masks"]
        if p2.shape != pred.shape or ctx2["encoder_masks"].shape[1] > eh * ew or enc.shape[1] > eh * ew:
            return f"step {step}: block sizes differ between two collators at the same step (or exceed the encoder block)"
        # disjointness where the constraint relaxation cannot trigger
        if eh * ew - n_pred * ph * pw > min_keep:
            for s in range(batch):
                taken = set()
                for j in range(n_pred):
                    taken |= set(pred[j * batch + s].tolist())          # mask-major layout: row j * batch + sample
                for j in range(n_enc):
                    hit = taken & set(enc[j * batch + s].tolist())
                    if hit:
                        return f"step {step}: encoder mask {j} of sample {s} intersects the predictor masks of sample {s} in patches {sorted(hit)[:6]}"
            if enc.shape[1] <= min_keep:
                return f"step {step}: encoder masks keep {enc.shape[1]} <= min_keep patches"
    return None


IJ_CFGS = [
    dict(encoder_mask_scale=(0.85, 1.0), predictor_mask_scale=(0.15, 0.2), predictor_aspect_ratio=(0.75, 1.5), num_enc_masks=1, num_pred_masks=4, min_keep=10),
    dict(encoder_mask_scale=(0.85, 1.0), predictor_mask_scale=(0.05, 0.1), predictor_aspect_ratio=(0.75, 1.5), num_enc_masks=2, num_pred_masks=2, min_keep=4),
    dict(encoder_mask_scale=(0.6, 0.8), predictor_mask_scale=(0.1, 0.15), predictor_aspect_ratio=(0.5, 2.0), num_enc_masks=2, num_pred_masks=1, min_keep=1),
    dict(encoder_mask_scale=(0.9, 1.0), predictor_mask_scale=(0.02, 0.05), predictor_aspect_ratio=(1.0, 1.0), num_enc_masks=3, num_pred_masks=3, min_keep=2),
]
IJ_GRIDS = [(14, 14), (8, 14), (14, 8), (6, 6), (10, 7)]


def cases(thorough=False):
    seeds = range(4 if thorough else 2)
    for batch, views, as_list, prob, size, ratio in itertools.product((1, 2, 3, 5, 8), (1, 2, 3), (False, True), (0.0, 0.3, 0.5, 0.75, 1.0),
                                                                      ((4, 4), (6, 8), (3, 9), 14), ((0.1, 0.5), (0.3, 0.3), (0.0, 1.0))):
        if not as_list and views != 1 and batch % 2:
            pass
        for seed in seeds:
            yield ("dino", lambda a=(batch, views, as_list, prob, size, ratio, seed): check_dino(*a),
                   dict(batch=batch, views=views, x_is_list=as_list, mask_prob=prob, mask_size=size, mask_ratio=ratio, seed=seed))
    for grid, cfg, batch in itertools.product(IJ_GRIDS, IJ_CFGS, (1, 2, 3)):
        for seed in seeds:
            yield ("ijepa", lambda a=(grid, cfg, batch, seed, 4 if thorough else 3): check_ijepa(*a), dict(grid=grid, batch=batch, seed=seed, **cfg))


def search(thorough=False):
    n, per = 0, {}
    for label, thunk, desc in cases(thorough):
        n += 1
        per[label] = per.get(label, 0) + 1
        try:
            r = thunk()
        except Exception as ex:
            r = f"{type(ex).__name__}: {str(ex)[:160]}"
        if r is not None:
            return {"what": f"{label}: {r}", "input": desc}, n, per
    return None, n, per
