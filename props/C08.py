"""C08 - seeded sample wrappers make sample i a pure function of (data, config, seed, i)"""
import glob
import os
import contracts.seeded as cs
import contracts.rng as cr
from pyvc.report import run_contracts, add_direct
from pyvc import frames
from pyvc.engine import REPO
from replay import seeded as rp

LEVEL = "proof"


def wrapper_files():
    out = []
    for d in frames.WRAPPER_DIRS:
        out += sorted(os.path.relpath(p, REPO) for p in glob.glob(os.path.join(REPO, d, "**", "*.py"), recursive=True))
    return out


def run(res):
    run_contracts(res, cs.CONTRACTS, cs.CONTRACTS + cr.CONTRACTS)
    frames.undefined_names(res, wrapper_files(), "sample-wrappers")
    frames.no_inplace_on_dataset_values(res, wrapper_files())
    frames.seed_presence_by_identity(res, wrapper_files())
    r, n = rp.search(1000, 5 + res.seed, workers=True)
    add_direct(res, "bounded:seeded-wrappers", "bounded", r is None, backend="bounded", model=r,
               note="repeated / permuted requests, perturbed global RNG, second instance, in-memory tensors unchanged, DataLoader workers 0 vs 2")
    res.bounded.append({"name": "seeded-wrappers", "bound": "13 wrapper stacks (transform wrappers incl. patchwise / scheduled / random-apply, multi-view, "
                        "sample-level mix, segmentation wrapper, wrappers above and below) x 4 samples x items, 2 shuffled repetitions, "
                        "3 stacks through a real DataLoader with 0 and 2 workers", "evaluations": n, "distinct": n,
                        "rule": "distinct wrapper stacks / (stack, worker count) pairs",
                        "samples": [{"wrapper": "XTransform(patchwise noise)"}, {"wrapper": "Mix(mixup)", "workers": 2}]})
    res.notes.append("proved: the generator handed to every KD transform is default_rng(seed + idx) (key injective in idx) on every path of "
                     "TransformWrapperBase._getitem, KDMultiViewWrapper.getitem_x, SemsegTransformWrapper.getitem_xsemseg; frame: no in-place "
                     "write to dataset-owned values, all names bound; KDMixWrapper and the ready-made pipelines are covered by the bounded part")


def replay(ob):
    r, n = rp.search(1000, 5, workers=False)
    if r is None:
        return {"failed": False, "search": {"space": "seeded wrapper stacks", "tried": n, "found": False}}
    return {"failed": True, "input": r.get("input"), "what": r["what"], "search": {"tried": n, "found": True}}
