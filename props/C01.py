"""C01 - mode string decides exactly which items a sample has, and in which order"""
import contracts.mode as cm
from pyvc.report import run_contracts, add_direct
from replay import mode as rp

LEVEL = "proof"


def run(res):
    run_contracts(res, cm.CONTRACTS, cm.CONTRACTS)
    r, n = rp.search(100000, res.seed, 4 if res.tier == "thorough" else 3)
    add_direct(res, "bounded:mode-strings", "bounded", r is None, backend="bounded", model=r,
               note="real ModeWrapper over id-encoded stacks (plain, wrapped, fused x/class, wrapper above a fused wrapper), TorchWrapper")
    res.bounded.append({"name": "mode-strings", "bound": "all mode strings of <= 3 items (thorough: 4) over {x, class, other, index, ctx.k} incl. duplicates, "
                        "4 stacks, with/without ctx, dataset size 3, every k in [-3,3) in shuffled order, 5 slices, index lists, iteration",
                        "evaluations": n, "distinct": n, "rule": "distinct (stack, mode string, return_ctx) triples",
                        "samples": [{"stack": "fused", "mode": "class x index", "return_ctx": True}, {"stack": "plain", "mode": "x ctx.k"}]})
    res.notes.append("__getitem__ is proved against the table specification (owner entry per mode position); that the constructor builds a "
                     "well-formed table from the mode string and the declared fused operations, and the slice / list / iteration forms, are "
                     "covered by the bounded stand-in only")


def replay(ob):
    r, n = rp.search(100000, 1, 4)
    if r is None:
        return {"failed": False, "search": {"space": "mode strings <= 4 items", "tried": n, "found": False}}
    return {"failed": True, "input": r.get("input"), "what": r["what"], "observed": r.get("observed"), "expected": r.get("expected"),
            "search": {"tried": n, "found": True}}
