"""C04 - interleaved scheduler: main stream, batch cutting and stopping point are exact"""
import contracts.interleaved as ci
from pyvc.report import run_contracts
from props.common import drop
from replay import interleaved as rp

LEVEL = "proof"
# obligations that speak about side passes only belong to C05, checkpoint inference to C06
NOT_MINE = [r"yield[23]:assert", r"loop2:iter-end", r"loop3:", r"_eval_loop", r"__init__:(ensures|post-induction|loop1)",
            r"loop0:inv\d+:entry",
            # LINK[3] (sample_at_last_update == g_Sprev) only feeds the every_n_samples decision (C05) and resume (C06)
            r"loop[01]:inv3:"]


def run(res):
    run_contracts(res, [ci.TRAINING_LOOP, ci.ITER, ci.INIT, ci.BATCH_ITER], ci.CONTRACTS)
    drop(res, NOT_MINE)
    if res.tier == "thorough":
        bounded(res, 6000)
    else:
        bounded(res, 600)


def bounded(res, limit, check=None):
    r, n = rp.search(limit=limit, seed=res.seed, check=check or rp.check_c04)
    from pyvc.report import add_direct
    add_direct(res, "bounded:interleaved-oracle", "bounded", r is None, note="real InterleavedSampler vs executable oracle",
               backend="bounded", model=r)
    res.bounded.append({"name": "interleaved-oracle", "bound": "N<=7, B<=N, 7 config sets, 3 budgets x 3 values, resume k<=3",
                        "evaluations": n, "distinct": n, "rule": "distinct (geometry, budget, config set) cases; "
                        "each compares the whole real stream, the announced epochs and up to 9 resumed runs with the oracle",
                        "samples": [{"case": c} for c in list(rp.neighbourhood(limit=2))]})


def replay(ob, check=None):
    seed = rp.case_from_model(ob.model)
    r, n = rp.search(seed_case=seed, limit=4000, check=check or rp.check_c04)
    if r is None:
        return {"failed": False, "search": {"space": "N<=7 neighbourhood", "tried": n, "found": False}}
    return {"failed": True, "constructed": "replay.interleaved.build(case)", "input": r["case"], "what": r["what"],
            "expected": r.get("expected"), "observed": r.get("observed"), "search": {"tried": n, "found": True}}
