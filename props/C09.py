"""C09 - every dataloader worker gets its own reproducible augmentation stream"""
import contracts.workers as cw
import contracts.rng as cr
from pyvc.report import run_contracts, add_direct
from pyvc import frames
from replay import workers as rp

LEVEL = "proof"


def run(res):
    run_contracts(res, cw.CONTRACTS + cr.CONTRACTS, cw.CONTRACTS + cr.CONTRACTS)
    frames.c07_obligations(res)          # set_rng carries the worker's generator to every member at any depth
    frames.c09_wrapper_hooks(res)
    r, n = rp.search(100, res.seed)
    add_direct(res, "bounded:simulated-workers", "bounded", r is None, backend="bounded", model=r,
               note="deepcopy + np.random.seed(worker seed) + worker_init_fn: every reachable generator leaves its pre-fork state, differs "
                    "between worker seeds and is reproduced by equal seeds")
    res.bounded.append({"name": "simulated-workers", "bound": "5 dataset stacks (nested compose / random-apply / patchwise / scheduled transforms, subset, "
                        "concat, multi-view, segmentation wrapper) x worker seeds {11, 12, 11}", "evaluations": n, "distinct": n,
                        "rule": "distinct dataset stacks; every numpy Generator reachable through attributes / lists / config objects is compared",
                        "samples": [{"stack": "Mode(XTransform(nested compose))"}, {"stack": "Mode(Semseg(flip, crop, jitter))"}]})
    res.notes.append("NOT APPLICABLE CLAUSE: 'workers with different seeds never replay one another's stream, not even in part' is a statement about "
                     "the statistical quality of seeds drawn with np.random.randint (two workers can collide with probability 2**-31); no contract "
                     "can decide it. Decided here: the structural part - every stochastic component reachable from the dataset is rebound to a "
                     "generator derived from the worker's global seed, and equal seeds reproduce it")


def replay(ob):
    r, n = rp.search(100, 1)
    if r is None:
        return {"failed": False, "search": {"space": "simulated workers", "tried": n, "found": False}}
    return {"failed": True, "input": r.get("input"), "what": r["what"], "generator": r.get("generator"), "search": {"tried": n, "found": True}}
