"""C18 - collator pipeline keeps the batch layout and context contract"""
import contracts.collators as cc
from pyvc.report import run_contracts, add_direct
from replay import collators as rp

LEVEL = "proof"


def run(res):
    run_contracts(res, cc.CONTRACTS, cc.CONTRACTS)
    r, n = rp.search(10000, res.seed)
    add_direct(res, "bounded:collator-pipeline", "bounded", r is None, backend="bounded", model=r,
               note="real compose collators with recording members (all mode orders <= 3) and the padding collator on tensors")
    res.bounded.append({"name": "collator-pipeline", "bound": "all member-mode orders of length <= 3 over {None, before, after} x return_ctx x "
                        "batch sizes {1,3}, orders of length <= 2 also with members carrying a standalone configuration of their own (2 variants); "
                        "padding: 6 length profiles x ctx x extra field x ctx route (split off by the pipeline / through the collator)",
                        "evaluations": n, "distinct": n, "rule": "distinct (mode order, return_ctx, batch size, member configuration) / (length profile, ctx, extra, ctx route) tuples",
                        "samples": [{"modes": ["after", "before"], "return_ctx": True, "batch_size": 3}, {"lengths": [1, 4, 2], "return_ctx": True}]})
    res.notes.append("the padding collator (tensor code) is covered by the bounded stand-in only; default_collate's behaviour on dicts "
                     "(key set preserved) is an assumed library contract")


def replay(ob):
    r, n = rp.search(10000, 1)
    if r is None:
        return {"failed": False, "search": {"space": "mode orders <= 3, padding profiles", "tried": n, "found": False}}
    return {"failed": True, "input": r.get("input"), "what": r["what"], "search": {"tried": n, "found": True}}
