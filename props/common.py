"""helpers shared by the property modules"""
import re


def select(res, keep):
    """keep only obligations whose name matches (regex) one of `keep`; cover obligations are always kept"""
    pats = [re.compile(p) for p in keep]
    res.obligations = [o for o in res.obligations if o.kind == "cover" or any(p.search(o.name) for p in pats)]


def drop(res, patterns):
    pats = [re.compile(p) for p in patterns]
    res.obligations = [o for o in res.obligations if o.kind == "cover" or not any(p.search(o.name) for p in pats)]
