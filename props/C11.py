"""C11 - sample-level mix returns a convex combination with matching label weights"""
import glob
import os
from pyvc.report import add_direct, run_contracts
import contracts.mixwrapper as cw
from pyvc import frames
from replay import mixwrapper as rp

LEVEL = "proof"
RULE = ("runtime contract (postcondition of C11) on the real KDMixWrapper / ModeWrapper over id-encoded datasets: sizes {1,2,3,4,6}, 4 shape "
        "profiles (equal shapes and differing shapes with pad_or_cut_end), probabilities {1, 0.5, 0.2}, alphas {0.2, 1, 5}, 4 seeds "
        "(thorough: 20), every index, 4 mode orders; distinct by (configuration, seed), non-trivial when the wrapper accepts it")
FILES = ["kappadata/wrappers/sample_wrappers/kd_mix_wrapper.py", "kappadata/utils/one_hot.py"]


def run(res):
    run_contracts(res, cw.CONTRACTS, cw.CONTRACTS)
    frames.mix_wrapper_single_draw(res)
    frames.no_inplace_on_dataset_values(res, FILES)
    frames.undefined_names(res, FILES, "mix-wrapper")
    frames.seed_presence_by_identity(res, FILES)
    r, n, nt = rp.search(res.seed, thorough=(res.tier == "thorough"))
    add_direct(res, "bounded:mix-wrapper-contract", "bounded", r is None, backend="bounded", model=r,
               note="untouched sample + one-hot label, or lambda*x_i + (1-lambda)*x_j with the same j, lambda in the label; shapes unified by "
                    "pad-or-cut; labels >= 0 with sum one; seeded requests agree across the four mode orders")
    res.bounded.append({"name": "mix-wrapper-contract", "bound": RULE, "evaluations": n, "distinct": nt, "rule": RULE,
                        "samples": [{"n": 4, "shapes": [[1, 4, 6], [1, 5, 4]], "p": 0.5, "alpha": 1.0, "seed": 2}]})
    res.notes.append("deciding part is bounded (tensor algebra of the real wrapper); frame obligations: the three accessors share one draw keyed "
                     "by seed + idx, no in-place write into dataset-owned tensors, all names bound. Sample-level cutmix raises "
                     "NotImplementedError in the code: an explicit rejection, not a violation")


def replay(ob):
    r, n, _ = rp.search(1, thorough=True)
    if r is None:
        return {"failed": False, "search": {"space": "mix wrapper configurations", "tried": n, "found": False}}
    return {"failed": True, "input": r.get("input"), "what": r["what"], "search": {"tried": n, "found": True}}
