"""C20 - global-to-local copy is crash-safe and idempotent"""
import contracts.copying as cc
from pyvc.report import add_direct, Obligation
from pyvc.engine import Engine
from pyvc.state import Unsupported, SpecError
from pyvc import crashfs
from replay import copying as rp
import z3

LEVEL = "other"
EXPLANATION = ("crash Hoare logic over an abstract file system: the crash invariant CI is the precondition of both copy functions and "
               "one SMT obligation per crash-exposed state of every file-system operation of the real bodies demands CI again; "
               "post-conditions (complete copy or untouched user folder, idempotence, truthful result) are ensures. Three crash "
               "windows per function genuinely violate CI on the current tree and are listed as known findings (not repaired: the "
               "repair changes the on-disk marker protocol); everything else is discharged. A fault-injection stand-in kills the real "
               "functions at every operation (1 and 2 successive crashes, 3 formats) and compares directory trees.")


def run(res):
    eng = Engine()
    crashfs.install(eng)
    for c in cc.CONTRACTS:
        eng.contracts[c["target"]] = c
    for c in cc.CONTRACTS:
        n0 = len(eng.obligations)
        try:
            eng.verify(c)
        except (Unsupported, SpecError, KeyError, AttributeError, TypeError) as ex:
            del eng.obligations[n0:]
            ob = Obligation(f"{c['target']}:supported", "vc", [], z3.BoolVal(False), c["target"], str(ex), func=c["target"])
            ob.verdict, ob.backend, ob.detail = "undecided", "engine", f"{type(ex).__name__}: {ex}"
            eng.obligations.append(ob)
    eng2 = Engine()
    crashfs.install_unzip(eng2)
    for c in cc.UNZIP_CONTRACTS:
        eng2.contracts[c["target"]] = c
        n0 = len(eng2.obligations)
        try:
            eng2.verify(c)
        except (Unsupported, SpecError, KeyError, AttributeError, TypeError) as ex:
            del eng2.obligations[n0:]
            ob = Obligation(f"{c['target']}:supported", "vc", [], z3.BoolVal(False), c["target"], str(ex), func=c["target"])
            ob.verdict, ob.backend, ob.detail = "undecided", "engine", f"{type(ex).__name__}: {ex}"
            eng2.obligations.append(ob)
    res.obligations.extend(eng.obligations + eng2.obligations)
    res.functions.extend(eng.functions_under_contract + eng2.functions_under_contract)
    res.trusted |= eng.used_trusted | eng2.used_trusted
    res.trusted |= {"fs-model: Path.mkdir and open(marker,'w') are atomic; shutil.rmtree may expose any subset of removed entries "
                    "(directory last); copytree/extractall/unzip jobs may expose any prefix of the payload and are complete on normal return"}
    fails, n = rp.search(two_crashes=True, thorough=(res.tier == "thorough"))
    labels = {}
    for f in fails:
        labels.setdefault(f["label"], f)
    for lab, f in labels.items():
        add_direct(res, f"bounded:crash-injection:{lab}", "bounded", False, backend="bounded", model=f,
                   note="real function killed at this window, then called again: " + f["what"], detail=lab)
    add_direct(res, "bounded:crash-injection:every-other-window", "bounded", True, backend="bounded",
               note="all injected crash schedules outside the windows reported above end in a complete copy / untouched user folder")
    res.bounded.append({"name": "crash-injection", "bound": "crash at file-system operation 1..5 of an invocation in 4 phases (after, during, "
                        "rmtree with the start marker removed first / a payload file first), 1 and 2 successive killed invocations, "
                        "2 functions x 3 source formats x with/without relative_path, plus user-provided folders",
                        "evaluations": n, "distinct": n, "rule": "distinct (function, format, relative_path, crash plan) scenarios; "
                        "each ends with a clean call whose directory tree is hashed against the source",
                        "samples": [{"function": "folder", "format": "zip", "plan": [[2, "during"], [1, "during-start-first"]]}]})
    res.notes.append(EXPLANATION)
    res.notes.append("byte-identity of the payload relies on the library contracts of copytree/extractall (complete on normal return) and "
                     "is confirmed by tree hashes in the fault-injection stand-in")


def replay(ob):
    if ob.kind == "bounded":
        return {"failed": True, "input": ob.model}
    fails, n = rp.search(two_crashes=True)
    want = "rmtree" if "rmtree" in ob.name else ("mkdir" if "mkdir" in ob.name else None)
    for f in fails:
        if want is None or want in (f.get("site") or ""):
            return {"failed": True, "input": {k: f[k] for k in ("function", "format", "relative_path", "plan")}, "what": f["what"],
                    "site": f.get("site"), "search": {"tried": n, "found": True}}
    return {"failed": False, "search": {"space": "crash injection", "tried": n, "found": False}}
