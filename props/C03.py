"""C03 - each dataset-manipulation wrapper selects exactly the promised samples"""
import contracts.subsets as cs
from pyvc.report import run_contracts, add_direct
from pyvc import frames
from replay import subsets as rp

LEVEL = "proof"


def run(res):
    run_contracts(res, cs.CONTRACTS + cs.TERMINATION, cs.CONTRACTS + cs.TERMINATION)
    frames.subset_constructible(res)
    import glob, os
    from pyvc.engine import REPO
    frames.seed_presence_by_identity(res, sorted(os.path.relpath(p_, REPO) for p_ in
                                                 glob.glob(os.path.join(REPO, "kappadata/wrappers/dataset_wrappers", "**", "*.py"), recursive=True)))
    r, n = rp.search(100, res.seed)
    add_direct(res, "bounded:dataset-wrappers", "bounded", r is None, backend="bounded", model=r,
               note="the ten real wrappers over small class layouts; selection recomputed from the documentation promises")
    res.bounded.append({"name": "dataset-wrappers", "bound": "7 class layouts (1-7 samples, up to 5 classes, absent / single-sample / unlabeled classes) "
                        "x 2 seeds; percents {0, 1, 1/3, 0.29, 0.5, 0.75} with and without ceiling, all index bounds 0..n+1, repetitions "
                        "{1,3}, min_size {1, n, n+1, 2n+1}, shots {1,2,5}; constructors run in a child process with a 20 s limit (termination)",
                        "evaluations": n, "distinct": n, "rule": "distinct (layout, seed) pairs, each running ~120 wrapper constructions",
                        "samples": [{"labels": [0, 0, 2], "classes": 3, "wrapper": "Oversampling(exact)"}, {"labels": [1, 0, 1, 2, 2, 0, 1], "percent": 0.29}]})
    res.notes.append("proved: PercentFilterWrapper, SubsetWrapper (index and percent ranges), RepeatWrapper, ShuffleWrapper, ClassFilterWrapper constructors "
                     "against their promised index sequence, SortByClassWrapper (valid labelled samples in strict (class, position) order = stable "
                     "sort without duplicates; that no labelled sample is lost is bounded only - the forall-exists obligation flipped between "
                     "proved and unknown with the solver seed and is not registered), FewshotWrapper (valid labelled samples in non-decreasing class order, none twice - the amount per "
                     "class stays bounded), OversamplingWrapper(multiply) keeps every sample as a prefix and appends only valid labelled samples, "
                     "termination of OversamplingWrapper(exact); bounded only: "
                     "intra-class shuffle, few-shot amounts, class-wise subset, oversampling balance (multiset statements over numpy/torch code). "
                     "int(p * n) is evaluated on reals (float rounding of the percent product is not modelled). Label domain: classes in "
                     "[0, C); -1 (unlabeled) only for OversamplingWrapper(multiply) and the range wrappers")


def replay(ob):
    r, n = rp.search(100, 1)
    if r is None:
        return {"failed": False, "search": {"space": "layouts x wrappers", "tried": n, "found": False}}
    return {"failed": True, "input": r.get("input"), "what": r["what"], "wrapper": r.get("wrapper"), "kwargs": r.get("kwargs"),
            "expected": r.get("expected"), "observed": r.get("observed"), "search": {"tried": n, "found": True}}
