"""C15 - strength scaling interpolates from identity to the configured augmentation"""
import contracts.scaling as cs
from pyvc.report import run_contracts, add_direct
from pyvc import frames
from replay import scaling as rp

LEVEL = "proof"


def bounded(res):
    r, n = rp.search(10000, res.seed)
    add_direct(res, "bounded:scaling-zoo", "bounded", r is None, backend="bounded", model=r,
               note="real transforms: factor sequences, compositions, simulated workers of the scheduled transform")
    res.bounded.append({"name": "scaling-zoo", "bound": "38 constructed transforms x 10 factor sequences (7 fixed + 3 seeded random); "
                        "scheduled transform: workers 1..3 x batch sizes {1,2,4} x 3 budget kinds, 7 global batches",
                        "evaluations": n, "distinct": n,
                        "rule": "distinct (transform constructor, factor sequence) pairs / (W, B, budget kind) triples",
                        "samples": [{"transform": z[0], "sequence": [0.2, 0.9, 0.4]} for z in rp.zoo()[:2]]})


def run(res):
    run_contracts(res, cs.CONTRACTS, cs.CONTRACTS)
    frames.all_scale_strength_under_contract(res, cs.CONTRACTS)
    bounded(res)
    res.notes.append("float treated as real: inf/nan magnitudes (magnitude_std=inf only selects the uniform sampler) are outside the model; "
                     "the scheduled transform's round-robin assignment of batch b to worker b mod W is the DataLoader contract (assumed)")


def replay(ob):
    r, n = rp.search(10000, 1)
    if r is None:
        return {"failed": False, "search": {"space": "scaling zoo", "tried": n, "found": False}}
    return {"failed": True, "input": {k: v for k, v in r.items() if k != "what"}, "what": r["what"], "search": {"tried": n, "found": True}}
