"""C17 - mask collators emit well-formed, budget-respecting, non-overlapping masks"""
import contracts.masks as cm
from pyvc.report import run_contracts, add_direct
from pyvc import frames
from replay import masks as rp

LEVEL = "proof"
RULE = ("distinct (collator, configuration, seed) tuples from a fixed grid: DINO: 5 batch sizes x 3 view counts x tensor / list-of-views x 5 mask "
        "probabilities x 4 grid sizes x 3 ratio ranges; I-JEPA: 5 grids (square and non-square) x 4 scale / count / min_keep configurations x 3 batch "
        "sizes, 3 consecutive steps each (thorough: 4), two collators with different generators per case; 2 seeds (thorough: 4)")


def run(res):
    run_contracts(res, cm.CONTRACTS, cm.CONTRACTS)
    frames.ijepa_sizes_keyed_by_step(res)
    r, n, per = rp.search(thorough=(res.tier == "thorough"))
    add_direct(res, "bounded:mask-collators", "bounded", r is None, backend="bounded", model=r,
               note="real collators: shapes and dtypes, non-empty budget, upper ratio, index range / order / uniqueness, rectangles of one size per batch, "
                    "sizes equal to the step-determined sizes and equal across collators with different generators, encoder / predictor disjointness per "
                    "sample (mask-major layout) where relaxation cannot trigger, batch passes through")
    res.bounded.append({"name": "mask-collators", "bound": RULE, "evaluations": n, "distinct": n, "rule": RULE, "per_check": per,
                        "samples": [{"collator": "dino", "batch": 3, "views": 2, "mask_prob": 0.75, "mask_size": [6, 8], "mask_ratio": [0.1, 0.5], "seed": 1},
                                    {"collator": "ijepa", "grid": [8, 14], "batch": 2, "num_enc_masks": 2, "num_pred_masks": 2, "min_keep": 4, "seed": 0}]})
    res.notes.append("proved over abstract 0/1 grids (cell and box-count functions with write axioms, pyvc/libmask.py): DINO _mask_block switches on at most the "
                     "remaining budget, exactly `result` cells, inside the grid; _generate_mask never exceeds its total and terminates; collate touches only the "
                     "first floor(B*V*p) masks, every mask's count is at most ratio_max * patches, B*V masks of the configured size, batch returned as is. "
                     "I-JEPA: block sizes within [0, grid-1]; _sample_block_mask returns the sorted duplicate-free in-range indices of a rectangle of the "
                     "requested size and its exact complement; _sample_block_mask_constrained returns sorted in-range indices lying in every acceptable "
                     "region, more than min_keep of them, without modifying the regions, whenever block area - #regions * P > min_keep. "
                     "Bounded only: I-JEPA collate (list plumbing, truncation, default_collate layout), the cardinality of the non-empty set after the shuffle, "
                     "the step counter (multiprocessing.Value), 0-d tensor shapes")


def replay(ob):
    r, n, _ = rp.search(thorough=True)
    if r is None:
        return {"failed": False, "search": {"space": "mask collator configurations", "tried": n, "found": False}}
    return {"failed": True, "input": r["input"], "what": r["what"], "search": {"tried": n, "found": True}}
