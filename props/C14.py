"""C14 - geometric transforms stay in bounds and their recorded parameters tell the truth"""
import re
import contracts.geometry as cg
from pyvc.report import run_contracts, add_direct
from pyvc import frames
from replay import geometry as rp

LEVEL = "proof"
RULE = ("distinct (transform, configuration, input size, input kind, seed) tuples from a fixed grid: 13 input sizes (1x1 ... 64x64, "
        "non-square, one pixel below / at / above the target), tensor and PIL inputs, 2 seeds (thorough: 6)")


def run(res):
    run_contracts(res, cg.CONTRACTS, cg.REGISTRY)
    frames.patchify_patterns_mirror(res)
    frames.ctx_entries_not_aliases(res)
    r, n, per = rp.search(thorough=(res.tier == "thorough"))
    add_direct(res, "bounded:geometry-image-level", "bounded", r is None, backend="bounded", model=r,
               note="real transforms on id-coded tensor / PIL inputs: output size, recorded box inside the (padded) input, functional op driven by ctx "
                    "reproduces the output, erase / mask regions, image-mask alignment per transform and through a wrapper pipeline, "
                    "patchify / shuffle / norm round trips")
    res.bounded.append({"name": "geometry-image-level", "bound": RULE, "evaluations": n, "distinct": n, "rule": RULE, "per_check": per,
                        "samples": [{"check": "random_crop", "h": 7, "w": 8, "size": 8, "padding": None, "pad_if_needed": False, "seed": 0, "kind": "pil"},
                                    {"check": "semseg_pipeline", "h": 33, "w": 17, "seed": 1}]})
    res.notes.append("proved (abstract image = width, height, channels, per-channel affine value map; torchvision functional ops as assumed contracts): "
                     "boxes of KDRandomCrop / KDTwoRandomCrop / KDRandomResizedCrop / KDSemsegRandomCrop.get_params inside the image they were computed for, "
                     "requested output size, ctx entries == arguments of the applied crop, erase region inside the tensor, identical recorded arguments "
                     "for image and mask in every semseg transform, padding amounts, multi-crop windows inside the image, "
                     "normalise / denormalise compose to the identity affine map on reals. "
                     "Domain assumption: the aspect-ratio range of KDRandomResizedCrop is positive and contains 1. "
                     "Bounded only: pixel content (erase / mask values, spec-augment band widths), PIL inputs, interpolation, tiling coverage of the "
                     "multi-crop, patch shuffles, float round-off of the norm round trip, KDSimpleRandomCrop (torchvision Resize module inside)")


def replay(ob):
    """native replay: the sizes named by the refuted obligation's model are tried first on the real transforms"""
    hints = []
    m = getattr(ob, "model", None) or {}
    if isinstance(m, dict):
        hs = [int(v) for k, v in m.items() if re.search(r"\$h$", k) and re.fullmatch(r"-?\d+", str(v))]
        ws = [int(v) for k, v in m.items() if re.search(r"\$w$", k) and re.fullmatch(r"-?\d+", str(v))]
        for h in hs[:2]:
            for w in ws[:2]:
                if 1 <= h <= 256 and 1 <= w <= 256:
                    hints.append((h, w))
    r, n, _ = rp.search(thorough=True, hints=hints)
    if r is None:
        return {"failed": False, "search": {"space": "geometry grid + sizes from the solver model", "hints": hints, "tried": n, "found": False}}
    return {"failed": True, "input": r["input"], "what": r["what"], "search": {"tried": n, "found": True, "hints": hints}}
