"""C02 - stacked subsets, concats and wrappers address the right underlying sample"""
import contracts.datasets as cd
from pyvc.report import run_contracts, add_direct
from pyvc import frames
from replay import datasets as rp

LEVEL = "proof"


def bounded(res, limit):
    r, n, distinct = rp.search(limit, res.seed)
    add_direct(res, "bounded:nested-stacks", "bounded", r is None, backend="bounded", model=r,
               note="random nestings of real KDSubset/KDConcatDataset/KDWrapper layers vs independently composed index map")
    res.bounded.append({"name": "nested-stacks", "bound": "depth<=4, parts<=3, root sizes<=5, index lists<=6 entries in [-6,6]; "
                        "balanced sampling over 5 part-size profiles, 40 indices each",
                        "evaluations": n, "distinct": distinct,
                        "rule": "distinct nesting specs (repr); each checks len, every k in [-len,len), getall_x/getall_class, "
                                "root/wrapper introspection, shape delegation, dispose",
                        "samples": [{"spec": repr(rp.random_spec(__import__('random').Random(i), 3, [0]))} for i in range(2)]})
    return r


def run(res):
    run_contracts(res, cd.CONTRACTS, cd.CONTRACTS)
    frames.subset_constructible(res)
    bounded(res, 6000 if res.tier == "thorough" else 800)
    res.notes.append("every layer is verified against the abstract contract of the layer below (AbsKDDataset) - structural "
                     "induction over nestings; accessor-name dispatch (__getattr__) is verified for one representative name per "
                     "prefix class (getitem_*, getall_*, other), the dispatch being on the prefix only")


def replay(ob):
    if ob.name.endswith(":constructible"):
        try:
            from kappadata.datasets.kd_subset import KDSubset
            KDSubset(range(3), [0])
            return {"failed": False}
        except Exception as ex:
            return {"failed": True, "constructed": "KDSubset(range(3), [0])", "observed": f"{type(ex).__name__}: {str(ex)[:120]}",
                    "expected": "a subset of length 1"}
    r, n, _ = rp.search(6000, 1)
    if r is None:
        return {"failed": False, "search": {"space": "nested stacks depth<=4", "tried": n, "found": False}}
    return {"failed": True, "input": r.get("input"), "what": r["what"], "expected": r.get("expected"), "observed": r.get("observed"),
            "search": {"tried": n, "found": True}}
