"""C10 - batch mixup/cutmix mixes image and label with the same partner and weight"""
import contracts.mix as cm
from pyvc.report import run_contracts, add_direct
from pyvc import frames
from replay import mixcollator as rp

LEVEL = "proof"
RULE = ("runtime contract (postcondition of C10) on the real KDMixCollator.collate over id-encoded batches: batch sizes {1,2,3,4,6}, 2 image "
        "shapes (thorough: 3), 4 mixup/cutmix splits, apply x lambda x shuffle modes, 6 seeds (thorough: 20); a case is distinct by its "
        "(configuration, seed) and non-trivial when the collator accepts it")


def run(res):
    run_contracts(res, cm.CONTRACTS, cm.CONTRACTS)
    frames.per_sample_indices_agree(res)
    r, n, nt = rp.search(res.seed, thorough=(res.tier == "thorough"))
    add_direct(res, "bounded:mix-collator-contract", "bounded", r is None, backend="bounded", model=r,
               note="label_i == w_i*y_i + (1-w_i)*y_p(i); image mixed with the same p(i), w_i (mixup) or one pasted box with retained fraction w_i "
                    "(cutmix); ctx lambda is the weight used; rows sum to one; index item untouched; p follows the shuffle mode")
    res.bounded.append({"name": "mix-collator-contract", "bound": RULE, "evaluations": n, "distinct": nt, "rule": RULE,
                        "samples": [{"n": 4, "shape": [3, 6, 5], "mixup_p": 0.5, "cutmix_p": 0.5, "lamb_mode": "sample", "shuffle_mode": "random", "seed": 3}]})
    res.notes.append("proved over batch tensors with opaque rows (pyvc/libtensor.py): collate in both lambda modes mixes image and label of sample i with the "
                     "same partner and weight (all shuffle modes, batch of one included; in-place operations and aliasing modelled by a version map), "
                     "cutmix pastes one box of the partner, get_random_bbox returns boxes inside the image and the weight 1 - area / (h*w), "
                     "shuffle's partner sequence per mode, the constructor's probability split; frame: one index for operation / box / weight. "
                     "Bounded only: binary labels, numeric consequences, pixel-level content, ModeWrapper plumbing")


def replay(ob):
    r, n, _ = rp.search(1, thorough=True)
    if r is None:
        return {"failed": False, "search": {"space": "mix collator configurations", "tried": n, "found": False}}
    return {"failed": True, "input": r.get("input"), "what": r["what"], "search": {"tried": n, "found": True}}
