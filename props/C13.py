"""C13 - balanced, semi-supervised and weighted samplers compose epochs as promised"""
import random
import contracts.samplers as cs
from pyvc.report import run_contracts
from props.common import select
from props import C12
from replay import samplers as rp

LEVEL = "proof"
MINE = [r"SemiSampler", r"WeightedSampler", r"ClassBalancedSampler", r":supported$"]


def run(res):
    run_contracts(res, [cs.SEMI_INIT, cs.SEMI_EL, cs.SEMI_LEN, cs.WEIGHTED_EL, cs.WEIGHTED_LEN, cs.WEIGHTED_ITER, cs.CB_EL, cs.CB_LEN, cs.CB_ITER],
                  cs.CONTRACTS)
    select(res, MINE)
    C12.bounded(res, rp.cases_c13(100000 if res.tier == "thorough" else 800, random.Random(res.seed)), "c13-samplers")
    res.notes.append("proved: SemiSampler.__init__ partitions the dataset into the labeled / unlabeled pools by the -1 marker (increasing, "
                     "sound, complete), the length formulas, the weighted and class-balanced streams; bounded only (not proved): evenness of class reuse, pool exhaustion before repeats and the labeled/unlabeled "
                     "alternation of SemiSampler.__iter__ (nested generator consumed through next(), outside the verified subset)")


def replay(ob):
    r, n = rp.run_cases(rp.cases_c13(100000, random.Random(1)))
    if r is None:
        return {"failed": False, "search": {"space": "c13 bounded space", "tried": n, "found": False}}
    return {"failed": True, "input": r.get("input"), "kind": r.get("kind"), "what": r["what"], "search": {"tried": n, "found": True}}
