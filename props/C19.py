"""C19 - in-memory cache is transparent for every access history"""
import contracts.caching as cc
from pyvc.report import run_contracts, add_direct
from replay import caching as rp

LEVEL = "proof"


def run(res):
    run_contracts(res, cc.CONTRACTS, cc.CONTRACTS)
    r, n = rp.search(200 if res.tier == "thorough" else 40, res.seed)
    add_direct(res, "bounded:cache-histories", "bounded", r is None, backend="bounded", model=r,
               note="real SharedDictDataset with a Manager: sequential histories with clears, hostile clear schedule, reader processes")
    res.bounded.append({"name": "cache-histories", "bound": "datasets of 1 and 3 samples, histories of <= 8 accesses/clears, tuple and float payloads, "
                        "with/without transform; 3 hostile schedules; 1-3 real reader processes",
                        "evaluations": n, "distinct": n, "rule": "distinct seeded histories / schedules / reader counts",
                        "samples": [{"n": 3, "history": [1, 0, "clear", 1]}, {"hostile": [0, 0]}]})
    res.notes.append("rely/guarantee: each operation of the manager dict is atomic (assumed); between operations other processes may add "
                     "correct entries (mode 1) and clear (mode 2); the map invariant is an obligation at every interference point; "
                     "deterministic base dataset and ==-comparable picklable payloads are assumed")


def replay(ob):
    r, n = rp.search(200, 1)
    if r is None:
        return {"failed": False, "search": {"space": "cache histories", "tried": n, "found": False}}
    return {"failed": True, "input": r.get("input"), "what": r["what"], "search": {"tried": n, "found": True}}
