"""C05 - interleaved scheduler: side passes run exactly when due, whole, and unmixed"""
import contracts.interleaved as ci
from pyvc.report import run_contracts
from props.common import select
from props import C04
from replay import interleaved as rp

LEVEL = "proof"
MINE = [r"yield[23]:assert", r"loop2:", r"loop3:", r"_eval_loop", r"__iter__", r"__init__:(ensures(6|7|8|2\d)|post-induction|loop1|loop0)",
        r"_InterleavedConcatDataset", r"_InterleavedCollator", r"lemma", r"loop1:inv(2[0-9]|19)", r":supported$"]


def run(res):
    run_contracts(res, [ci.TRAINING_LOOP, ci.EVAL_LOOP, ci.ITER, ci.INIT, ci.GETITEM, ci.COLLATOR], ci.CONTRACTS)
    select(res, MINE)
    C04.bounded(res, 6000 if res.tier == "thorough" else 600, rp.check_c05)


def replay(ob):
    return C04.replay(ob, rp.check_c05)
