"""C12 - rank-aware samplers split one global epoch draw evenly and reproducibly"""
import random
import contracts.samplers as cs
from pyvc.report import run_contracts, add_direct
from props.common import drop
from replay import samplers as rp

LEVEL = "proof"
NOT_MINE = [r"SemiSampler", r"WeightedSampler.__iter__:yield0:assert[34]", r"ClassBalancedSampler.__iter__:loop"]


def bounded(res, cases, name):
    r, n = rp.run_cases(cases)
    add_direct(res, f"bounded:{name}", "bounded", r is None, note="statement evaluated on the real samplers",
               backend="bounded", model=r)
    res.bounded.append({"name": name, "bound": "n<=7, world sizes<=4, num_repeats<=3, 2 seeds x 2 epochs; 5 class layouts x samples_per_class in {None,1,3,5,7,13} (the heavy oversampling values 7 / 13 with 4 seeds)",
                        "evaluations": n, "distinct": n,
                        "rule": "distinct (sampler kind, size, world size, repeats, drop_last, seed, epoch) tuples; all ranks of each are run "
                                "and interleaved back into the global draw recomputed from the statement",
                        "samples": [{"kind": k, "input": kw} for k, kw in cases[:2]]})
    return r


def run(res):
    run_contracts(res, [cs.DIST_ITER, cs.RAND_ITER, cs.WEIGHTED_EL, cs.WEIGHTED_LEN, cs.WEIGHTED_ITER, cs.CB_EL, cs.CB_LEN,
                        cs.CB_ITER], cs.CONTRACTS)
    drop(res, NOT_MINE)
    from pyvc import frames
    frames.rank_only_in_slice(res, "kappadata/samplers/class_balanced_sampler.py", "ClassBalancedSampler", "__iter__",
                              ["rank", "world_size"])
    frames.rank_only_in_slice(res, "kappadata/samplers/weighted_sampler.py", "WeightedSampler", "__iter__", ["rank", "world_size"])
    frames.no_process_dependent_sources(res, ["kappadata/samplers"], "samplers")
    frames.process_group_queries_not_memoised(res)
    bounded(res, rp.cases_c12(100000 if res.tier == "thorough" else 500, random.Random(res.seed)), "c12-samplers")
    res.notes.append("not claimed: that two different (seed, epoch) keys give two different permutations (a fact about torch's RNG); "
                     "decided instead: the generator key is seed + epoch, injective in epoch")


def replay(ob):
    r, n = rp.run_cases(rp.cases_c12(100000, random.Random(1)))
    if r is None:
        return {"failed": False, "search": {"space": "c12 bounded space", "tried": n, "found": False}}
    return {"failed": True, "input": r.get("input"), "kind": r.get("kind"), "what": r["what"], "observed": r.get("observed"),
            "expected": r.get("expected"), "search": {"tried": n, "found": True}}
