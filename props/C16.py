"""C16 - label-rewriting wrappers are coherent, in range and reproducible"""
import contracts.labels as cl
from pyvc.report import run_contracts, add_direct
from pyvc import frames
from replay import labels as rp

LEVEL = "proof"
W = "kappadata/wrappers"
INT_LABEL_WRAPPERS = [
    (f"{W}/dataset_wrappers/class_groups_wrapper.py", "ClassGroupsWrapper"),
    (f"{W}/dataset_wrappers/random_superclass_wrapper.py", "RandomSuperclassWrapper"),
    (f"{W}/dataset_wrappers/swap_label_wrapper.py", "SwapLabelWrapper"),
    (f"{W}/dataset_wrappers/overwrite_classes_wrapper.py", "OverwriteClassesWrapper"),
    (f"{W}/dataset_wrappers/allgather_class_wrapper.py", "AllgatherClassWrapper"),
    (f"{W}/dataset_wrappers/kd_pseudo_label_wrapper.py", "KDPseudoLabelWrapper"),
    (f"{W}/sample_wrappers/kd_random_class_wrapper.py", "KDRandomClassWrapper"),
    (f"{W}/sample_wrappers/semi_wrapper.py", "SemiWrapper"),
]


def run(res):
    run_contracts(res, cl.CONTRACTS, cl.CONTRACTS)
    frames.bulk_accessor_defined_with_per_sample(res, INT_LABEL_WRAPPERS)
    import glob, os
    from pyvc.engine import REPO
    files = sorted(os.path.relpath(p_, REPO) for d in ("kappadata/wrappers/dataset_wrappers", "kappadata/wrappers/sample_wrappers")
                   for p_ in glob.glob(os.path.join(REPO, d, "**", "*.py"), recursive=True))
    frames.seed_presence_by_identity(res, files)
    r, n = rp.search(10000, res.seed)
    add_direct(res, "bounded:label-wrappers", "bounded", r is None, backend="bounded", model=r,
               note="real wrappers over small label lists: bulk == per-sample, range, inner labels untouched, x untouched, reproducible")
    res.bounded.append({"name": "label-wrappers", "bound": "5 label layouts (2-6 classes, incl. -1 labels), 2 seeds, every constructor variant of 8 "
                        "int-label wrappers (group sizes, splits, swap probabilities, pseudo-label tables hard/logits/thresholded, world sizes <= n) "
                        "and the one-hot / smoothing encodings", "evaluations": n, "distinct": n,
                        "rule": "distinct (layout, seed, wrapper constructor) triples",
                        "samples": [{"labels": [1, 0, 1, 2, 2, 0], "wrapper": "Allgather(W=3)"}, {"labels": [0, -1, 1, -1, 1], "wrapper": "Semi(0.4)"}]})
    res.notes.append("constructors (numpy/torch table building), KDPseudoLabelWrapper (tensor code) and the one-hot encoding are covered by "
                     "the bounded stand-in only; the per-sample / bulk accessors of the other wrappers are proved against the table fields")


def replay(ob):
    if "bulk-accessor-overridden" in ob.name:
        return {"failed": True, "input": ob.model, "what": ob.detail}
    r, n = rp.search(10000, 1)
    if r is None:
        return {"failed": False, "search": {"space": "label layouts x wrappers", "tried": n, "found": False}}
    return {"failed": True, "input": r.get("input"), "what": r["what"], "search": {"tried": n, "found": True}}
