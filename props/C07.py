"""C07 - an injected seed fully determines an augmentation, and nothing else does"""
import glob
import os
import contracts.rng as cr
from pyvc.report import run_contracts, add_direct
from pyvc import frames
from pyvc.engine import REPO
from replay import transforms as rp

LEVEL = "proof"


def transform_files():
    out = []
    for d in frames.TRANSFORM_DIRS:
        if d.endswith(".py"):
            out.append(d)
        else:
            out += sorted(os.path.relpath(p, REPO) for p in glob.glob(os.path.join(REPO, d, "**", "*.py"), recursive=True))
    return out + ["kappadata/utils/random.py"]


def set_rng_overrides_under_contract(res, contracts):
    """every set_rng definition of the transform packages has a contract (a new composite transform without one -> undecided)"""
    import ast
    have = {c["target"] for c in contracts}
    missing = []
    for rel in transform_files():
        tree = ast.parse(open(os.path.join(REPO, rel)).read())
        for cd in [n for n in tree.body if isinstance(n, ast.ClassDef)]:
            for fn in cd.body:
                if isinstance(fn, ast.FunctionDef) and fn.name == "set_rng" and not (len(fn.body) == 1 and isinstance(fn.body[0], ast.Pass)):
                    if f"{rel}::{cd.name}.set_rng" not in have:
                        missing.append(f"{rel}::{cd.name}.set_rng")
    add_direct(res, "frame:every-set_rng-override-under-contract", "frame", not missing, undecided=bool(missing),
               note="every set_rng override of the transform packages is verified against its forwarding contract", detail="; ".join(missing))


def run(res):
    run_contracts(res, cr.CONTRACTS, cr.CONTRACTS)
    frames.c07_obligations(res)
    set_rng_overrides_under_contract(res, cr.CONTRACTS)
    frames.undefined_names(res, transform_files(), "transforms")
    r, n = rp.search(1000, res.seed)
    add_direct(res, "bounded:differential-zoo", "bounded", r is None, backend="bounded", model=r,
               note="two separately constructed instances with equal injected seeds agree; re-injection replays; global RNG state neither read nor consumed")
    res.bounded.append({"name": "differential-zoo", "bound": "34 transforms / compositions (compose, random-apply, patchwise, scheduled, nested) x 2 seeds x 3 "
                        "calls each, tensor / PIL / spectrogram / patch inputs, 3 perturbations of the numpy / torch / python global RNG",
                        "evaluations": n, "distinct": n, "rule": "distinct (transform constructor, seed) pairs",
                        "samples": [{"transform": "Compose(Compose(noise), RandomApply(noise))", "seed": 0}, {"transform": "Scheduled(noise)", "seed": 1}]})
    res.notes.append("determinism is decided through frame conditions: the only random source a transform method reads is self.rng (no call of a "
                     "process-global source outside constructors / worker hooks), set_rng rebinds it and forwards to every member that can draw; "
                     "torchvision / PIL kernels are assumed deterministic and RNG-free")


def replay(ob):
    r, n = rp.search(1000, 1)
    if r is None:
        return {"failed": False, "search": {"space": "differential zoo", "tried": n, "found": False}}
    return {"failed": True, "input": r.get("input"), "what": r["what"], "search": {"tried": n, "found": True}}
