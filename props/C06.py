"""C06 - resuming the interleaved scheduler yields the suffix of the uninterrupted run"""
import contracts.interleaved as ci
from pyvc.report import run_contracts
from props.common import select
from props import C04
from replay import interleaved as rp

LEVEL = "proof"
# (1) the constructor stores a checkpoint sigma(k) on an epoch boundary computed with the loop's own geometry,
# (2) the training loop started from sigma(k) satisfies its loop-head invariant (entry obligations), which is the
#     state the uninterrupted run is in at that boundary (loop0 invariant preserved),
# (3) equal states give equal continuations (the engine's post-state is a term in the pre-state).
# The preservation of the loop-head invariant by the uninterrupted run (i.e. that it really is in sigma(k) at every epoch
# boundary) is C04/C05's obligation set and is reported there, not here: C06's own obligations are the constructor
# postcondition and the entry obligations of the loop started from the stored checkpoint.
MINE = [r"__init__:(ensures|lemma|noraise)", r"loop0:inv\d+:entry", r"__iter__", r"_training_loop:lemma",
        r":supported$"]


def run(res):
    run_contracts(res, [ci.TRAINING_LOOP, ci.ITER, ci.INIT], ci.CONTRACTS)
    select(res, MINE)
    C04.bounded(res, 6000 if res.tier == "thorough" else 600, rp.check_c06)


def replay(ob):
    return C04.replay(ob, rp.check_c06)
