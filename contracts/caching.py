"""Sidecar contracts for the in-memory cache (C19). Map invariant: every cached entry equals the wrapped dataset's sample.
Concurrency by rely/guarantee: the shared dict's operations are atomic, other processes interfere between them."""
from pyvc.values import *  # noqa
from pyvc.absobj import SHAREDMAP, DATASET_NULLABLE as DATASET, CALLABLE

F = "kappadata/caching/shared_dict_dataset.py"
FC = "kappadata/caching/cached_dataset.py"
SELF = {"shared_dict": SHAREDMAP, "dataset": DATASET, "transform": TOpt(CALLABLE)}
GHOST = {"g_present": (TSeq(BOOL, mutable=False), None), "g_val": (TSeq(TOpt(VAL), mutable=False), None), "g_rely": (INT, None),
         "g_base_reads": (INT, "0"),
         "g_ncalls": (INT, "0"), "g_called_arg": (VAL, None)}
DEFS = {"BaseItem": (("k",), "Item(self.dataset, k)")}
INV = "forall(lambda k: implies(k >= 0 and g_present[k], g_val[k] == Item(self.dataset, k)))"


def getitem_contract(mode, name):
    return dict(
        target=f"{F}::SharedDictDataset._cached_getitem", name=f"{F}::SharedDictDataset._cached_getitem[{name}]",
        self=SELF, params={"idx": INT}, ghost=GHOST, defs=DEFS, consts={"BaseItem": "BaseItem"},
        requires=[INV, f"g_rely == {mode}", "0 <= idx and idx < len(self.dataset)"],
        raises=(),     # a KeyError escaping the cache is not transparent
        ensures=[
            "result == Item(self.dataset, idx)",      # observationally equal to the wrapped dataset
            INV,                                      # guarantee: we only ever add idx -> Base[idx]
        ] + (["g_present[idx]"] if mode != 2 else []),
    )


SEQ = getitem_contract(0, "sequential")
SEQ["ensures"] += [
    # in a sequential history the base dataset is read iff idx was not cached (hence at most once between clears)
    "forall(lambda k: implies(k >= 0 and k != idx, g_present[k] == old(g_present)[k]))",
    "g_base_reads == b2i(not old(g_present)[idx])",
    "g_ncalls == old(g_ncalls)",          # frame (justifies modifies_ghost below): the lookup itself never applies the transform
]
CONC = getitem_contract(1, "concurrent-readers")
CONC_CLEAR = getitem_contract(2, "concurrent-readers-and-clear")
DISPOSE = dict(target=f"{F}::SharedDictDataset.dispose", self=SELF, ghost=GHOST, defs=DEFS, consts={"BaseItem": "BaseItem"},
               requires=[INV], ensures=["forall(lambda k: implies(k >= 0, not g_present[k]))"])
GETITEM = dict(
    target=f"{FC}::CachedDataset.__getitem__", self_class=f"{F}::SharedDictDataset", self=SELF, params={"idx": INT},
    ghost=GHOST, defs=DEFS, consts={"BaseItem": "BaseItem"},
    requires=[INV, "g_rely == 0", "0 <= idx and idx < len(self.dataset)"],
    # the post-cache transform is applied on every access (cached or not)
    ensures=["implies(self.transform is not None, g_ncalls == 1)", "implies(self.transform is None, result == Item(self.dataset, idx))"],
)
SEQ["modifies_ghost"] = ["g_present", "g_val", "g_base_reads"]      # the cached lookup never calls the post-cache transform
SEQ["returns"] = VAL
SEQ["primary"] = True
SEQ_KEY = f"{F}::SharedDictDataset._cached_getitem"

INIT = dict(
    target=f"{FC}::CachedDataset.__init__", self={}, params={"dataset": DATASET, "transform": TOpt(CALLABLE)},
    # both attributes always exist on the instance (an unset attribute would fall through __getattr__ to the wrapped dataset)
    ensures=["HasField(self, 'dataset') and HasField(self, 'transform')", "self.transform == transform", "self.dataset == dataset"],
)

CONTRACTS = [SEQ, CONC, CONC_CLEAR, DISPOSE, GETITEM, INIT]
