"""Sidecar contract for the sample-level mix wrapper (C11): the data-flow core of the property - image and label are combined
from the same two samples with the same weight - over an uninterpreted elementwise tensor algebra (pyvc/libtensor.py)."""
import z3
from pyvc.values import *  # noqa
from pyvc.libtensor import TENSOR_DATASET, TENSOR_LIB, ext_one_hot

W = "kappadata/wrappers/sample_wrappers"
NCLS = TAbs(lambda name, idx: VFunc("getdim_class", lambda a, k, s, e: VInt(z3.Int("mix$n_classes"))), "getdim_class")
DS = "self.dataset"
NC = "mix_n_classes"

MIX_XCLASS = dict(
    target=f"{W}/kd_mix_wrapper.py::KDMixWrapper.getitem_xclass",
    self={"dataset": TENSOR_DATASET, "total_p": REAL, "mixup_p": REAL, "cutmix_p": REAL, "mixup_alpha": TOpt(REAL), "cutmix_alpha": TOpt(REAL),
          "mixup_unify_shapes_mode": TOpt(STR), "seed": TOpt(INT), "getdim_class": NCLS},
    params={"idx": INT, "ctx": TOpt(TDict())}, lib=TENSOR_LIB,
    externals={"kappadata/utils/one_hot.py::to_one_hot_vector": ext_one_hot},
    consts={NC: INT}, raises=("NotImplementedError", "AssertionError"), asserts={0: "reject"},
    requires=[f"0 <= idx and idx < len({DS})", "self.mixup_unify_shapes_mode is None", f"{NC} == NClassesConst()",
              "0 <= self.mixup_p and 0 <= self.cutmix_p and self.total_p == self.mixup_p + self.cutmix_p and self.total_p <= 1",
              "implies(self.mixup_p > 0, self.mixup_alpha is not None)", "implies(self.cutmix_p > 0, self.cutmix_alpha is not None)"],
    # witnesses are the function's own locals: the draw `apply`, the partner `idx2`, the weight `lamb`
    ensures_here=[
        # not applied: the untouched sample with a one-hot label
        f"implies(apply > self.total_p, SameTensor(result[0], TXOf({DS}, idx)) and SameTensor(result[1], TOneHotOf(TLabelOf({DS}, idx), {NC})))",
        # applied: ONE partner of the same dataset and ONE weight in [0, 1], used for the data and for the label
        f"implies(apply <= self.total_p, 0 <= idx2 and idx2 < len({DS}) and 0 <= Weight(lamb) and Weight(lamb) <= 1)",
        f"implies(apply <= self.total_p, SameTensor(result[0], TMixOf(TXOf({DS}, idx), TXOf({DS}, idx2), Weight(lamb))))",
        f"implies(apply <= self.total_p, SameTensor(result[1], TMixOf(TOneHotOf(TLabelOf({DS}, idx), {NC}), TOneHotOf(TLabelOf({DS}, idx2), {NC}), Weight(lamb))))",
        # a probability-one configuration mixes every sample
        "implies(self.total_p >= 1, apply <= self.total_p)",
    ],
)

CONTRACTS = [MIX_XCLASS]
