"""Sidecar contracts for the global-to-local copy (C20): crash Hoare logic over the abstract file system of pyvc.crashfs."""
from pyvc.values import *  # noqa
from pyvc.crashfs import SRC, DST, REL, LOCAL

CI = ("implies(g_D and not g_S, g_U) and implies(g_E, g_S and g_C == 2) and implies(g_S, g_D) and implies(g_E, g_D) and "
      "implies(g_U, g_D and g_writes == 0 and not g_S and not g_E)")
GHOST = {"g_D": (BOOL, None), "g_S": (BOOL, None), "g_E": (BOOL, None), "g_C": (INT, None), "g_U": (BOOL, None),
         "g_writes": (INT, "0"), "g_deleted": (BOOL, "False"), "g_format": (INT, "0"), "g_nextract": (INT, "0")}
CONSTS = {"src_exists": BOOL, "src_isdir": BOOL, "src_zip": BOOL, "mostly_zips": BOOL}
REQ = [
    # the crash invariant is the precondition: the folder may have been left behind by any number of killed invocations
    CI, "0 <= g_C and g_C <= 2",
    "implies(src_isdir, src_exists)",
]
POST = [
    # a normal return leaves a complete automatic copy, or a user-provided folder that was not touched
    "(g_U and g_writes == 0) or (g_S and g_E and g_C == 2)",
    # a completed automatic copy is never deleted or redone
    "implies(old(g_S) and old(g_E), g_writes == 0)",
    "implies(old(g_U), g_writes == 0)",
    CI,
]


def copy_contract(file, fn, result_ens, with_relative):
    return dict(
        target=f"kappadata/copying/{file}::{fn}", merge=False,
        name=f"kappadata/copying/{file}::{fn}[{'relative_path' if with_relative else 'no-relative_path'}]",
        # with a relative path the destination is a sub-folder of local_path (markers must live in it, not next to it)
        params={"global_path": SRC, "local_path": LOCAL if with_relative else DST,
                "relative_path": REL if with_relative else TNone(), "num_workers": INT, "log_fn": TOpt(VAL)},
        consts=CONSTS, ghost=GHOST, requires=REQ, asserts={0: "reject"},
        raises=("AssertionError", "NotImplementedError"),
        ensures=POST + result_ens,
    )


FOLDER_ENS = [
    # the returned result says truthfully what was done
    "iff(result.was_copied, g_nextract == 1 and g_writes > 0)",
    "iff(result.was_deleted, g_deleted)",
    "implies(result.was_copied, (result.source_format == 'raw') == (g_format == 1) and "
    "(result.source_format == 'zip') == (g_format == 2) and (result.source_format == 'zips') == (g_format == 3))",
    "implies(result.was_copied, g_format == (3 if (src_isdir and mostly_zips) else (1 if src_isdir else 2)))",
    "implies(not result.was_copied, g_nextract == 0 and not result.was_deleted)",
]
IMAGE_ENS = [
    "iff(result.was_copied, g_nextract == 1 and g_writes > 0)",
    "iff(result.was_deleted, g_deleted)",
    "implies(result.was_copied, result.was_zip == (g_format == 2) and result.was_zip_classwise == (g_format == 3))",
    "implies(result.was_copied, g_format == (3 if (src_isdir and mostly_zips) else (1 if src_isdir else 2)))",
    "implies(not result.was_copied, g_nextract == 0 and not result.was_deleted and not result.was_zip and not result.was_zip_classwise)",
]
CONTRACTS = [copy_contract("folder.py", "copy_folder_from_global_to_local", FOLDER_ENS, True),
             copy_contract("folder.py", "copy_folder_from_global_to_local", FOLDER_ENS, False),
             copy_contract("image_folder.py", "copy_imagefolder_from_global_to_local", IMAGE_ENS, True),
             copy_contract("image_folder.py", "copy_imagefolder_from_global_to_local", IMAGE_ENS, False)]

RUN_UNZIP = dict(
    target="kappadata/copying/copying_utils.py::run_unzip_jobs",
    params={"jobargs": TSeq(TTuple([VAL, VAL]), mutable=False), "num_workers": INT},
    ghost={"g_nunzip": (INT, "0"), "g_unzipped": (TSeq(VAL, mutable=False), None)},
    requires=["len(g_unzipped) == 0"],
    loops={0: dict(anchor="for src, dst in jobargs", index="i",
                   invariant=["g_nunzip == i", "len(g_unzipped) == i",
                              "forall(lambda t: implies(0 <= t and t < i, g_unzipped[t] == JobOf(jobargs[t][0], jobargs[t][1])))"])},
    # every zip is extracted exactly once, whatever the number of workers
    ensures=["g_nunzip == len(jobargs)", "len(g_unzipped) == len(jobargs)",
             "forall(lambda t: implies(0 <= t and t < len(jobargs), g_unzipped[t] == JobOf(jobargs[t][0], jobargs[t][1])))"],
)
UNZIP_CONTRACTS = [RUN_UNZIP]
