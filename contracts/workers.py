"""Sidecar contracts for the worker-initialisation hooks (C09): the hook of every layer reaches the hook of every child
dataset / owned transform / registered collator, and a transform's hook rebinds its generator from the worker's global RNG."""
from pyvc.values import *  # noqa
from pyvc.absobj import KDDATASET, TRANSFORM, COLLATOR
import contracts.datasets as cd
import contracts.rng as cr

D = "kappadata/datasets"
T = "kappadata/transforms"
W = "kappadata/wrappers"
GH = {"g_worker_init_fn": (INT, "0"), "g_winit": (TSeq(BOOL, mutable=False), None), "g_rng_set": (TSeq(BOOL, mutable=False), None),
      "g_rng_key": (TSeq(INT, mutable=False), None), "g_rng": (TSeq(VAL, mutable=False), None), "g_global_reads": (INT, "0")}

MODE = dict(target=f"{W}/mode_wrapper.py::ModeWrapper.worker_init_fn", self={"dataset": KDDATASET}, params={"rank": INT}, ghost=GH,
            ensures=["g_worker_init_fn == 1"])
INTERLEAVED = dict(
    target="kappadata/samplers/interleaved_sampler.py::_InterleavedConcatDataset.worker_init_fn",
    self={"datasets": TSeq(KDDATASET, mutable=False)}, params={"rank": INT}, ghost=GH,
    loops={0: dict(anchor="for dataset in self.datasets", index="i", invariant=["g_worker_init_fn == i"])},
    ensures=["g_worker_init_fn == len(self.datasets)"],
)
KDDS = dict(
    target=f"{D}/kd_dataset.py::KDDataset.worker_init_fn", self={"_collators": TOpt(TSeq(COLLATOR, mutable=False))}, params={"rank": INT},
    ghost=GH, requires=["forall(lambda c: implies(self._collators is not None and 0 <= c and c < len(val(self._collators)), not g_rng_set[c]))"],
    loops={0: dict(anchor="for collator in self.collators", index="i",
                   invariant=["forall(lambda c: implies(self._collators is not None and 0 <= c and c < i, g_rng_set[c]))", "g_global_reads == 1"])},
    # every registered collator draws from a generator seeded from the worker's global RNG
    ensures=["forall(lambda c: implies(self._collators is not None and 0 <= c and c < len(val(self._collators)), g_rng_set[c]))"],
)
STOCH_WINIT = dict(
    target=f"{T}/base/kd_transform.py::KDTransform.worker_init_fn", name=f"{T}/base/kd_transform.py::KDTransform.worker_init_fn[stochastic]",
    self_class=f"{T}/base/kd_stochastic_transform.py::KDStochasticTransform", self={"rng": VAL}, params={"rank": INT}, ghost=GH,
    # the generator created in __init__ (copied into every worker) is replaced by one seeded from the worker's global RNG
    ensures=["g_global_reads == 1", "IsGlobalSeededRng(self.rng)"],
)
COMPOSE_WINIT = dict(
    target=f"{T}/base/kd_transform.py::KDTransform.worker_init_fn", name=f"{T}/base/kd_transform.py::KDTransform.worker_init_fn[compose]",
    self_class=f"{T}/base/kd_compose_transform.py::KDComposeTransform", self={"transforms": TSeq(TRANSFORM, mutable=False)},
    params={"rank": INT}, ghost=GH,
    requires=["forall(lambda t: implies(0 <= t and t < len(self.transforms), not g_rng_set[t] and not g_winit[t]))"],
    # through set_rng (C07) the worker's generator reaches every member at any nesting depth; member hooks run too
    ensures=["g_global_reads == 1",
             "forall(lambda t: implies(0 <= t and t < len(self.transforms) and IsKD(self.transforms[t]), g_rng_set[t] and g_winit[t]))"],
)
COMPOSE__WINIT = dict(
    target=f"{T}/base/kd_compose_transform.py::KDComposeTransform._worker_init_fn", self={"transforms": TSeq(TRANSFORM, mutable=False)},
    params={"rank": INT, "num_workers": INT}, ghost=GH, inline=True,
    requires=["forall(lambda t: implies(0 <= t and t < len(self.transforms), not g_winit[t]))"],
    loops={0: dict(anchor="for t in self.transforms", index="i",
                   invariant=["forall(lambda t: implies(0 <= t and t < i and IsKD(self.transforms[t]), g_winit[t]))"])},
    ensures=["forall(lambda t: implies(0 <= t and t < len(self.transforms) and IsKD(self.transforms[t]), g_winit[t]))"],
)
TWB = dict(target=f"{W}/sample_wrappers/base/transform_wrapper_base.py::TransformWrapperBase._worker_init_fn",
           self={"transform": TRANSFORM}, params={"rank": INT}, ghost=GH, requires=["not g_winit[0]"],
           ensures=["implies(IsKD(self.transform), g_winit[0])"])
CFG = TRec("KDMultiViewConfig", {"n_views": INT, "transform": TRANSFORM})
MV = dict(target=f"{W}/sample_wrappers/kd_multi_view_wrapper.py::KDMultiViewWrapper._worker_init_fn",
          self={"transform_configs": TSeq(CFG, mutable=False)}, params={"rank": INT}, ghost=GH,
          requires=["forall(lambda t: implies(0 <= t and t < len(self.transform_configs), not g_winit[t]))"],
          loops={0: dict(anchor="for config in self.transform_configs", index="i",
                         invariant=["forall(lambda t: implies(0 <= t and t < i and IsKD(self.transform_configs[t].transform), g_winit[t]))"])},
          ensures=["forall(lambda t: implies(0 <= t and t < len(self.transform_configs) and IsKD(self.transform_configs[t].transform), g_winit[t]))"])
SEMSEG = dict(target=f"{W}/sample_wrappers/semseg_transform_wrapper.py::SemsegTransformWrapper._worker_init_fn",
              self={"transforms": TSeq(TRANSFORM, mutable=False)}, params={"rank": INT}, ghost=GH,
              requires=["forall(lambda t: implies(0 <= t and t < len(self.transforms), not g_winit[t]))"],
              loops={0: dict(anchor="for transform in self.transforms", index="i",
                             invariant=["forall(lambda t: implies(0 <= t and t < i and IsKD(self.transforms[t]), g_winit[t]))"])},
              ensures=["forall(lambda t: implies(0 <= t and t < len(self.transforms) and IsKD(self.transforms[t]), g_winit[t]))"])

FROM_C02 = [c for c in cd.CONTRACTS if c["target"].endswith(".worker_init_fn")]
ALL = cr.CONTRACTS
CONTRACTS = FROM_C02 + [MODE, INTERLEAVED, KDDS, STOCH_WINIT, COMPOSE_WINIT, COMPOSE__WINIT, TWB, MV, SEMSEG]
