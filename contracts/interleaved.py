"""Sidecar contracts for kappadata/samplers/interleaved_sampler.py  (properties C04, C05, C06).

Every top-level assertion below is a transcription of the property statements (main stream / batch cutting /
stopping point; side passes; resume), phrased over ghost *spec counters* that are advanced only by the emitted
stream itself:

  g_E, g_U, g_S   epochs completed / updates done / main items emitted  (initialised from the checkpoint)
  g_Sprev         main items emitted at the previous update
  g_stop          "the budget was reached at the last update"
  g_open, g_open_ds   size and dataset (0 main, c+1 config c) of the currently open batch
  g_done          configs handled since the last update;  g_k items emitted in the current side pass
  g_iters         number of sampler iterations started so far (identifies *which* iteration an index came from)
"""
from pyvc.values import *  # noqa
from pyvc.absobj import SAMPLER, DATASET, CALLABLE

F = "kappadata/samplers/interleaved_sampler.py"

CFG = TRec("InterleavedSamplerConfig", {
    "sampler": SAMPLER,
    "every_n_epochs": TOpt(INT), "every_n_updates": TOpt(INT), "every_n_samples": TOpt(INT),
    "collator": TOpt(CALLABLE), "batch_size": TOpt(INT),
})

SELF = {
    "main_sampler": SAMPLER, "drop_last": BOOL, "configs": TSeq(CFG, mutable=False), "batch_size": INT,
    "epochs": TOpt(INT), "updates": TOpt(INT), "samples": TOpt(INT),
    "start_epoch": INT, "start_update": INT, "start_sample": INT,
    "drop_last_batch_size": TOpt(INT), "index_offsets": TSeq(INT),
}

# geometry shared by every contract of this file (C06: one spec function for constructor and loop)
DEFS = {
    "N": ((), "len(self.main_sampler)"),
    "B": ((), "old(self.batch_size)"),
    "DL": ((), "old(self.drop_last)"),
    "DLB": ((), "old(self.drop_last_batch_size)"),
    "D": ((), "val(DLB) if DLB is not None else B"),
    "SPE": ((), "(N // D * D) if DL else N"),
    "UPE": ((), "cdiv(SPE, B)"),
    "NC": ((), "len(self.configs)"),
    "stop": (("e", "u", "s"), "(self.epochs is not None and e >= self.epochs) or "
                              "(self.updates is not None and u >= self.updates) or "
                              "(self.samples is not None and s >= self.samples)"),
    "notstop": (("e", "u", "s"), "implies(self.epochs is not None, e < val(self.epochs)) and "
                                 "implies(self.updates is not None, u < val(self.updates)) and "
                                 "implies(self.samples is not None, s < val(self.samples))"),
    "CLEN": (("c",), "len(self.configs[c].sampler)"),
    "IBS": (("c",), "val(self.configs[c].batch_size) if self.configs[c].batch_size is not None else B"),
    # C05: a config is due iff ANY of the interval kinds it declares was reached or crossed by this update
    "due": (("c", "ended"),
            "(self.configs[c].every_n_epochs is not None and ended and g_E % val(self.configs[c].every_n_epochs) == 0) or "
            "(self.configs[c].every_n_updates is not None and g_U % val(self.configs[c].every_n_updates) == 0) or "
            "(self.configs[c].every_n_samples is not None and "
            " g_Sprev // val(self.configs[c].every_n_samples) < g_S // val(self.configs[c].every_n_samples))"),
}

FUNCS = {"OFF": ([INT], INT)}
AXIOMS = [
    # index range of config c is [OFF(c+1), OFF(c+2)), of the main dataset [0, OFF(1)):
    #   OFF(0) = 0, OFF(1) = len(main dataset), OFF(c+2) = OFF(c+1) + len(dataset of config c)
    "OFF(0) == 0 and OFF(1) == len(DataOf(self.main_sampler))",
    "forall(lambda c: implies(0 <= c and c < NC, OFF(c + 2) == OFF(c + 1) + len(DataOf(self.configs[c].sampler))))",
]

# class invariant established by __init__ (proved there), required by every other method
INV_K = [
    "1 <= B and B <= N",
    "implies(DLB is not None, DL and val(DLB) % B == 0 and B <= val(DLB) and val(DLB) <= N)",
    "b2i(self.epochs is not None) + b2i(self.updates is not None) + b2i(self.samples is not None) == 1",
    "implies(self.epochs is not None, val(self.epochs) >= 0)",
    "implies(self.updates is not None, val(self.updates) >= 0)",
    "implies(self.samples is not None, val(self.samples) >= 0)",
    "forall(lambda c: implies(0 <= c and c < NC, "
    " implies(self.configs[c].every_n_epochs is not None, val(self.configs[c].every_n_epochs) >= 1) and "
    " implies(self.configs[c].every_n_updates is not None, val(self.configs[c].every_n_updates) >= 1) and "
    " implies(self.configs[c].every_n_samples is not None, val(self.configs[c].every_n_samples) >= 1) and "
    " implies(self.configs[c].batch_size is not None, val(self.configs[c].batch_size) >= 1) and "
    " (self.configs[c].every_n_epochs is not None or self.configs[c].every_n_updates is not None or "
    "  self.configs[c].every_n_samples is not None) and CLEN(c) >= 0))",
    "len(self.index_offsets) >= NC",
    "forall(lambda c: implies(0 <= c and c < NC, self.index_offsets[c] == OFF(c + 1)))",
]
# C06: the checkpoint the constructor stores denotes an epoch boundary of the uninterrupted run
INV_CKPT = [
    "self.start_epoch >= 0",
    "self.start_update == self.start_epoch * UPE",
    "self.start_sample == self.start_epoch * SPE",
]

GHOST = {
    "g_E": (INT, "self.start_epoch"), "g_U": (INT, "self.start_update"), "g_S": (INT, "self.start_sample"),
    "g_Sprev": (INT, "self.start_sample"), "g_stop": (BOOL, "False"),
    "g_open": (INT, "0"), "g_open_ds": (INT, "0"), "g_done": (INT, "NC"), "g_k": (INT, "0"),
    "g_iters": (INT, "0"), "g_main_iter": (INT, "0"), "g_pass_iter": (INT, "0"),
    "g_announced": (INT, "-1"), "g_q": (INT, "0"), "g_E0": (INT, "0"),
    "g_train_runs": (INT, "0"), "g_eval_runs": (INT, "0"),
}

PASS_ASSERTS = [
    # arithmetic lemma (isolated): successor of a residue
    H("(k + 1) % IBS(c) == (0 if k % IBS(c) + 1 == IBS(c) else k % IBS(c) + 1)", "IBS(c) >= 1", "k >= 0"),
    # the index is the k-th index of THIS iteration of config c's own sampler, shifted into c's index range
    "value[1] == OFF(c + 1) + SamplerElem(self.configs[c].sampler, g_pass_iter, k)",
    # batched by the config's (else the main) batch size with a short final batch
    "value[0] == ((k + 1) % IBS(c) == 0 or k + 1 == CLEN(c))",
    # no batch mixes datasets; a pass starts on a batch boundary
    "g_open == 0 or g_open_ds == c + 1",
    "g_open == k % IBS(c)",
]
PASS_GHOST = {"g_k": "g_k + 1", "g_open": "0 if value[0] else g_open + 1", "g_open_ds": "c + 1"}

MAIN_ASSERTS = [
    # arithmetic lemmas (isolated): j = q*B + r with 0 <= r < B  (code counters are already incremented here)
    H("((j + 1) % B == 0) == (sample_in_update == B)", "j + 1 == g_q * B + sample_in_update",
      "1 <= sample_in_update and sample_in_update <= B", "g_q >= 0"),
    H("sample_in_update - 1 == j % B", "j == g_q * B + (sample_in_update - 1)",
      "1 <= sample_in_update and sample_in_update <= B", "g_q >= 0"),
    # the j-th index of the iteration of the main sampler that was started for this epoch
    "value[1] == SamplerElem(self.main_sampler, g_main_iter, j)",
    "j < SPE",
    # cut into batches of batch_size; only an epoch's last batch may be short
    "value[0] == ((j + 1) % B == 0 or j + 1 == SPE)",
    # ... that remainder being dropped under drop_last: with drop_last the epoch ends on a full batch
    "implies(DL and j + 1 == SPE, (j + 1) % B == 0)",
    # no mixing, main batches hold consecutive main items only
    "g_open == 0 or g_open_ds == 0",
    "g_open == j % B",
    # every config was handled (iterated in full if due, skipped otherwise) after the previous update
    "g_done == NC",
    # the stream did not run past the update at which the budget was reached
    "not g_stop",
]
MAIN_GHOST = {
    "g_S": "g_S + 1",
    "g_U": "g_U + 1 if value[0] else g_U",
    "g_E": "g_E + 1 if j + 1 == SPE else g_E",
    "g_stop": "value[0] and stop(g_E, g_U, g_S)",
    "g_q": "g_q + 1 if value[0] else g_q",
    "g_open": "0 if value[0] else g_open + 1",
    "g_open_ds": "0",
    "g_done": "0 if value[0] else g_done",
}

LINK = [  # code counters == spec counters
    "epoch == g_E", "update == g_U", "sample == g_S", "sample_at_last_update == g_Sprev",
    "samples_per_epoch == SPE", "self.batch_size == B",
]

TRAINING_LOOP = dict(
    target=f"{F}::InterleavedSampler._training_loop",
    self=SELF, funcs=FUNCS, axioms=AXIOMS, defs=DEFS, ghost=GHOST,
    let={"m_dlb": "val(DLB) // B", "t_spe": "(N // D) * (D // B)"},
    requires=INV_K + INV_CKPT + [
        # __iter__ dispatches here only for a non-zero budget; C04/C06 domain: checkpoint strictly before the budget
        "notstop(self.start_epoch, self.start_update, self.start_sample)",
    ],
    entry_ghost={"g_train_runs": "g_train_runs + 1"},
    lemmas=[
        H("implies(DLB is not None, val(DLB) == m_dlb * B and m_dlb >= 1)",
          "implies(DLB is not None, val(DLB) % B == 0 and B <= val(DLB))", "m_dlb == val(DLB) // B", "B >= 1"),
        "implies(DLB is not None, D == m_dlb * B and D // B == m_dlb)",
        "D >= B and D <= N and D >= 1",
        "N // D >= 1",
        "SPE >= D and SPE <= N",
        "implies(DL, SPE == (N // D) * (D // B) * B)",
        "implies(DL, SPE == t_spe * B)",
        H("implies(DL, SPE % B == 0)", "implies(DL, SPE == t_spe * B)", "B >= 1"),
        "UPE >= 1",
    ],
    ghost_effects={"call:set_epoch": ["g_announced"], "iter:*": ["g_iters"]},
    loops={
        0: dict(anchor="while True",
                invariant=LINK + [
                    "sample_in_update == 0",
                    "g_U == g_E * UPE", "g_S == g_E * SPE", "g_Sprev == g_S", "g_E >= 0",
                    "not g_stop", "notstop(g_E, g_U, g_S)",
                    "g_open == 0", "g_done == NC",
                ],
                # termination ("it always ends"): the distance to the set budget decreases every epoch
                variant="(val(self.epochs) - g_E) if self.epochs is not None else "
                        "((val(self.updates) - g_U) if self.updates is not None else (val(self.samples) - g_S))"),
        1: dict(anchor="for main_idx in self.main_sampler", index="j", no_exhaust=True,
                before={"g_main_iter": "g_iters - 1", "g_q": "0", "g_E0": "g_E"},
                invariant=LINK + [
                    # epoch e is announced via set_epoch before it starts
                    "implies(HasSetEpoch(self.main_sampler), g_announced == g_E0)",
                    "sample_in_epoch == j", "j < SPE",
                    "j == g_q * B + sample_in_update", "0 <= sample_in_update and sample_in_update < B", "g_q >= 0",
                    "g_E == g_E0", "g_E0 >= 0", "g_U == g_E0 * UPE + g_q", "g_S == g_E0 * SPE + j",
                    "g_Sprev == g_E0 * SPE + g_q * B",
                    "not g_stop", "notstop(g_E, g_U, g_Sprev)",
                    "g_open == sample_in_update", "g_open == 0 or g_open_ds == 0", "g_done == NC",
                ]),
        2: dict(anchor="for config_idx, config in enumerate(self.configs)", index="c",
                at_start={"g_k": "0"},
                # iterated once in full iff due, in config order
                at_end=["g_k == (CLEN(c) if due(c, j + 1 == SPE) else 0)"],
                at_end_ghost={"g_done": "g_done + 1"},
                after={"g_Sprev": "g_S"},
                invariant=["g_done == c", "g_open == 0"]),
        3: dict(anchor="for interleaved_idx in config.sampler", index="k",
                before={"g_pass_iter": "g_iters - 1"},
                invariant=["sample_in_interleaved == k", "g_k == k", "g_open == (0 if k == CLEN(c) else k % IBS(c))",
                           "g_open == 0 or g_open_ds == c + 1", "g_done == c"]),
    },
    yields={
        0: dict(anchor="yield (True, main_idx)", asserts=MAIN_ASSERTS + ["value[0]"], ghost=MAIN_GHOST),
        1: dict(anchor="yield (False, main_idx)", asserts=MAIN_ASSERTS + ["not value[0]"], ghost=MAIN_GHOST),
        2: dict(anchor="yield (True, index_offset + interleaved_idx)", asserts=PASS_ASSERTS, ghost=PASS_GHOST),
        3: dict(anchor="yield (False, index_offset + interleaved_idx)", asserts=PASS_ASSERTS, ghost=PASS_GHOST),
    },
    ensures=[
        # ends right after the update at which the budget is reached, with all due passes done, on a batch boundary
        "g_stop", "g_done == NC", "g_open == 0",
    ],
)


# ----------------------------------------------------------------------------------------------------------
# _eval_loop: zero budget -> exactly one full pass over every config and nothing else
EVAL_LOOP = dict(
    target=f"{F}::InterleavedSampler._eval_loop",
    self=SELF, funcs=FUNCS, axioms=AXIOMS, defs=DEFS, ghost=GHOST,
    requires=INV_K + ["g_open == 0"],
    entry_ghost={"g_eval_runs": "g_eval_runs + 1", "g_done": "0"},
    ghost_effects={"iter:*": ["g_iters"]},
    loops={
        0: dict(anchor="for config_idx, config in enumerate(self.configs)", index="c",
                at_start={"g_k": "0"},
                at_end=["g_k == CLEN(c)"],
                at_end_ghost={"g_done": "g_done + 1"},
                invariant=["g_done == c", "g_open == 0"]),
        1: dict(anchor="for interleaved_idx in config.sampler", index="k",
                before={"g_pass_iter": "g_iters - 1"},
                invariant=["sample_in_interleaved == k", "g_k == k", "g_open == (0 if k == CLEN(c) else k % IBS(c))",
                           "g_open == 0 or g_open_ds == c + 1", "g_done == c"]),
    },
    yields={
        0: dict(anchor="yield (True, index_offset + interleaved_idx)", asserts=PASS_ASSERTS, ghost=PASS_GHOST),
        1: dict(anchor="yield (False, index_offset + interleaved_idx)", asserts=PASS_ASSERTS, ghost=PASS_GHOST),
    },
    modifies_ghost=["g_eval_runs", "g_done", "g_k", "g_open", "g_open_ds", "g_iters", "g_pass_iter"],
    ensures=["g_done == NC", "g_open == 0", "g_eval_runs == old(g_eval_runs) + 1", "g_train_runs == old(g_train_runs)"],
)
TRAINING_LOOP["modifies_ghost"] = list(GHOST.keys())
TRAINING_LOOP["modifies"] = ["batch_size", "drop_last_batch_size"]
TRAINING_LOOP["ensures"] += ["g_train_runs == old(g_train_runs) + 1", "g_eval_runs == old(g_eval_runs)"]

# __iter__: zero budget -> the eval pass, else the training loop (whose requires must follow from the class invariant)
ITER = dict(
    target=f"{F}::InterleavedSampler.__iter__",
    self=SELF, funcs=FUNCS, axioms=AXIOMS, defs=DEFS, ghost=GHOST,
    requires=INV_K + INV_CKPT + [
        # C04/C06 domain: a checkpoint strictly before a non-zero budget
        "implies(not (self.epochs == 0 or self.updates == 0 or self.samples == 0),"
        " notstop(self.start_epoch, self.start_update, self.start_sample))",
    ],
    asserts={0: "reject"},
    yields={0: dict(anchor="self._eval_loop()", delegate=True), 1: dict(anchor="self._training_loop()", delegate=True)},
    ensures=[
        "implies(self.epochs == 0 or self.updates == 0 or self.samples == 0, g_eval_runs == 1 and g_train_runs == 0)",
        "implies(not (self.epochs == 0 or self.updates == 0 or self.samples == 0), g_train_runs == 1 and g_eval_runs == 0)",
        "g_open == 0",
    ],
)

# ----------------------------------------------------------------------------------------------------------
# constructor: establishes the class invariant, the index ranges, and (C06) a checkpoint on an epoch boundary
DEFS_INIT = dict(DEFS, N=((), "len(main_sampler)"), B=((), "batch_size"), DL=((), "drop_last"),
                 DLB=((), "drop_last_batch_size"))
AXIOMS_INIT = [
    "OFF(0) == 0 and OFF(1) == len(DataOf(main_sampler))",
    "forall(lambda c: implies(configs is not None and 0 <= c and c < len(val(configs)), "
    "OFF(c + 2) == OFF(c + 1) + len(DataOf(val(configs)[c].sampler))))",
]
INIT = dict(
    target=f"{F}::InterleavedSampler.__init__",
    self={}, funcs=FUNCS, axioms=AXIOMS_INIT, defs=DEFS_INIT,
    params={"main_sampler": SAMPLER, "batch_size": INT, "configs": TOpt(TSeq(CFG, mutable=False)), "drop_last": BOOL,
            "main_collator": TOpt(CALLABLE), "epochs": TOpt(INT), "updates": TOpt(INT), "samples": TOpt(INT),
            "start_epoch": TOpt(INT), "start_update": TOpt(INT), "start_sample": TOpt(INT),
            "drop_last_batch_size": TOpt(INT)},
    requires=[
        # C06 domain: a checkpoint is a non-negative epoch / update / sample count
        "implies(start_epoch is not None, val(start_epoch) >= 0)",
        "implies(start_update is not None, val(start_update) >= 0)",
        "implies(start_sample is not None, val(start_sample) >= 0)",
    ],
    loops={
        0: dict(anchor="for config in configs", index="c",
                invariant=["forall(lambda t: implies(0 <= t and t < c, "
                           " implies(configs[t].every_n_epochs is not None, val(configs[t].every_n_epochs) >= 1) and "
                           " implies(configs[t].every_n_updates is not None, val(configs[t].every_n_updates) >= 1) and "
                           " implies(configs[t].every_n_samples is not None, val(configs[t].every_n_samples) >= 1) and "
                           " implies(configs[t].batch_size is not None, val(configs[t].batch_size) >= 1) and "
                           " (configs[t].every_n_epochs is not None or configs[t].every_n_updates is not None or "
                           "  configs[t].every_n_samples is not None)))"]),
        1: dict(anchor="for config in self.configs[:-1]", index="c",
                invariant=["len(self.index_offsets) == c + 1",
                           "forall(lambda t: implies(0 <= t and t <= c, self.index_offsets[t] == OFF(t + 1)))"]),
    },
    post_inductions=[
        # cumulative sizes of the concat dataset are the index ranges: cs[c] == OFF(c+1) for c in [0, NC]
        ("c", "0", "NC", "self.dataset.cumulative_sizes[c] == OFF(c + 1)"),
    ],
    let={"m_dlb": "val(DLB) // B", "t_spe": "(N // D) * (D // B)"},
    ensures=INV_K + [
        "self.start_epoch >= 0",
        # arithmetic chain (isolated lemmas): with drop_last an epoch is UPE full batches
        H("implies(DLB is not None, val(DLB) == m_dlb * B and m_dlb >= 1)",
          "implies(DLB is not None, val(DLB) % B == 0 and B <= val(DLB))", "m_dlb == val(DLB) // B", "B >= 1"),
        "implies(DLB is not None, D == m_dlb * B and D // B == m_dlb)",
        "implies(DL, SPE == t_spe * B)",
        H("implies(DL, UPE == t_spe)", "implies(DL, SPE == t_spe * B)", "B >= 1"),
        "implies(DL, SPE == UPE * B)",
        "self.start_update == self.start_epoch * UPE",
        "implies(start_epoch is None and start_update is None and start_sample is not None, "
        "        DL and self.start_sample == self.start_update * B)",
        "implies(not (start_epoch is None and start_update is None and start_sample is not None), "
        "        self.start_sample == self.start_epoch * SPE)",
        H("self.start_sample == self.start_epoch * SPE",
          "implies(DL, SPE == UPE * B)", "self.start_update == self.start_epoch * UPE",
          "implies(start_epoch is None and start_update is None and start_sample is not None, "
          "        DL and self.start_sample == self.start_update * B)",
          "implies(not (start_epoch is None and start_update is None and start_sample is not None), "
          "        self.start_sample == self.start_epoch * SPE)"),
        "self.batch_size == batch_size and self.drop_last == drop_last",
        "len(self.dataset.datasets) == NC + 1 and len(self.dataset.cumulative_sizes) == NC + 1",
        "self.dataset.datasets[0] == DataOf(main_sampler)",
        "forall(lambda c: implies(0 <= c and c < NC, self.dataset.datasets[c + 1] == DataOf(self.configs[c].sampler)))",
        "forall(lambda c: implies(0 <= c and c <= NC, self.dataset.cumulative_sizes[c] == OFF(c + 1)))",
        "len(self.collator.collators) == NC + 1",
    ],
)


# ----------------------------------------------------------------------------------------------------------
# batch sampler: cuts the (flag, idx) stream into batches exactly at the flags; its final assert is proved from
# "the stream ends on a batch boundary" (ensures g_open == 0 of both loops)
BATCH_ITER = dict(
    target=f"{F}::_InterleavedBatchSampler.__iter__",
    self={"sampler": TSeq(TTuple([BOOL, INT]), mutable=False)},
    ghost={"g_start": (INT, "0")},
    requires=["len(self.sampler) == 0 or self.sampler[len(self.sampler) - 1][0]"],
    loops={0: dict(anchor="for is_full_batch, idx in self.sampler", index="i", havoc_types={"idxs": TSeq(INT)},
                   invariant=["0 <= g_start and g_start <= i", "len(idxs) == i - g_start",
                              "forall(lambda t: implies(g_start <= t and t < i, not self.sampler[t][0]))",
                              "forall(lambda t: implies(0 <= t and t < len(idxs), idxs[t] == self.sampler[g_start + t][1]))",
                              "g_start == 0 or self.sampler[g_start - 1][0]"])},
    yields={0: dict(anchor="yield idxs",
                    asserts=["self.sampler[i][0]", "len(value) == i + 1 - g_start",
                             "forall(lambda t: implies(0 <= t and t < len(value), value[t] == self.sampler[g_start + t][1]))",
                             "forall(lambda t: implies(g_start <= t and t < i, not self.sampler[t][0]))"],
                    ghost={"g_start": "i + 1"})},
    ensures=["g_start == len(self.sampler)"],
)

# concat dataset: index OFF-range -> (dataset number, sample of that dataset)
GETITEM = dict(
    target=f"{F}::_InterleavedConcatDataset.__getitem__",
    self={"cumulative_sizes": TSeq(INT), "datasets": TSeq(DATASET)},
    params={"idx": INT}, consts={"d": INT, "s": INT},
    requires=[
        "len(self.datasets) >= 1 and len(self.cumulative_sizes) == len(self.datasets)",
        # torch ConcatDataset: running sums of the lengths, non-decreasing
        "forall(lambda k: implies(0 <= k and k < len(self.datasets), "
        " self.cumulative_sizes[k] == (self.cumulative_sizes[k - 1] if k > 0 else 0) + len(self.datasets[k])))",
        "forall(lambda i, j: implies(0 <= i and i <= j and j < len(self.datasets), "
        " self.cumulative_sizes[i] <= self.cumulative_sizes[j]))",
        # idx is sample s of dataset d, shifted into d's index range
        "0 <= d and d < len(self.datasets) and 0 <= s and s < len(self.datasets[d])",
        "idx == (self.cumulative_sizes[d - 1] if d > 0 else 0) + s",
    ],
    ensures=["result[0] == d", "result[1] == Item(self.datasets[d], s)"],
)

COLLATOR = dict(
    target=f"{F}::_InterleavedCollator.__call__",
    self={"collators": TSeq(CALLABLE)},
    params={"data": TSeq(TTuple([INT, VAL]), mutable=False)},
    ghost={"g_ncalls": (INT, "0"), "g_called": (INT, "-1")},
    requires=["len(data) >= 1", "0 <= data[0][0] and data[0][0] < len(self.collators)",
              # no batch mixes datasets (C05 / PASS_ASSERTS) and __getitem__ returns the dataset number first
              "forall(lambda t: implies(0 <= t and t < len(data), data[t][0] == data[0][0]))"],
    asserts={0: "internal"},
    ensures=["g_ncalls == 1 and g_called == old(data)[0][0]"],
)

CONTRACTS = [TRAINING_LOOP, EVAL_LOOP, ITER, INIT, BATCH_ITER, GETITEM, COLLATOR]
