"""Sidecar contracts for ModeWrapper / TorchWrapper (C01).

__getitem__ is verified against the *table specification*: every mode position p has an owner entry - the last entry of
fused_to_idxs that writes p (component OwnerComp(p) of a group entry, or a single entry). The table's well-formedness
(that the constructor builds such a table from the mode string and the declared fused operations) is the bounded part."""
from pyvc.values import *  # noqa
from pyvc.absobj import KDDATASET, GETTER, FUSEDENTRY, DATASET, MODESTR

F = "kappadata/wrappers/mode_wrapper.py"
FT = "kappadata/wrappers/torch_wrapper.py"

SELF = {"dataset": KDDATASET, "_getitem_fns": TSeq(GETTER, mutable=False), "fused_to_idxs": TSeq(FUSEDENTRY, mutable=False),
        "items": TSeq(STR, mutable=False), "return_ctx": BOOL, "propagate_ctx": BOOL}
FUNCS = {"Owner": ([INT], INT), "OwnerComp": ([INT], INT)}
DEFS = {
    "NI": ((), "len(self.items)"), "M": ((), "len(self._getitem_fns)"), "FUSED": ((), "len(self.fused_to_idxs) > 0"),
    "IDX": ((), "idx if idx >= 0 else len(self.dataset) + idx"),
    "E": (("i",), "self.fused_to_idxs[i]"),
    # the value the owner entry delivers for position p
    "OWNVAL": (("p",), "CompOf(Out(self._getitem_fns[Owner(p)], IDX), OwnerComp(p)) if IsList(E(Owner(p))) "
                      "else Out(self._getitem_fns[Owner(p)], IDX)"),
    "WRITES": (("i", "p"), "(IsList(E(i)) and exists(lambda j: 0 <= j and j < NMulti(E(i)) and Multi(E(i), j) == p)) or "
                           "(not IsList(E(i)) and Single(E(i)) == p)"),
}
TABLE = [
    "NI >= 1 and M >= 1",
    # without fused declarations: one loader per mode position
    "implies(not FUSED, M == NI)",
    "implies(FUSED, len(self.fused_to_idxs) == M)",
    # every written position is a mode position
    "forall(lambda i, j: implies(FUSED and 0 <= i and i < M and IsList(E(i)) and 0 <= j and j < NMulti(E(i)), "
    "0 <= Multi(E(i), j) and Multi(E(i), j) < NI))",
    "forall(lambda i: implies(FUSED and 0 <= i and i < M and not IsList(E(i)), 0 <= Single(E(i)) and Single(E(i)) < NI))",
    # owner of position p: an entry that writes p ...
    "forall(lambda p: implies(FUSED and 0 <= p and p < NI, 0 <= Owner(p) and Owner(p) < M and "
    " ((IsList(E(Owner(p))) and 0 <= OwnerComp(p) and OwnerComp(p) < NMulti(E(Owner(p))) and Multi(E(Owner(p)), OwnerComp(p)) == p) or "
    "  (not IsList(E(Owner(p))) and Single(E(Owner(p))) == p))))",
    # ... and nothing writes p afterwards (later entries, later components of the owner group)
    "forall(lambda p, i, j: implies(FUSED and 0 <= p and p < NI and Owner(p) < i and i < M and IsList(E(i)) and 0 <= j and j < NMulti(E(i)), "
    " Multi(E(i), j) != p))",
    "forall(lambda p, i: implies(FUSED and 0 <= p and p < NI and Owner(p) < i and i < M and not IsList(E(i)), Single(E(i)) != p))",
    "forall(lambda p, j: implies(FUSED and 0 <= p and p < NI and IsList(E(Owner(p))) and OwnerComp(p) < j and j < NMulti(E(Owner(p))), "
    " Multi(E(Owner(p)), j) != p))",
]
GHOST = {"g_fn_calls": (INT, "0"), "g_fn_ctx": (TSeq(VAL, mutable=False), None)}

GETITEM_INT = dict(
    target=f"{F}::ModeWrapper.__getitem__", name=f"{F}::ModeWrapper.__getitem__[int]", primary=True,
    self=SELF, params={"idx": INT}, funcs=FUNCS, defs=DEFS, ghost=GHOST, merge=False,
    requires=TABLE + ["-len(self.dataset) <= idx and idx < len(self.dataset)"],
    loops={
        0: dict(anchor="for getitem_fn in self._getitem_fns", index="i", havoc_types={"items": TSeq(VAL)},
                invariant=["len(items) == i", "g_fn_calls == i",
                           # loaders are called in entry (mode) order, each once, for the normalised index
                           "forall(lambda t: implies(0 <= t and t < i, items[t] == Out(self._getitem_fns[t], IDX)))",
                           "idx == IDX"]),
        1: dict(anchor="for i, fused_idxs in enumerate(self.fused_to_idxs)", index="e", havoc_types={"unpacked_items": TSeq(TOpt(VAL))},
                invariant=["len(unpacked_items) == NI", "g_fn_calls == M",
                           "forall(lambda p: implies(0 <= p and p < NI and Owner(p) < e, unpacked_items[p] == OWNVAL(p)))"]),
        2: dict(anchor="for j, fused_idx in enumerate(fused_idxs)", index="c", havoc_types={"unpacked_items": TSeq(TOpt(VAL))},
                invariant=["len(unpacked_items) == NI", "g_fn_calls == M",
                           "forall(lambda p: implies(0 <= p and p < NI and (Owner(p) < e or (Owner(p) == e and OwnerComp(p) < c)), "
                           "unpacked_items[p] == OWNVAL(p)))"]),
    },
    ensures=[
        # one loader call per entry, all for this sample
        "g_fn_calls == M",
        # bare value for one item, tuple for several; context appended iff requested
        "iff(self.return_ctx, IsPair(result) and NI >= 1)" if False else "implies(self.return_ctx, IsPair(result))",
        "implies(NI == 1 and not FUSED, ITEMS(result) == Out(self._getitem_fns[0], IDX))",
        "implies(NI > 1 and not FUSED, forall(lambda p: implies(0 <= p and p < NI, ITEMS(result)[p] == Out(self._getitem_fns[p], IDX))))",
        "implies(NI > 1, len(ITEMS(result)) == NI)",
        # jointly loaded items are delivered in mode order and equal what loading them together once yields
        "implies(NI > 1 and FUSED, forall(lambda p: implies(0 <= p and p < NI, ITEMS(result)[p] == OWNVAL(p))))",
        "implies(NI == 1 and FUSED, ITEMS(result) == OWNVAL(0))",
        # the context is None unless contexts are propagated
        "implies(self.return_ctx and not self.propagate_ctx, isnone(Snd(result)))",
    ],
)
GETITEM_INT["defs"] = dict(DEFS, ITEMS=(("r",), "Fst(r) if self.return_ctx else r"))

LEN = dict(target=f"{F}::ModeWrapper.__len__", self=SELF, returns=INT, ensures=["result == len(self.dataset)"])

FIRST = ("forall(lambda t: implies(0 <= t and t < result, ModeItems(mode)[t] != item)) and 0 <= result and "
         "result < len(ModeItems(mode)) and ModeItems(mode)[result] == item")
HELPERS = [
    dict(target=f"{F}::ModeWrapper.has_item", params={"mode": MODESTR, "item": STR},
         ensures=["iff(result, exists(lambda t: 0 <= t and t < len(ModeItems(mode)) and ModeItems(mode)[t] == item))"]),
    dict(target=f"{F}::ModeWrapper.get_item_index", params={"mode": MODESTR, "item": STR},
         requires=["exists(lambda t: 0 <= t and t < len(ModeItems(mode)) and ModeItems(mode)[t] == item)"],
         ensures=[FIRST]),
    dict(target=f"{F}::ModeWrapper.set_item", params={"mode": MODESTR, "item": STR, "batch": TSeq(VAL, mutable=False), "value": VAL},
         consts={"pos": INT},
         requires=["len(batch) == len(ModeItems(mode))", "0 <= pos and pos < len(batch) and ModeItems(mode)[pos] == item",
                   "forall(lambda t: implies(0 <= t and t < pos, ModeItems(mode)[t] != item))"],
         # exactly the position of `item` changes, everything else passes through
         ensures=["len(result) == len(batch)",
                  "forall(lambda k: implies(0 <= k and k < len(batch), result[k] == (value if k == pos else batch[k])))"]),
    dict(target=f"{F}::ModeWrapper.get_item", name=f"{F}::ModeWrapper.get_item[tuple]",
         params={"mode": MODESTR, "item": STR, "batch": TSeq(VAL, mutable=False)}, consts={"pos": INT},
         requires=["len(batch) == len(ModeItems(mode))", "0 <= pos and pos < len(batch) and ModeItems(mode)[pos] == item",
                   "forall(lambda t: implies(0 <= t and t < pos, ModeItems(mode)[t] != item))"],
         ensures=["result == batch[pos]"]),
]
TW_SELF = {"dataset": DATASET, "mode": MODESTR}
TORCH = [
    dict(target=f"{FT}::TorchWrapper._getitem", self=TW_SELF, params={"idx": INT, "ctx": TOpt(VAL), "item_idx": INT},
         requires=["0 <= idx and idx < len(self.dataset)"],
         ensures=["result == CompOf(Item(self.dataset, idx), item_idx)"]),
    dict(target=f"{FT}::TorchWrapper.__getattr__", name=f"{FT}::TorchWrapper.__getattr__[getitem]", self=TW_SELF,
         concrete={"item": "getitem_class"}, consts={"k": INT, "pos": INT},
         requires=["0 <= pos and pos < len(ModeItems(self.mode)) and ModeItems(self.mode)[pos] == 'class'",
                   "forall(lambda t: implies(0 <= t and t < pos, ModeItems(self.mode)[t] != 'class'))"],
         raises=("AssertionError",),
         # item `class` of the torch-style sample is the component at its position in the mode string
         ensures=["implies(0 <= k and k < len(self.dataset), result(k) == CompOf(Item(self.dataset, k), pos))"]),
    dict(target=f"{FT}::TorchWrapper.__len__", self=TW_SELF, ensures=["result == len(self.dataset)"]),
]

CONTRACTS = [GETITEM_INT, LEN] + HELPERS + TORCH
