"""Sidecar contracts for the collator pipeline (C18): KDCollatorBase._call_impl as a layout state machine."""
from pyvc.values import *  # noqa
from pyvc.absobj import COLLATOR, BATCH

F = "kappadata/collators/base/kd_collator_base.py"

CALL_IMPL = dict(
    target=f"{F}::KDCollatorBase._call_impl", merge=False,
    params={"batch": BATCH, "collators": TSeq(COLLATOR, mutable=False), "dataset_mode": STR, "return_ctx": BOOL},
    ghost={"g_ndc": (INT, "0"), "g_ncollate": (INT, "0")},
    defs={"NM": ((), "len(collators)")},
    requires=[
        # the dataset mode decides the incoming layout: a list of samples, or of (sample, ctx) pairs iff return_ctx
        "Layout(batch) == (1 if return_ctx else 0)",
        "forall(lambda t: implies(0 <= t and t < NM, 0 <= ModeOf(collators[t]) and ModeOf(collators[t]) <= 2))",
    ],
    # the three `assert not called_default_collate` / isinstance asserts are input rejection (unsupported member orders)
    asserts={0: "reject", 1: "internal", 2: "internal", 3: "reject"}, raises=("AssertionError",),
    excuse_rejected=True,
    loops={0: dict(anchor="for collator in collators", index="i", havoc_types={"ctx": BATCH},
                   invariant=[
                       # default collation is applied at most once, and the flag tells the truth about it
                       "g_ndc == b2i(called_default_collate)",
                       "Layout(batch) == (2 if called_default_collate else (1 if (return_ctx and not removed_ctx_from_batch) else 0))",
                       "implies(i > 0 and return_ctx, called_default_collate or removed_ctx_from_batch)",
                       "implies(not return_ctx, not removed_ctx_from_batch)",
                       "g_ncollate == i",
                       "Layout(ctx) == 5",
                       "implies(return_ctx and (called_default_collate or removed_ctx_from_batch), Origin(ctx) == Origin(old(batch)))",
                       "Origin(batch) == Origin(old(batch))",
                       "implies(not called_default_collate, forall(lambda t: implies(0 <= t and t < i, ModeOf(collators[t]) == 0)))",
                   ])},
    ensures=[
        "g_ndc <= 1",                                   # default collation applied at most once ...
        "g_ncollate == NM",                             # ... every member ran exactly once, each on the layout its mode asks for
        "implies(g_ndc == 0, forall(lambda t: implies(0 <= t and t < NM, ModeOf(collators[t]) == 0)))",
        "implies(exists(lambda t: 0 <= t and t < NM and ModeOf(collators[t]) != 0), g_ndc == 1)",
        # returns (batch, context) iff configured to; the context is the batch's own, batched (no keys lost or invented:
        # default_collate on dicts, trusted)
        "iff(return_ctx, IsPair(result))",
        "implies(return_ctx and NM > 0, Layout(Snd(result)) == 5 and Origin(Snd(result)) == Origin(old(batch)))",
        "implies(return_ctx, Origin(Fst(result)) == Origin(old(batch)))",
        "implies(not return_ctx, Origin(result) == Origin(old(batch)))",
    ],
)

CALL_IMPL["inline"] = True
FC = "kappadata/collators/base/kd_compose_collator.py"
FW = "kappadata/collators/base/kd_single_collator_wrapper.py"
GH = {"g_ndc": (INT, "0"), "g_ncollate": (INT, "0"), "g_rng_set": (TSeq(BOOL, mutable=False), None)}
COMPOSE_CALL = dict(
    target=f"{FC}::KDComposeCollator.__call__", merge=False,
    self={"collators": TSeq(COLLATOR, mutable=False), "dataset_mode": STR, "return_ctx": BOOL},
    params={"batch": BATCH}, ghost=GH,
    requires=["Layout(batch) == (1 if self.return_ctx else 0)", "len(self.collators) >= 1",
              "forall(lambda t: implies(0 <= t and t < len(self.collators), "
              "0 <= ModeOf(self.collators[t]) and ModeOf(self.collators[t]) <= 2))"],
    raises=("AssertionError",), excuse_rejected=True,
    ensures=["g_ndc <= 1", "g_ncollate == len(self.collators)", "iff(self.return_ctx, IsPair(result))",
             "implies(self.return_ctx, Layout(Snd(result)) == 5 and Origin(Snd(result)) == Origin(old(batch)))"],
)
COMPOSE_SET_RNG = dict(
    target=f"{FC}::KDComposeCollator.set_rng",
    self={"collators": TSeq(COLLATOR, mutable=False)}, params={"rng": VAL}, ghost=GH,
    ghost_effects={"call:set_rng": ["g_rng_set"]},
    requires=["forall(lambda t: implies(0 <= t and t < len(self.collators), not g_rng_set[t]))"],
    loops={0: dict(anchor="for collator in self.collators", index="i",
                   invariant=["forall(lambda t: implies(0 <= t and t < i, g_rng_set[t]))"])},
    ensures=["forall(lambda t: implies(0 <= t and t < len(self.collators), g_rng_set[t]))"],
)
WRAPPER_CALL = dict(
    target=f"{FW}::KDSingleCollatorWrapper.__call__",
    self={"collator": COLLATOR, "dataset_mode": STR, "return_ctx": BOOL}, params={"batch": BATCH}, ghost=GH,
    requires=["Layout(batch) == (2 if ModeOf(self.collator) == 1 else 0)", "0 <= ModeOf(self.collator) and ModeOf(self.collator) <= 2"],
    ensures=["iff(self.return_ctx, IsPair(result))"],
)

CONTRACTS = [CALL_IMPL, COMPOSE_CALL, COMPOSE_SET_RNG, WRAPPER_CALL]
