"""Sidecar contracts for the label-rewriting wrappers (C16): bulk accessor == per-sample accessor, labels in the announced
range (or -1), smoothing algebra; the wrapped dataset is the abstract int-label dataset (labels in [-1, C))."""
from pyvc.values import *  # noqa
from pyvc.absobj import LABELDATASET

W = "kappadata/wrappers"
DS = {"dataset": LABELDATASET}
N = "len(self.dataset)"
C = "NumClasses(self.dataset)"
IDXREQ = [f"0 <= idx and idx < {N}"]

# ------------------------------------------------------------------------------------------------ ClassGroupsWrapper
CG = f"{W}/dataset_wrappers/class_groups_wrapper.py::ClassGroupsWrapper"
CG_SELF = dict(DS, classes_per_group=INT, cls_to_clsgroup=TSeq(INT, mutable=False), idx_within_class=TSeq(INT, mutable=False))
CG_REQ = ["self.classes_per_group >= 1", f"len(self.idx_within_class) == {N}",
          # domain of C16: the group size divides the class count; labels of the wrapped dataset are classes (not -1)
          f"{C} % self.classes_per_group == 0", f"len(self.cls_to_clsgroup) == {C}",
          f"forall(lambda c: implies(0 <= c and c < {C}, 0 <= self.cls_to_clsgroup[c] and "
          f"self.cls_to_clsgroup[c] < {C} // self.classes_per_group))",
          f"forall(lambda k: implies(0 <= k and k < {N}, self.idx_within_class[k] >= 0 and LabelOf(self.dataset, k) >= 0))"]
CG_MAP = dict(target=f"{CG}._map_cls", self=CG_SELF, params={"idx": INT, "cls": INT}, inline=True,
              let={"q": f"{C} // self.classes_per_group"},
              requires=CG_REQ + IDXREQ + [f"0 <= cls and cls < {C}"],
              ensures=[H("q * self.classes_per_group == " + C, f"{C} % self.classes_per_group == 0", f"q == {C} // self.classes_per_group",
                         "self.classes_per_group >= 1"),
                       H(f"0 <= result and result < {C}", "q * self.classes_per_group == " + C,
                         "result == self.cls_to_clsgroup[old(cls)] * self.classes_per_group + self.idx_within_class[idx] % self.classes_per_group",
                         "0 <= self.cls_to_clsgroup[old(cls)] and self.cls_to_clsgroup[old(cls)] < q", "self.classes_per_group >= 1",
                         "self.idx_within_class[idx] >= 0")])
CG_GETITEM = dict(target=f"{CG}.getitem_class", self=CG_SELF, params={"idx": INT, "ctx": TOpt(VAL)}, requires=CG_REQ + IDXREQ,
                  ensures=["result == self._map_cls(idx, LabelOf(self.dataset, idx))"])
CG_GETALL = dict(target=f"{CG}.getall_class", self=CG_SELF, requires=CG_REQ,
                 ensures=[f"len(result) == {N}",
                          f"forall(lambda k: implies(0 <= k and k < {N}, result[k] == self._map_cls(k, LabelOf(self.dataset, k))))"])

# ------------------------------------------------------------------------------------------------ RandomSuperclassWrapper
RS = f"{W}/dataset_wrappers/random_superclass_wrapper.py::RandomSuperclassWrapper"
RS_SELF = dict(DS, classes_per_superclass=INT, superclass_splits=INT, og_num_classes=INT, perm=TSeq(INT, mutable=False),
               idx_within_class=TOpt(TSeq(INT, mutable=False)))
RS_REQ = ["self.classes_per_superclass >= 1 and self.superclass_splits >= 1",
          f"self.og_num_classes == cdiv({C}, self.classes_per_superclass)", f"len(self.perm) == {C}",
          f"forall(lambda c: implies(0 <= c and c < {C}, 0 <= self.perm[c] and self.perm[c] < {C}))",
          f"implies(self.idx_within_class is not None, len(val(self.idx_within_class)) == {N})",
          f"forall(lambda k: implies(self.idx_within_class is not None and 0 <= k and k < {N}, val(self.idx_within_class)[k] >= 0))",
          f"forall(lambda k: implies(0 <= k and k < {N}, LabelOf(self.dataset, k) >= 0))"]
RS_MAP = dict(target=f"{RS}._map_cls", self=RS_SELF, params={"idx": INT, "cls": INT}, inline=True, merge=False,
              requires=RS_REQ + IDXREQ + [f"0 <= cls and cls < {C}"],
              ensures=[H("self.perm[old(cls)] // self.classes_per_superclass < self.og_num_classes and self.perm[old(cls)] // self.classes_per_superclass >= 0",
                         f"0 <= self.perm[old(cls)] and self.perm[old(cls)] < {C}", f"self.og_num_classes == cdiv({C}, self.classes_per_superclass)",
                         "self.classes_per_superclass >= 1"),
                       "0 <= result and result < self.og_num_classes * self.superclass_splits"])
RS_SHAPE = dict(target=f"{RS}.getshape_class", self=RS_SELF, requires=RS_REQ,
                ensures=["result[0] == self.og_num_classes * self.superclass_splits"])
RS_GETITEM = dict(target=f"{RS}.getitem_class", self=RS_SELF, params={"idx": INT, "ctx": TOpt(VAL)}, requires=RS_REQ + IDXREQ,
                  ensures=["result == self._map_cls(idx, LabelOf(self.dataset, idx))"])
RS_GETALL = dict(target=f"{RS}.getall_class", self=RS_SELF, requires=RS_REQ,
                 ensures=[f"len(result) == {N}",
                          f"forall(lambda k: implies(0 <= k and k < {N}, result[k] == self._map_cls(k, LabelOf(self.dataset, k))))"])

# ------------------------------------------------------------------------------------------------ simple table wrappers
SW = f"{W}/dataset_wrappers/swap_label_wrapper.py::SwapLabelWrapper"
SW_SELF = dict(DS, classes=TSeq(INT, mutable=False))
SW_REQ = [f"len(self.classes) == {N}", f"forall(lambda k: implies(0 <= k and k < {N}, -1 <= self.classes[k] and self.classes[k] < {C}))"]
SW_GETITEM = dict(target=f"{SW}.getitem_class", self=SW_SELF, params={"idx": INT, "ctx": TOpt(VAL)}, requires=SW_REQ + IDXREQ,
                  ensures=["result == self.classes[idx]", f"-1 <= result and result < {C}"])
SW_GETALL = dict(target=f"{SW}.getall_class", self=SW_SELF, requires=SW_REQ,
                 ensures=[f"len(result) == {N}", f"forall(lambda k: implies(0 <= k and k < {N}, result[k] == self.getitem_class(k)))"])

RC = f"{W}/sample_wrappers/kd_random_class_wrapper.py::KDRandomClassWrapper"
RC_SELF = dict(DS, _classes=TSeq(INT, mutable=False), _num_classes=INT)
RC_REQ = [f"len(self._classes) == {N}", "forall(lambda k: implies(0 <= k and k < len(self._classes), 0 <= self._classes[k] and self._classes[k] < self._num_classes))"]
RC_GETITEM = dict(target=f"{RC}.getitem_class", self=RC_SELF, params={"idx": INT, "ctx": TOpt(VAL)}, requires=RC_REQ + IDXREQ,
                  ensures=["0 <= result and result < self.getshape_class()[0]"])
RC_GETALL = dict(target=f"{RC}.getall_class", self=RC_SELF, requires=RC_REQ,
                 ensures=[f"len(result) == {N}", f"forall(lambda k: implies(0 <= k and k < {N}, result[k] == self.getitem_class(k)))"])

AG = f"{W}/dataset_wrappers/allgather_class_wrapper.py::AllgatherClassWrapper"
AG_SELF = dict(DS, indices=TSeq(INT, mutable=False))
AG_REQ = [f"len(self.indices) == {N}", f"forall(lambda k: implies(0 <= k and k < {N}, 0 <= self.indices[k] and self.indices[k] < {N}))"]
AG_GETITEM = dict(target=f"{AG}.getitem_class", self=AG_SELF, params={"idx": INT, "ctx": TOpt(VAL)}, requires=AG_REQ + IDXREQ,
                  ensures=["result == LabelOf(self.dataset, self.indices[idx])", f"-1 <= result and result < {C}"])
AG_GETALL = dict(target=f"{AG}.getall_class", self=AG_SELF, requires=AG_REQ,
                 ensures=[f"len(result) == {N}", f"forall(lambda k: implies(0 <= k and k < {N}, result[k] == self.getitem_class(k)))"])

SM = f"{W}/sample_wrappers/semi_wrapper.py::SemiWrapper"
SM_SELF = dict(DS, semi_idxs=TSeq(INT, mutable=False))
SM_REQ = [f"forall(lambda t: implies(0 <= t and t < len(self.semi_idxs), 0 <= self.semi_idxs[t] and self.semi_idxs[t] < {N}))"]
SM_GETITEM = dict(target=f"{SM}.getitem_class", self=SM_SELF, params={"idx": INT, "ctx": TOpt(VAL)},
                  requires=SM_REQ + IDXREQ + [f"{C} >= 1"],      # a labelled dataset announces at least one class
                  ensures=["result == (-1 if exists(lambda t: 0 <= t and t < len(self.semi_idxs) and self.semi_idxs[t] == idx) "
                           "else LabelOf(self.dataset, idx))", f"-1 <= result and result < {C}"])
SM_GETALL = dict(target=f"{SM}.getall_class", self=SM_SELF, requires=SM_REQ,
                 loops={0: dict(anchor="for idx in self.semi_idxs", index="i", havoc_types={"cls": TSeq(INT)},
                                invariant=[f"len(cls) == {N}",
                                           f"forall(lambda k: implies(0 <= k and k < {N}, cls[k] == "
                                           "(-1 if exists(lambda t: 0 <= t and t < i and self.semi_idxs[t] == k) else LabelOf(self.dataset, k))))"])},
                 ensures=[f"len(result) == {N}",
                          f"forall(lambda k: implies(0 <= k and k < {N}, result[k] == "
                          "(-1 if exists(lambda t: 0 <= t and t < len(self.semi_idxs) and self.semi_idxs[t] == k) else LabelOf(self.dataset, k))))"])

# ------------------------------------------------------------------------------------------------ label smoothing
LS = f"{W}/sample_wrappers/label_smoothing_wrapper.py::LabelSmoothingWrapper"
LS_GETITEM = dict(target=f"{LS}.getitem_class", name=f"{LS}.getitem_class[multi-class]", self=dict(DS, smoothing=REAL),
                  params={"idx": INT, "ctx": TOpt(VAL)}, merge=False,
                  requires=IDXREQ + ["0 < self.smoothing and self.smoothing <= 1", f"{C} >= 2", "LabelOf(self.dataset, idx) >= 0"],
                  defs={"Y": ((), "LabelOf(self.dataset, idx)"), "OFFV": ((), f"result[(LabelOf(self.dataset, idx) + 1) % {C}]")},
                  asserts={0: "internal"},
                  ensures=[f"len(result) == {C}",
                           # non-negative, the original class keeps the largest weight, all other classes share one value, sum one
                           f"forall(lambda k: implies(0 <= k and k < {C}, result[k] >= 0 and result[Y] >= result[k]))",
                           f"forall(lambda k: implies(0 <= k and k < {C} and k != Y, result[k] == OFFV))",
                           f"result[Y] + ({C} - 1) * OFFV == 1"])

# unlabeled samples keep the -1 marker whatever the class count (also for binary datasets, where the label is one scalar)
LS_UNLABELED = dict(target=f"{LS}.getitem_class", name=f"{LS}.getitem_class[unlabeled]", self=dict(DS, smoothing=REAL),
                    params={"idx": INT, "ctx": TOpt(VAL)}, merge=False, asserts={0: "internal"},
                    requires=IDXREQ + ["0 < self.smoothing and self.smoothing <= 1", f"{C} >= 1", "LabelOf(self.dataset, idx) == -1"],
                    ensures=["not IsScalar(result)",
                             f"implies(not IsScalar(result), len(result) == {C})",
                             f"implies(not IsScalar(result), forall(lambda k: implies(0 <= k and k < {C}, result[k] == -1)))"])
# binary datasets: the scalar label moves by smoothing / 2 towards 1/2 and stays in [0, 1]
LS_BINARY = dict(target=f"{LS}.getitem_class", name=f"{LS}.getitem_class[binary]", self=dict(DS, smoothing=REAL),
                 params={"idx": INT, "ctx": TOpt(VAL)}, merge=False, asserts={0: "internal"},
                 requires=IDXREQ + ["0 < self.smoothing and self.smoothing <= 1", f"{C} == 1",
                                    "LabelOf(self.dataset, idx) == 0 or LabelOf(self.dataset, idx) == 1"],
                 ensures=["IsScalar(result)",
                          "implies(IsScalar(result), result == (1 - self.smoothing / 2 if LabelOf(self.dataset, idx) == 1 else self.smoothing / 2))",
                          "implies(IsScalar(result), 0 <= result and result <= 1)"])

CONTRACTS = [CG_MAP, CG_GETITEM, CG_GETALL, RS_MAP, RS_SHAPE, RS_GETITEM, RS_GETALL, SW_GETITEM, SW_GETALL, RC_GETITEM, RC_GETALL,
             AG_GETITEM, AG_GETALL, SM_GETITEM, SM_GETALL, LS_GETITEM, LS_UNLABELED, LS_BINARY]
