"""Sidecar contracts for KDSubset / KDConcatDataset / KDWrapper / getall helpers (C02).

Structural induction through contracts: every layer is verified once against the abstract contract of "a KD dataset
below me" (pyvc.absobj.AbsKDDataset: Len, Item(name,k), All(name)[k]==Item(name,k), Root, Wrappers...) and must
re-establish the same contract for itself with its index map composed in."""
from pyvc.values import *  # noqa
from pyvc.absobj import KDDATASET, CALLABLE

FS = "kappadata/datasets/kd_subset.py"
FC = "kappadata/datasets/kd_concat_dataset.py"
FW = "kappadata/datasets/kd_wrapper.py"
FG = "kappadata/utils/getall_as_tensor.py"

SUBSET_SELF = {"dataset": KDDATASET, "indices": TSeq(INT, mutable=False)}
SUBSET_REQ = ["forall(lambda k: implies(0 <= k and k < len(self.indices), "
              "0 <= self.indices[k] and self.indices[k] < len(self.dataset)))"]
NORM = "(idx if idx >= 0 else len(self.indices) + idx)"

SUBSET_CALL_GETITEM = dict(
    target=f"{FS}::KDSubset._call_getitem", self=SUBSET_SELF,
    params={"func": CALLABLE, "idx": INT, "args": TTuple([])},
    ghost={"g_ncalls": (INT, "0"), "g_called_arg": (INT, "-1"), "g_called": (INT, "-1")},
    requires=SUBSET_REQ + ["-len(self.indices) <= idx and idx < len(self.indices)"],
    # item k of the subset is item indices[k] of the underlying dataset (negative k counts from the end)
    ensures=[f"g_ncalls == 1 and g_called_arg == self.indices[{NORM}]"],
)
SUBSET_CALL_GETALL = dict(
    target=f"{FS}::KDSubset._call_getall", self=SUBSET_SELF, concrete={"item": "getall_class"},
    requires=SUBSET_REQ,
    ensures=["len(result) == len(self.indices)",
             "forall(lambda k: implies(0 <= k and k < len(result), result[k] == KItem(self.dataset, 'class', self.indices[k])))"],
)


def subset_getattr(item, ensures, name):
    return dict(target=f"{FS}::KDSubset.__getattr__", name=f"{FS}::KDSubset.__getattr__[{name}]", self=SUBSET_SELF,
                concrete={"item": item}, requires=SUBSET_REQ + ["len(self.indices) >= 1"], consts={"k": INT},
                ghost={"g_ncalls": (INT, "0")}, ensures=ensures)


SUBSET_GETATTR = [
    subset_getattr("getitem_class", ["implies(0 <= k and k < len(self.indices), "
                                     "result(k) == KItem(self.dataset, 'class', self.indices[k]))",
                                     "implies(-len(self.indices) <= k and k < 0, "
                                     "result(k) == KItem(self.dataset, 'class', self.indices[len(self.indices) + k]))"], "getitem"),
    subset_getattr("getall_class", ["len(result()) == len(self.indices)",
                                    "implies(0 <= k and k < len(self.indices), "
                                    "result()[k] == KItem(self.dataset, 'class', self.indices[k]))"], "getall"),
    subset_getattr("root_dataset", ["result == Root(self.dataset)"], "delegation"),
]

SUBSET_INTRO = [
    dict(target=f"{FS}::KDSubset.root_dataset", self=SUBSET_SELF, ensures=["result == Root(self.dataset)"]),
    dict(target=f"{FS}::KDSubset.all_wrappers", self=SUBSET_SELF,
         ensures=["len(result) == 1 + len(Attr(self.dataset, 'all_wrappers'))", "result[0] == self",
                  "forall(lambda k: implies(0 <= k and k < len(Attr(self.dataset, 'all_wrappers')), "
                  "result[k + 1] == Attr(self.dataset, 'all_wrappers')[k]))"]),
    dict(target=f"{FS}::KDSubset.all_wrapper_types", self=SUBSET_SELF,
         ensures=["len(result) == 1 + len(Attr(self.dataset, 'all_wrapper_types'))", "result[0] == type(self)",
                  "forall(lambda k: implies(0 <= k and k < len(Attr(self.dataset, 'all_wrapper_types')), "
                  "result[k + 1] == Attr(self.dataset, 'all_wrapper_types')[k]))"]),
    dict(target=f"{FS}::KDSubset.get_wrappers_of_type", self=SUBSET_SELF, params={"wrapper_type": VAL}, consts={"k": INT},
         defs={"LOW": ((), "CallAttr(self.dataset, 'get_wrappers_of_type', wrapper_type)")},
         ensures=["implies(type(self) == wrapper_type, len(result) == 1 + len(LOW) and result[0] == self and "
                  "implies(0 <= k and k < len(LOW), result[k + 1] == LOW[k]))",
                  "implies(not (type(self) == wrapper_type), len(result) == len(LOW) and "
                  "implies(0 <= k and k < len(LOW), result[k] == LOW[k]))"]),
    dict(target=f"{FS}::KDSubset.worker_init_fn", self=SUBSET_SELF, params={"rank": INT},
         ghost={"g_worker_init_fn": (INT, "0")}, ensures=["g_worker_init_fn == 1"]),
]

# ---------------------------------------------------------------------------------------------------------
CONCAT_SELF = {"datasets": TSeq(KDDATASET, mutable=False), "cumulative_sizes": TSeq(INT, mutable=False),
               "balanced_sampling": BOOL}
CONCAT_REQ = [
    "len(self.datasets) >= 1 and len(self.cumulative_sizes) == len(self.datasets)",
    # torch ConcatDataset.__init__: running sums of the part lengths (non-decreasing; zero-length parts allowed)
    "forall(lambda k: implies(0 <= k and k < len(self.datasets), "
    " self.cumulative_sizes[k] == (self.cumulative_sizes[k - 1] if k > 0 else 0) + len(self.datasets[k])))",
    "forall(lambda i, j: implies(0 <= i and i <= j and j < len(self.datasets), "
    " self.cumulative_sizes[i] <= self.cumulative_sizes[j]))",
]
TOTAL = "self.cumulative_sizes[len(self.datasets) - 1]"
CNORM = f"(idx if idx >= 0 else {TOTAL} + idx)"
CONCAT_LEN = dict(target=f"{FC}::KDConcatDataset.__len__", self=CONCAT_SELF, inline=True,
                  requires=CONCAT_REQ + ["not self.balanced_sampling"], ensures=[f"result == {TOTAL}"])
CONCAT_TO_IDX = dict(
    target=f"{FC}::KDConcatDataset._to_concat_idx", self=CONCAT_SELF, params={"idx": INT},
    returns=TTuple([INT, INT]),
    requires=CONCAT_REQ + ["not self.balanced_sampling", f"-{TOTAL} <= idx and idx < {TOTAL}"],
    # the unique (part, offset) with  cum[part-1] + offset == idx'  and  0 <= offset < len(part)
    ensures=["0 <= result[0] and result[0] < len(self.datasets)",
             "0 <= result[1] and result[1] < len(self.datasets[result[0]])",
             f"(self.cumulative_sizes[result[0] - 1] if result[0] > 0 else 0) + result[1] == {CNORM}"],
)
CONCAT_CALL_GETITEM = dict(
    target=f"{FC}::KDConcatDataset._call_getitem", self=CONCAT_SELF, concrete={"item": "getitem_class"},
    params={"idx": INT, "args": TTuple([])}, consts={"d": INT, "s": INT},
    requires=CONCAT_REQ + [
        "0 <= d and d < len(self.datasets) and 0 <= s and s < len(self.datasets[d])",
        # plain concat: idx (or its negative twin) addresses offset s of part d
        "implies(not self.balanced_sampling, "
        f" (idx == (self.cumulative_sizes[d - 1] if d > 0 else 0) + s) or "
        f" (idx == (self.cumulative_sizes[d - 1] if d > 0 else 0) + s - {TOTAL}))",
        # balanced sampling round-robins over the parts (non-negative idx; int(idx / n) == idx // n below 2**53)
        "implies(self.balanced_sampling, idx >= 0 and d == idx % len(self.datasets) and "
        " s == (idx // len(self.datasets)) % len(self.datasets[d]))",
    ],
    ensures=["result == KItem(self.datasets[d], 'class', s)"],
)
CONCAT_CALL_GETALL = dict(
    target=f"{FC}::KDConcatDataset._call_getall", self=CONCAT_SELF, concrete={"item": "getall_class"},
    requires=CONCAT_REQ + [
        # lower layers return python lists (the function asserts it)
        "forall(lambda d: implies(0 <= d and d < len(self.datasets), "
        " isinstance(CallAttr(self.datasets[d], 'getall_class'), list)))"],
    loops={0: dict(anchor="for dataset in self.datasets", index="i", havoc_types={"result": TSeq(VAL)},
                   invariant=["len(result) == (self.cumulative_sizes[i - 1] if i > 0 else 0)",
                              "forall(lambda d, s: implies(0 <= d and d < i and 0 <= s and s < len(self.datasets[d]), "
                              " result[(self.cumulative_sizes[d - 1] if d > 0 else 0) + s] == KItem(self.datasets[d], 'class', s)))"])},
    ensures=[f"len(result) == {TOTAL}",
             "forall(lambda d, s: implies(0 <= d and d < len(self.datasets) and 0 <= s and s < len(self.datasets[d]), "
             " result[(self.cumulative_sizes[d - 1] if d > 0 else 0) + s] == KItem(self.datasets[d], 'class', s)))"],
)
CONCAT_DISPOSE = dict(
    target=f"{FC}::KDConcatDataset.dispose", self=CONCAT_SELF, ghost={"g_dispose": (INT, "0")},
    requires=CONCAT_REQ,
    loops={0: dict(anchor="for dataset in self.datasets", index="i", invariant=["g_dispose == i"])},
    ghost_effects={"call:dispose": ["g_dispose"]},
    ensures=["g_dispose == len(self.datasets)"],
)
CONCAT_WORKER = dict(
    target=f"{FC}::KDConcatDataset.worker_init_fn", self=CONCAT_SELF, params={"rank": INT},
    ghost={"g_worker_init_fn": (INT, "0")}, requires=CONCAT_REQ,
    loops={0: dict(anchor="for dataset in self.datasets", index="i", invariant=["g_worker_init_fn == i"])},
    ghost_effects={"call:worker_init_fn": ["g_worker_init_fn"]},
    ensures=["g_worker_init_fn == len(self.datasets)"],
)

# ---------------------------------------------------------------------------------------------------------
WRAP_SELF = {"dataset": KDDATASET, "ctx_prefix": STR, "_collators": TOpt(VAL)}
WRAPPER = [
    dict(target=f"{FW}::KDWrapper.__len__", self=WRAP_SELF, ensures=["result == len(self.dataset)"]),
    dict(target=f"{FW}::KDWrapper.root_dataset", self=WRAP_SELF, ensures=["result == Root(self.dataset)"]),
    dict(target=f"{FW}::KDWrapper.all_wrappers", self=WRAP_SELF,
         ensures=["len(result) == 1 + len(Attr(self.dataset, 'all_wrappers'))", "result[0] == self",
                  "forall(lambda k: implies(0 <= k and k < len(Attr(self.dataset, 'all_wrappers')), "
                  "result[k + 1] == Attr(self.dataset, 'all_wrappers')[k]))"]),
    dict(target=f"{FW}::KDWrapper.all_wrapper_types", self=WRAP_SELF,
         ensures=["len(result) == 1 + len(Attr(self.dataset, 'all_wrapper_types'))", "result[0] == type(self)"]),
    dict(target=f"{FW}::KDWrapper.get_wrappers_of_type", self=WRAP_SELF, params={"wrapper_type": VAL}, consts={"k": INT},
         defs={"LOW": ((), "CallAttr(self.dataset, 'get_wrappers_of_type', wrapper_type)")},
         # own layer first (iff its type matches), then every match of the layers below
         ensures=["implies(type(self) == wrapper_type, len(result) == 1 + len(LOW) and result[0] == self and "
                  "implies(0 <= k and k < len(LOW), result[k + 1] == LOW[k]))",
                  "implies(not (type(self) == wrapper_type), len(result) == len(LOW) and "
                  "implies(0 <= k and k < len(LOW), result[k] == LOW[k]))"]),
    dict(target=f"{FW}::KDWrapper.dispose", self=WRAP_SELF, ghost={"g_dispose": (INT, "0")}, ensures=["g_dispose == 1"]),
    dict(target=f"{FW}::KDWrapper.worker_init_fn", self=WRAP_SELF, params={"rank": INT},
         ghost={"g_worker_init_fn": (INT, "0")}, ensures=["g_worker_init_fn == 1"]),
    dict(target=f"{FW}::KDWrapper.__getattr__", name=f"{FW}::KDWrapper.__getattr__[delegation]", self=WRAP_SELF,
         concrete={"item": "getitem_class"}, consts={"k": INT},
         ensures=["implies(0 <= k and k < len(self.dataset), result(k) == KItem(self.dataset, 'class', k))"]),
    dict(target=f"{FW}::KDWrapper.__getattr__", name=f"{FW}::KDWrapper.__getattr__[getall]", self=WRAP_SELF,
         concrete={"item": "getall_class"}, consts={"k": INT},
         ensures=["len(result()) == len(self.dataset)",
                  "implies(0 <= k and k < len(self.dataset), result()[k] == KItem(self.dataset, 'class', k))"]),
]

# ---------------------------------------------------------------------------------------------------------
GETALL = dict(
    inline=True,
    target=f"{FG}::getall", params={"dataset": KDDATASET}, concrete={"item": "class"},
    # fast path and slow path agree: either way element k is the per-sample accessor's value
    ensures=["len(result) == len(dataset)",
             "forall(lambda k: implies(0 <= k and k < len(dataset), result[k] == KItem(dataset, 'class', k)))"],
)


def getall_as(name):
    return dict(target=f"{FG}::{name}", params={"dataset": KDDATASET}, concrete={"item": "class"},
                ensures=["len(result) == len(dataset)",
                         "forall(lambda k: implies(0 <= k and k < len(dataset), result[k] == KItem(dataset, 'class', k)))"])


GETALL_AS = [getall_as("getall_as_list"), getall_as("getall_as_numpy"), getall_as("getall_as_tensor")]

CONTRACTS = ([SUBSET_CALL_GETITEM, SUBSET_CALL_GETALL] + SUBSET_GETATTR + SUBSET_INTRO +
             [CONCAT_LEN, CONCAT_TO_IDX, CONCAT_CALL_GETITEM, CONCAT_CALL_GETALL, CONCAT_DISPOSE, CONCAT_WORKER] +
             WRAPPER + [GETALL] + GETALL_AS)
