"""Sidecar contracts for the batch mix collator (C10) - lemmas only; the property itself (per-pixel tensor algebra) is decided
by the bounded runtime contract of replay/mixcollator.py."""
from pyvc.values import *  # noqa
from pyvc.libtorch import AbsRng

F = "kappadata/collators/kd_mix_collator.py"
RNGT = TAbs(lambda name, idx: AbsRng(__import__("z3").Int(name + "$key")), "np-rng")
SHUFFLE = dict(
    target=f"{F}::KDMixCollator.shuffle", self={"shuffle_mode": STR, "rng": RNGT}, merge=False,
    params={"item": TSeq(VAL, mutable=False), "permutation": TOpt(TSeq(INT, mutable=False))},
    requires=["self.shuffle_mode == 'roll' or self.shuffle_mode == 'flip' or self.shuffle_mode == 'random'",
              "implies(permutation is not None, len(val(permutation)) == len(item))",
              "forall(lambda k: implies(permutation is not None and 0 <= k and k < len(item), 0 <= val(permutation)[k] and val(permutation)[k] < len(item)))",
              "len(item) >= 1"],
    asserts={0: "reject"}, raises=("AssertionError",),
    defs={"n": ((), "len(item)")},
    ensures=[
        "len(result[0]) == n",
        # the partner of position k follows the configured shuffle mode
        "implies(n > 1 and self.shuffle_mode == 'roll', forall(lambda k: implies(0 <= k and k < n, result[0][k] == item[(k - 1) % n])))",
        "implies(n > 1 and self.shuffle_mode == 'flip', forall(lambda k: implies(0 <= k and k < n, result[0][k] == item[n - 1 - k])))",
        # random mode: one permutation, re-used when it is handed back in (image and label get the same partner)
        "implies(n > 1 and self.shuffle_mode == 'random' and permutation is not None, result[1] == val(permutation))",
        "implies(n > 1 and self.shuffle_mode == 'random', forall(lambda k: implies(0 <= k and k < n, result[0][k] == item[result[1][k]])))",
    ],
)
INIT = dict(
    target=f"{F}::KDMixCollator.__init__", self={}, merge=False,
    params={"mixup_alpha": TOpt(REAL), "cutmix_alpha": TOpt(REAL), "mixup_p": TOpt(REAL), "cutmix_p": TOpt(REAL),
            "apply_mode": STR, "lamb_mode": STR, "shuffle_mode": STR},
    raises=("AssertionError", "NotImplementedError"),
    # on every accepted constructor path the two probabilities form a distribution and the needed alpha is set
    ensures=["self.mixup_p + self.cutmix_p == 1 and self.mixup_p >= 0 and self.cutmix_p >= 0",
             "implies(self.mixup_p > 0, self.mixup_alpha is not None and val(self.mixup_alpha) > 0)",
             "implies(self.cutmix_p > 0, self.cutmix_alpha is not None and val(self.cutmix_alpha) > 0)"],
)
CONTRACTS = [SHUFFLE, INIT]
