"""Sidecar contracts for the batch mix collator (C10) - lemmas only; the property itself (per-pixel tensor algebra) is decided
by the bounded runtime contract of replay/mixcollator.py."""
from pyvc.values import *  # noqa
from pyvc.libtorch import AbsRng


F = "kappadata/collators/kd_mix_collator.py"
RNGT = TAbs(lambda name, idx: AbsRng(__import__("z3").Int(name + "$key")), "np-rng")
SHUFFLE = dict(
    target=f"{F}::KDMixCollator.shuffle", self={"shuffle_mode": STR, "rng": RNGT}, merge=False,
    params={"item": TSeq(VAL, mutable=False), "permutation": TOpt(TSeq(INT, mutable=False))},
    requires=["self.shuffle_mode == 'roll' or self.shuffle_mode == 'flip' or self.shuffle_mode == 'random'",
              "implies(permutation is not None, len(val(permutation)) == len(item))",
              "forall(lambda k: implies(permutation is not None and 0 <= k and k < len(item), 0 <= val(permutation)[k] and val(permutation)[k] < len(item)))",
              "len(item) >= 1"],
    asserts={0: "reject"}, raises=("AssertionError",),
    defs={"n": ((), "len(item)")},
    ensures=[
        "len(result[0]) == n",
        # the partner of position k follows the configured shuffle mode
        "implies(n > 1 and self.shuffle_mode == 'roll', forall(lambda k: implies(0 <= k and k < n, result[0][k] == item[(k - 1) % n])))",
        "implies(n > 1 and self.shuffle_mode == 'flip', forall(lambda k: implies(0 <= k and k < n, result[0][k] == item[n - 1 - k])))",
        # random mode: one permutation, re-used when it is handed back in (image and label get the same partner)
        "implies(n > 1 and self.shuffle_mode == 'random' and permutation is not None, result[1] == val(permutation))",
        "implies(n > 1 and self.shuffle_mode == 'random', forall(lambda k: implies(0 <= k and k < n, result[0][k] == item[result[1][k]])))",
    ],
)
INIT = dict(
    target=f"{F}::KDMixCollator.__init__", self={}, merge=False,
    params={"mixup_alpha": TOpt(REAL), "cutmix_alpha": TOpt(REAL), "mixup_p": TOpt(REAL), "cutmix_p": TOpt(REAL),
            "apply_mode": STR, "lamb_mode": STR, "shuffle_mode": STR},
    raises=("AssertionError", "NotImplementedError"),
    # on every accepted constructor path the two probabilities form a distribution and the needed alpha is set
    ensures=["self.mixup_p + self.cutmix_p == 1 and self.mixup_p >= 0 and self.cutmix_p >= 0",
             "implies(self.mixup_p > 0, self.mixup_alpha is not None and val(self.mixup_alpha) > 0)",
             "implies(self.cutmix_p > 0, self.cutmix_alpha is not None and val(self.cutmix_alpha) > 0)"],
)
# the cutmix box: inside the image, and the weight handed back is exactly the retained pixel fraction
from pyvc.libtensor import MIX_LIB
BBOX = dict(
    target=f"{F}::KDMixCollator.get_random_bbox", self={"rng": RNGT}, params={"h": INT, "w": INT, "lamb": TSeq(REAL, mutable=False, kind=1)},
    lib=MIX_LIB, raises=(),
    requires=["h >= 1 and w >= 1", "forall(lambda k: implies(0 <= k and k < len(lamb), 0 <= lamb[k] and lamb[k] <= 1))"],
    ensures=["len(result[0]) == len(lamb) and len(result[1]) == len(lamb)",
             # (top, left, bot, right) with 0 <= top <= bot <= h and 0 <= left <= right <= w
             "forall(lambda k: implies(0 <= k and k < len(lamb), 0 <= result[0][k][0] and result[0][k][0] <= result[0][k][2] and result[0][k][2] <= h))",
             "forall(lambda k: implies(0 <= k and k < len(lamb), 0 <= result[0][k][1] and result[0][k][1] <= result[0][k][3] and result[0][k][3] <= w))",
             # retained fraction: the weight handed back is 1 - box area / image area ...
             "forall(lambda k: implies(0 <= k and k < len(lamb), result[1][k] == 1 - ((result[0][k][2] - result[0][k][0]) * (result[0][k][3] - result[0][k][1])) / (h * w)))",
             # ... and the box area lies between 0 and the image area (so the weight lies in [0, 1])
             {"forall": "k", "range": "0 <= k and k < len(lamb)", "asserts": [
                 "0 <= result[0][k][2] - result[0][k][0] and result[0][k][2] - result[0][k][0] <= h",
                 "0 <= result[0][k][3] - result[0][k][1] and result[0][k][3] - result[0][k][1] <= w",
                 H("(result[0][k][2] - result[0][k][0]) * (result[0][k][3] - result[0][k][1]) <= h * (result[0][k][3] - result[0][k][1])",
                   "0 <= result[0][k][2] - result[0][k][0] and result[0][k][2] - result[0][k][0] <= h", "0 <= result[0][k][3] - result[0][k][1]"),
                 H("h * (result[0][k][3] - result[0][k][1]) <= h * w", "result[0][k][3] - result[0][k][1] <= w", "h >= 1"),
                 H("(result[0][k][2] - result[0][k][0]) * (result[0][k][3] - result[0][k][1]) >= 0", "0 <= result[0][k][2] - result[0][k][0]", "0 <= result[0][k][3] - result[0][k][1]"),
                 "(result[0][k][2] - result[0][k][0]) * (result[0][k][3] - result[0][k][1]) <= h * w",
             ]}],
)
# ------------------------------------------------------------------ collate, lamb_mode == "batch" (one weight / one box per batch)
from pyvc.libtensor import BT_GHOST, mix_externals
N = "BatchN()"


def partner_clause(rows, orig, mix):
    """for every shuffle mode: row i of `rows` is mix(orig(i), orig(p(i))) with p the mode's partner map"""
    def q(pexpr, guard):
        return f"implies({guard}, forall(lambda i: implies(0 <= i and i < {N}, SameTensor(RowOf({rows}, i), {mix.format(a=f'{orig}(i)', b=f'{orig}({pexpr})')}))))"
    return [q("i", f"{N} == 1"),
            q(f"(i - 1) % {N}", f"{N} > 1 and self.shuffle_mode == 'roll'"),
            q(f"{N} - 1 - i", f"{N} > 1 and self.shuffle_mode == 'flip'"),
            q("val(permutation)[i]", f"{N} > 1 and self.shuffle_mode == 'random'")]


MIXUP = "TMixOf({a}, {b}, lamb[0])"
PASTE = "TPasteOf({a}, {b}, bbox[0][0], bbox[0][1], bbox[0][2], bbox[0][3])"
COLLATE_BATCH = dict(
    target=f"{F}::KDMixCollator.collate", name="KDMixCollator.collate[lamb_mode=batch]",
    self={"mixup_alpha": TOpt(REAL), "cutmix_alpha": TOpt(REAL), "mixup_p": REAL, "cutmix_p": REAL, "apply_mode": STR, "lamb_mode": STR,
          "shuffle_mode": STR, "rng": RNGT},
    params={"batch": VAL, "dataset_mode": VAL, "ctx": TOpt(TDict())}, ghost=BT_GHOST, lib=MIX_LIB, externals=mix_externals(),
    merge=False,        # bbox is bound on the cutmix paths only; the clauses that name it are evaluated per path
    raises=("AssertionError",),
    requires=["self.lamb_mode == 'batch'", "self.apply_mode == 'batch' or self.apply_mode == 'sample'",
              "self.shuffle_mode == 'roll' or self.shuffle_mode == 'flip' or self.shuffle_mode == 'random'",
              "self.mixup_p >= 0 and self.cutmix_p >= 0 and self.mixup_p + self.cutmix_p == 1",
              "implies(self.mixup_p > 0, self.mixup_alpha is not None)", "implies(self.cutmix_p > 0, self.cutmix_alpha is not None)"],
    # witnesses: the locals lamb (the weight used, after the box adjustment for cutmix), permutation, use_cutmix, bbox, x, y
    ensures_here=(
        ["len(lamb) == 1 and 0 <= lamb[0] and lamb[0] <= 1"] +
        # the label is mixed with partner p(i) and the weight lamb ...
        partner_clause("y", "MixYRow", MIXUP) +
        # ... the image with the same partner and the same weight (mixup) ...
        [f"implies(not use_cutmix, {c})" for c in partner_clause("x", "MixXRow", MIXUP)] +
        # ... or with one box of the same partner pasted, the weight being the retained pixel fraction (cutmix)
        [f"implies(use_cutmix, {c})" for c in partner_clause("x", "MixXRow", PASTE)] +
        ["implies(use_cutmix, 0 <= bbox[0][0] and bbox[0][0] <= bbox[0][2] and bbox[0][2] <= ImgH() and 0 <= bbox[0][1] and bbox[0][1] <= bbox[0][3] and bbox[0][3] <= ImgW())",
         "implies(use_cutmix, lamb[0] == 1 - ((bbox[0][2] - bbox[0][0]) * (bbox[0][3] - bbox[0][1])) / (ImgH() * ImgW()))",
         # the weight reported in the context is the weight used
         "implies(ctx is not None, ctx['lambda'] is lamb)"]),
)
# ------------------------------------------------------------------ collate, lamb_mode == "sample" (one weight / box per sample)
PM = "x2_indices[{t}]"           # the partner of sample t: the shuffled index tensor (same permutation as the labels')
ROW_CUT = "SameTensor(RowOf(x, t), TPasteOf(MixXRow(t), MixXRow(x2_indices[t]), bbox[t][0], bbox[t][1], bbox[t][2], bbox[t][3]))"
ROW_MIX = "SameTensor(RowOf(x, t), TMixOf(MixXRow(t), MixXRow(x2_indices[t]), lamb[t]))"
PARTNER_IS = [f"implies({N} == 1, x2_indices[0] == 0)",
              f"implies({N} > 1 and self.shuffle_mode == 'roll', forall(lambda i: implies(0 <= i and i < {N}, x2_indices[i] == (i - 1) % {N})))",
              f"implies({N} > 1 and self.shuffle_mode == 'flip', forall(lambda i: implies(0 <= i and i < {N}, x2_indices[i] == {N} - 1 - i)))",
              f"implies({N} > 1 and self.shuffle_mode == 'random', forall(lambda i: implies(0 <= i and i < {N}, x2_indices[i] == val(permutation)[i])))"]
COLLATE_SAMPLE = dict(
    target=f"{F}::KDMixCollator.collate", name="KDMixCollator.collate[lamb_mode=sample]",
    self=COLLATE_BATCH["self"], params=COLLATE_BATCH["params"], ghost=BT_GHOST, lib=MIX_LIB, externals=mix_externals(),
    raises=("AssertionError",),
    requires=["self.lamb_mode == 'sample'"] + COLLATE_BATCH["requires"][1:] + [
        "implies(self.mixup_p > 0, self.mixup_alpha is not None)", "implies(self.cutmix_p > 0, self.cutmix_alpha is not None)"],
    loops={0: dict(anchor="for i in range(batch_size)", index="i", invariant=[
        f"batch_size == {N} and len(x2_indices) == {N} and len(lamb) == {N} and len(use_cutmix) == {N}",
        # partners are distinct, so a partner row of the clone that a later sample needs has not been touched yet
        f"forall(lambda a, b: implies(0 <= a and a < b and b < {N}, x2_indices[a] != x2_indices[b]))",
        f"forall(lambda t: implies(0 <= t and t < {N}, 0 <= x2_indices[t] and x2_indices[t] < {N}))",
        f"forall(lambda t: implies(i < t and t < {N}, x2_indices[t] != x2_indices[i]))",
        f"forall(lambda t: implies(0 <= t and t < i and use_cutmix[t], {ROW_CUT}))",
        f"forall(lambda t: implies(0 <= t and t < i and not use_cutmix[t], {ROW_MIX}))",
        f"forall(lambda t: implies(i <= t and t < {N}, SameTensor(RowOf(x, t), MixXRow(t))))",
        f"forall(lambda t: implies(i <= t and t < {N}, SameTensor(RowOf(x_clone, x2_indices[t]), MixXRow(x2_indices[t]))))",
        # the labels are not touched by the image loop
        f"forall(lambda t: implies(0 <= t and t < {N}, SameTensor(RowOf(y, t), MixYRow(t))))",
        f"implies(self.cutmix_p > 0, len(bbox) == {N})", f"forall(lambda t: implies(0 <= t and t < {N} and use_cutmix[t], self.cutmix_p > 0))",
    ])},
    ensures_here=(
        [f"len(lamb) == {N}"] + PARTNER_IS +
        # sample t's image: its own operation, box and weight, partner x2_indices[t] ...
        [f"forall(lambda t: implies(0 <= t and t < {N} and use_cutmix[t], {ROW_CUT}))",
         f"forall(lambda t: implies(0 <= t and t < {N} and not use_cutmix[t], {ROW_MIX}))"] +
        # ... and its label: the same partner and the same weight (per shuffle mode; x2_indices[t] is that partner, see above)
        [c.replace("lamb[0]", "lamb[i]") for c in partner_clause("y", "MixYRow", MIXUP)] + [
         # cutmix samples: box inside the image, weight == retained pixel fraction
         f"forall(lambda t: implies(0 <= t and t < {N} and use_cutmix[t], 0 <= bbox[t][0] and bbox[t][0] <= bbox[t][2] and bbox[t][2] <= ImgH() and "
         f"0 <= bbox[t][1] and bbox[t][1] <= bbox[t][3] and bbox[t][3] <= ImgW()))",
         "implies(ctx is not None, ctx['lambda'] is lamb)"]),
)
for _c in (BBOX, COLLATE_BATCH, COLLATE_SAMPLE):
    _c["spec_nowrap"] = True          # symbolic spec subscripts are written under 0 <= k guards and do not wrap around
BBOX["returns"] = TTuple([TSeq(TTuple([INT, INT, INT, INT]), mutable=False, kind=1), TSeq(REAL, mutable=False, kind=1)])
SHUFFLE["inline"] = True          # call sites execute the body on whatever kind of batch item they pass
CONTRACTS = [SHUFFLE, INIT, BBOX, COLLATE_BATCH, COLLATE_SAMPLE]
