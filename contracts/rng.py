"""Sidecar contracts for generator injection (C07 / C09): every set_rng override forwards the injected generator to each
member that is a KD transform and (where the class owns one) rebinds self.rng to the *injected* generator."""
from pyvc.values import *  # noqa
from pyvc.absobj import TRANSFORM

T = "kappadata/transforms"
GH = {"g_rng_set": (TSeq(BOOL, mutable=False), None), "g_rng": (TSeq(VAL, mutable=False), None)}
RNG = {"rng": VAL}


def single(file, cls, member, extra_self=None, guard_kd=False):
    pre = f"IsKD(self.{member})" if guard_kd else "True"
    return dict(target=f"{T}/{file}::{cls}.set_rng", self=dict({member: TRANSFORM}, **(extra_self or {})), params=RNG, ghost=GH,
                requires=["not g_rng_set[0]"],
                ensures=[f"implies({pre}, g_rng_set[0] and g_rng[0] == rng)"])


COMPOSE = dict(
    target=f"{T}/base/kd_compose_transform.py::KDComposeTransform.set_rng",
    self={"transforms": TSeq(TRANSFORM, mutable=False)}, params=RNG, ghost=GH,
    requires=["forall(lambda t: implies(0 <= t and t < len(self.transforms), not g_rng_set[t]))"],
    loops={0: dict(anchor="for t in self.transforms", index="i",
                   invariant=["forall(lambda t: implies(0 <= t and t < i and IsKD(self.transforms[t]), g_rng_set[t] and g_rng[t] == rng))"])},
    ensures=["forall(lambda t: implies(0 <= t and t < len(self.transforms) and IsKD(self.transforms[t]), g_rng_set[t] and g_rng[t] == rng))"],
)
STOCHASTIC = dict(target=f"{T}/base/kd_stochastic_transform.py::KDStochasticTransform.set_rng", self={"rng": VAL}, params=RNG, inline=True,
                  ensures=["self.rng == rng", "result == self"])
OWN = {"rng": VAL, "p": REAL}
CONTRACTS = [
    COMPOSE, STOCHASTIC,
    single("kd_random_apply.py", "KDRandomApply", "transform", OWN, guard_kd=True),
    single("patchwise_transform.py", "PatchwiseTransform", "transform"),
    single("base/kd_scheduled_transform.py", "KDScheduledTransform", "transform", guard_kd=True),
    single("kd_random_color_jitter.py", "KDRandomColorJitter", "color_jitter", OWN),
    single("kd_random_gaussian_blur_pil.py", "KDRandomGaussianBlurPIL", "gaussian_blur", OWN),
    single("kd_random_gaussian_blur_tv.py", "KDRandomGaussianBlurTV", "gaussian_blur", OWN),
    single("kd_random_threshold.py", "KDRandomThreshold", "threshold", OWN),
    single("kd_random_additive_gaussian_noise.py", "KDRandomAdditiveGaussianNoise", "noise", OWN),
    single("kd_three_augment.py", "KDThreeAugment", "gaussian_blur", dict(OWN, grayscale=TRANSFORM, solarize=TRANSFORM)),
    single("kd_simple_random_crop.py", "KDSimpleRandomCrop", "random_crop", OWN),
]
for c in CONTRACTS[2:]:
    if "rng" in c["self"]:
        c["ensures"] = c["ensures"] + ["self.rng == rng"]
