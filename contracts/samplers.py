"""Sidecar contracts for the rank-aware samplers (C12, C13)."""
from pyvc.values import *  # noqa
from pyvc.absobj import DATASET

FD = "kappadata/samplers/distributed_sampler.py"
FR = "kappadata/samplers/random_sampler.py"
FW = "kappadata/samplers/weighted_sampler.py"
FC = "kappadata/samplers/class_balanced_sampler.py"

# ---------------------------------------------------------------------------------------------------------
# DistributedSampler.__iter__ (repeated-augmentation path; num_repeats == 1 delegates to torch, trusted)
DIST_DEFS = {
    "n": ((), "len(self.dataset)"), "W": ((), "self.num_replicas"), "R": ((), "self.num_repeats"),
    # the global draw of one epoch: a function of seed + epoch only (identical on every rank);
    # every drawn sample occupies R consecutive slots; trailing entries are dropped or wrapped around
    "G": (("t",), "Perm(self.seed + self.epoch, 0, n, (t % n) // R)"),
}
DIST_ITER = dict(
    merge=False,
    target=f"{FD}::DistributedSampler.__iter__",
    self={"dataset": DATASET, "num_repeats": INT, "shuffle": BOOL, "seed": INT, "epoch": INT, "drop_last": BOOL,
          "total_size": INT, "num_samples": INT, "rank": INT, "num_replicas": INT},
    defs=DIST_DEFS,
    requires=[
        "R >= 1 and W >= 1 and 0 <= self.rank and self.rank < W and n >= 0",
        # torch.utils.data.DistributedSampler.__init__ (documented formulas, trusted)
        "self.num_samples == (cdiv(n - W, W) if (self.drop_last and n % W != 0) else cdiv(n, W))",
        "self.total_size == self.num_samples * W",
    ],
    asserts={0: "reject", 1: "internal", 2: "internal"},
    yields={
        0: dict(anchor="super().__iter__()", delegate=True),
        1: dict(anchor="yield from indices", asserts=[
            # every rank's stream has exactly len(sampler) entries ...
            "len(value) == self.num_samples",
            H("implies(self.drop_last, self.total_size <= n)",
              "self.num_samples == (cdiv(n - W, W) if (self.drop_last and n % W != 0) else cdiv(n, W))",
              "self.total_size == self.num_samples * W", "W >= 1", "n >= 0"),
            H("implies(not self.drop_last, self.total_size >= n)",
              "self.num_samples == (cdiv(n - W, W) if (self.drop_last and n % W != 0) else cdiv(n, W))",
              "self.total_size == self.num_samples * W", "W >= 1", "n >= 0"),
            # ... and is the rank-strided slice of the one global draw (proved for an arbitrary position k)
            {"forall": "k", "range": "0 <= k and k < len(value)", "asserts": [
                H("self.rank + k * W < self.total_size and self.rank + k * W >= 0", "0 <= k and k < self.num_samples",
                  "0 <= self.rank and self.rank < W", "self.total_size == self.num_samples * W", "W >= 1"),
                H("implies(n > 0 and self.rank + k * W < n, (self.rank + k * W) % n == self.rank + k * W)",
                  "self.rank + k * W >= 0"),
                H("implies(n > 0 and n <= self.rank + k * W and self.rank + k * W < 2 * n, "
                  "(self.rank + k * W) % n == self.rank + k * W - n)", "self.rank + k * W >= 0"),
                H("implies(n > 0 and self.rank + k * W >= n, (self.rank + k * W - n) % n == (self.rank + k * W) % n)",
                  "self.rank + k * W >= 0"),
                "value[k] == G(self.rank + k * W)",
            ]},
        ]),
    },
)


# ---------------------------------------------------------------------------------------------------------
GEN = TAbs(lambda name, idx: __import__("pyvc.libtorch", fromlist=["x"]).AbsGenerator(z3_int(name)), "torch.Generator")


def z3_int(name):
    import z3
    return z3.Int(name + "$key")


RAND_ITER = dict(
    target=f"{FR}::RandomSampler.__iter__",
    self={"data_source": DATASET, "generator": TOpt(GEN), "replacement": BOOL, "num_repeats": INT},
    defs={"n": ((), "len(self.data_source)"), "R": ((), "self.num_repeats")},
    requires=["R >= 1 and n >= 0"],
    yields={
        0: dict(anchor="super().__iter__()", delegate=True),
        1: dict(anchor="repeat_interleave", asserts=[
            "len(value) == n",
            # every drawn sample occupies R consecutive slots of the single draw taken from the generator
            "forall(lambda k: implies(0 <= k and k < n, value[k] == "
            "(RandIntF(GenKey(generator), 0, n, k // R) if self.replacement else Perm(GenKey(generator), 0, n, k // R))))",
        ]),
    },
)

WEIGHTED_SELF = {"dataset": DATASET, "weights": TSeq(REAL, mutable=False), "size": TOpt(INT), "seed": INT, "rank": INT,
                 "world_size": INT, "epoch": INT}
WEIGHTED_REQ = ["len(self.weights) == len(self.dataset)", "self.world_size >= 1",
                "0 <= self.rank and self.rank < self.world_size",
                "implies(self.size is not None, 0 <= val(self.size))"]
WEIGHTED_DEFS = {"EL": ((), "val(self.size) if self.size is not None else len(self.dataset)"), "W": ((), "self.world_size")}
WEIGHTED_EL = dict(target=f"{FW}::WeightedSampler.effective_length", inline=True, asserts={0: "reject"},
                   self=WEIGHTED_SELF, defs=WEIGHTED_DEFS, requires=WEIGHTED_REQ,
                   ensures=["result == EL"])
WEIGHTED_LEN = dict(target=f"{FW}::WeightedSampler.__len__", inline=True, self=WEIGHTED_SELF, defs=WEIGHTED_DEFS,
                    requires=WEIGHTED_REQ, ensures=["result == EL // W"])
WEIGHTED_ITER = dict(
    merge=False,
    target=f"{FW}::WeightedSampler.__iter__",
    self=WEIGHTED_SELF, defs=WEIGHTED_DEFS, requires=WEIGHTED_REQ,
    yields={0: dict(anchor="yield from indices", asserts=[
        # per-rank stream: len(sampler) entries, the rank-strided slice of ONE global draw keyed by seed + epoch
        H("(EL - self.rank + W - 1) // W >= EL // W", "0 <= self.rank and self.rank < W", "EL >= 0", "W >= 1"),
        "len(value) == EL // W",
        "forall(lambda k: implies(0 <= k and k < len(value), value[k] == MultiF(self.seed + self.epoch, 0, EL, self.rank + k * W)))",
        # C13: valid indices, never a repeat within an epoch
        "forall(lambda k: implies(0 <= k and k < len(value), 0 <= value[k] and value[k] < len(self.dataset)))",
        "forall(lambda a, b: implies(0 <= a and a < b and b < len(value), value[a] != value[b]))",
    ])},
)

CB_SELF = {"indices_per_class": TSeq(TSeq(INT, mutable=False), mutable=False), "samples_per_class": INT, "shuffle": BOOL,
           "seed": INT, "epoch": INT, "rank": INT, "world_size": INT, "num_classes": INT}
CB_REQ = ["len(self.indices_per_class) == self.num_classes", "self.num_classes >= 1", "self.samples_per_class >= 0",
          "self.world_size >= 1", "0 <= self.rank and self.rank < self.world_size",
          # constructor: every class occurs (assert len(unique) == num_classes)
          "forall(lambda c: implies(0 <= c and c < self.num_classes, len(self.indices_per_class[c]) >= 1))"]
CB_DEFS = {"SPC": ((), "self.samples_per_class"), "W": ((), "self.world_size"), "EL": ((), "self.num_classes * SPC")}
CB_EL = dict(target=f"{FC}::ClassBalancedSampler.effective_length", inline=True, self=CB_SELF, defs=CB_DEFS, requires=CB_REQ,
             ensures=["result == EL"])
CB_LEN = dict(target=f"{FC}::ClassBalancedSampler.__len__", inline=True, self=CB_SELF, defs=CB_DEFS, requires=CB_REQ,
              ensures=["result == EL // W"])
CB_ITER = dict(
    target=f"{FC}::ClassBalancedSampler.__iter__",
    self=CB_SELF, defs=CB_DEFS, requires=CB_REQ,
    loops={
        0: dict(anchor="for indices_per_class in self.indices_per_class", index="c",
                # over all ranks together: exactly samples_per_class indices of every class
                invariant=["FlatLen(indices) == c * SPC"]),
        1: dict(anchor="while remaining_indices > 0",
                invariant=["0 <= remaining_indices and remaining_indices <= SPC",
                           "FlatLen(indices) == c * SPC + (SPC - remaining_indices)",
                           "len(indices_per_class) >= 1"],
                variant="remaining_indices"),
    },
    yields={0: dict(anchor="yield from indices", asserts=["len(value) == EL // W"])},
)

FS = "kappadata/samplers/semi_sampler.py"
SEMI_SELF = {"num_labeled": INT, "num_unlabeled": INT, "world_size": INT, "length_mode": STR,
             "labeled_idxs": TSeq(INT, mutable=False), "unlabeled_idxs": TSeq(INT, mutable=False)}
SEMI_REQ = ["self.num_labeled >= 1 and self.num_unlabeled >= 1 and self.world_size >= 1",
            "self.length_mode == 'labeled' or self.length_mode == 'unlabeled' or self.length_mode == 'all'"]
SEMI_DEFS = {"CH": ((), "len(self.labeled_idxs) // self.num_labeled if self.length_mode == 'labeled' else "
                        "(len(self.unlabeled_idxs) // self.num_unlabeled if self.length_mode == 'unlabeled' else "
                        "(len(self.labeled_idxs) + len(self.unlabeled_idxs)) // (self.num_labeled + self.num_unlabeled))")}
SEMI_EL = dict(target=f"{FS}::SemiSampler.effective_length", inline=True, self=SEMI_SELF, requires=SEMI_REQ, defs=SEMI_DEFS,
               ensures=["result == CH * (self.num_labeled + self.num_unlabeled)"])
SEMI_LEN = dict(target=f"{FS}::SemiSampler.__len__", inline=True, self=SEMI_SELF, requires=SEMI_REQ, defs=SEMI_DEFS,
                ensures=["result == (CH * (self.num_labeled + self.num_unlabeled)) // self.world_size"])

CONTRACTS = [SEMI_EL, SEMI_LEN, DIST_ITER, RAND_ITER, WEIGHTED_EL, WEIGHTED_LEN, WEIGHTED_ITER, CB_EL, CB_LEN, CB_ITER]

# ---------------------------------------------------------------------------------------------------------
# SemiSampler.__init__: the two pools partition the dataset by the -1 marker (each pool strictly increasing, sound and complete) -
# so every index the iterator takes from labeled_idxs / unlabeled_idxs is valid for the dataset and of the promised kind
from pyvc.absobj import LABELDATASET


def _ext_rank(args, kwargs, st, eng):
    """get_rank(): a non-negative integer of the process group of the moment (uninterpreted; get_world_size(): a positive one)"""
    import z3
    from pyvc.state import uid
    r = z3.Int(uid("dist_rank"))
    return VInt(z3.If(r >= 0, r, 0))


def _ext_world(args, kwargs, st, eng):
    import z3
    from pyvc.state import uid
    r = z3.Int(uid("dist_world_size"))
    return VInt(z3.If(r >= 1, r, 1))


def _pool(attr, cond):
    lab = f"LabelOf(dataset, self.{attr}[k])"
    return [f"forall(lambda k: implies(0 <= k and k + 1 < len(self.{attr}), self.{attr}[k] < self.{attr}[k + 1]))",
            f"forall(lambda k: implies(0 <= k and k < len(self.{attr}), 0 <= self.{attr}[k] and self.{attr}[k] < len(dataset) and "
            f"{cond.format(l=lab)}))",
            f"forall(lambda j: implies(0 <= j and j < len(dataset) and {cond.format(l='LabelOf(dataset, j)')}, "
            f"exists(lambda k: 0 <= k and k < len(self.{attr}) and self.{attr}[k] == j)))"]


SEMI_INIT = dict(
    target=f"{FS}::SemiSampler.__init__", self={}, merge=False,
    params={"dataset": LABELDATASET, "num_labeled": INT, "num_unlabeled": INT, "rank": TOpt(INT), "world_size": TOpt(INT), "seed": INT,
            "length_mode": STR},
    externals={"kappadata/utils/distributed.py::get_rank": _ext_rank, "kappadata/utils/distributed.py::get_world_size": _ext_world},
    asserts={0: "reject", 1: "reject", 2: "reject", 3: "reject"},
    # domain: an explicitly given world size is a positive integer (the code takes any truthy value as it is)
    requires=["implies(world_size is not None, val(world_size) >= 1)"],
    ensures=_pool("labeled_idxs", "{l} != -1") + _pool("unlabeled_idxs", "{l} == -1") +
            ["len(self.labeled_idxs) >= 1 and len(self.unlabeled_idxs) >= 1", "self.num_labeled >= 1 and self.num_unlabeled >= 1",
             "self.world_size >= 1", "self.length_mode == 'labeled' or self.length_mode == 'unlabeled' or self.length_mode == 'all'"],
)

# (ClassBalancedSampler.__init__ is NOT under contract: its list comprehension of per-class filters needs one filter instance per
#  symbolic class, which the comprehension model of the engine does not provide - a spurious refutation was the result, so the
#  contract was withdrawn rather than registered; the constructor's pools are covered by the bounded stand-in only.)
