"""Sidecar contracts for the seeded sample wrappers (C08): with a seed, every KD transform that can draw is handed the
generator default_rng(seed + idx) before it is applied - on every path, for every member / view config."""
from pyvc.values import *  # noqa
from pyvc.absobj import KDDATASET, TRANSFORM

W = "kappadata/wrappers/sample_wrappers"
GH = {"g_rng_set": (TSeq(BOOL, mutable=False), None), "g_rng_key": (TSeq(INT, mutable=False), None),
      "g_rng": (TSeq(VAL, mutable=False), None), "g_napplied": (INT, "0"), "g_applied": (TSeq(BOOL, mutable=False), None)}

BASE_GETITEM = dict(
    target=f"{W}/base/transform_wrapper_base.py::TransformWrapperBase._getitem",
    self={"dataset": KDDATASET, "transform": TRANSFORM, "seed": TOpt(INT)}, params={"item": VAL, "idx": INT, "ctx": TOpt(TDict())},
    ghost=GH, requires=["not g_rng_set[0]"], inline=True,      # call sites execute the body (the ghost call maps are its effect)
    ensures=[
        # the stream key is seed + idx itself (different indices, different streams) and reaches every KD transform
        "implies(self.seed is not None and IsKD(self.transform), g_rng_set[0] and g_rng_key[0] == val(self.seed) + idx)",
        "g_napplied == 1",
    ],
)

CFG = TRec("KDMultiViewConfig", {"n_views": INT, "transform": TRANSFORM})
MULTIVIEW = dict(
    target=f"{W}/kd_multi_view_wrapper.py::KDMultiViewWrapper.getitem_x",
    self={"dataset": KDDATASET, "transform_configs": TSeq(CFG, mutable=False), "seed": TOpt(INT)},
    params={"idx": INT, "ctx": TOpt(TDict())}, ghost=GH,
    requires=["0 <= idx and idx < len(self.dataset)",
              "forall(lambda c: implies(0 <= c and c < len(self.transform_configs), not g_rng_set[c] and self.transform_configs[c].n_views >= 0))"],
    loops={
        0: dict(anchor="for config in self.transform_configs", index="c", havoc_types={"x": TSeq(VAL)},
                invariant=["forall(lambda t: implies(0 <= t and t < c and self.seed is not None and IsKD(self.transform_configs[t].transform), "
                           "g_rng_set[t] and g_rng_key[t] == val(self.seed) + idx))"]),
        1: dict(anchor="for _ in range(config.n_views)", index="v", havoc_types={"x": TSeq(VAL)},
                invariant=["forall(lambda t: implies(0 <= t and t <= c and self.seed is not None and IsKD(self.transform_configs[t].transform), "
                           "g_rng_set[t] and g_rng_key[t] == val(self.seed) + idx))"]),
    },
    ensures=["forall(lambda t: implies(0 <= t and t < len(self.transform_configs) and self.seed is not None and "
             "IsKD(self.transform_configs[t].transform), g_rng_set[t] and g_rng_key[t] == val(self.seed) + idx))"],
)

SEMSEG = dict(
    target=f"{W}/semseg_transform_wrapper.py::SemsegTransformWrapper.getitem_xsemseg",
    self={"dataset": KDDATASET, "transforms": TSeq(TRANSFORM, mutable=False), "seed": TOpt(INT)},
    params={"idx": INT, "ctx": TOpt(TDict())}, ghost=GH,
    requires=["0 <= idx and idx < len(self.dataset)",
              "forall(lambda t: implies(0 <= t and t < len(self.transforms), not g_rng_set[t]))"],
    loops={0: dict(anchor="for transform in self.transforms", index="i", havoc_types={"x": VAL, "semseg": VAL},
                   invariant=["forall(lambda t: implies(0 <= t and t < i and self.seed is not None and IsKD(self.transforms[t]), "
                              "g_rng_set[t] and g_rng_key[t] == val(self.seed) + idx))", "g_napplied == i"])},
    ensures=["forall(lambda t: implies(0 <= t and t < len(self.transforms) and self.seed is not None and IsKD(self.transforms[t]), "
             "g_rng_set[t] and g_rng_key[t] == val(self.seed) + idx))",
             "g_napplied == len(self.transforms)"],
)

# every public accessor of the transform wrappers goes through _getitem exactly once with its own index (so the fused
# "x class" path of XTransformWrapper is seeded like the plain one)
SEEDED_ENS = ["implies(self.seed is not None and IsKD(self.transform), g_rng_set[0] and g_rng_key[0] == val(self.seed) + idx)", "g_napplied == 1"]


def accessor(file, cls, fn):
    return dict(target=f"{W}/{file}::{cls}.{fn}", self={"dataset": KDDATASET, "transform": TRANSFORM, "seed": TOpt(INT)},
                self_class=f"{W}/{file}::{cls}", params={"idx": INT, "ctx": TOpt(TDict())}, ghost=GH,
                requires=["not g_rng_set[0]", "0 <= idx and idx < len(self.dataset)"], ensures=SEEDED_ENS)


ACCESSORS = [accessor("x_transform_wrapper.py", "XTransformWrapper", "getitem_x"),
             accessor("x_transform_wrapper.py", "XTransformWrapper", "getitem_xclass"),
             accessor("source_transform_wrapper.py", "SourceTransformWrapper", "getitem_source"),
             accessor("target_transform_wrapper.py", "TargetTransformWrapper", "getitem_target"),
             accessor("y_transform_wrapper.py", "YTransformWrapper", "getitem_y")]

CONTRACTS = [BASE_GETITEM, MULTIVIEW, SEMSEG] + ACCESSORS
