"""Sidecar contracts for the geometric transforms (C14).

An image is the abstract object of pyvc/libimg.py (width, height, channels, per-channel affine value map). The torchvision functional
operations are assumed contracts that (a) oblige the box / padding they are given to be inside the image resp. non-negative,
(b) return an image of the size torchvision documents, (c) record their integer arguments in the ghost registers geo_* (last call)
and pgeo_* (call before). The property's clauses become
  - post-conditions of get_params: the box lies inside the image it was computed for and has the requested size,
  - post-conditions of __call__: output size == configured size; ctx entries == the arguments of the applied call (so re-applying
    the recorded parameters by hand reproduces the output, crop / resized_crop being deterministic functions of their arguments),
  - for paired transforms: the last two recorded calls (image, mask) have identical arguments,
  - normalise / denormalise: the composed per-channel affine map is the identity (on reals).
"""
from pyvc.values import *  # noqa
from pyvc.libimg import IMAGE, IMAGE_AFF, GEO_GHOST
from pyvc.libtorch import AbsRng
from pyvc.absobj import CALLABLE

T = "kappadata/transforms"
RNGT = TAbs(lambda name, idx: AbsRng(__import__("z3").Int(name + "$key")), "np-rng")
SIZE = TTuple([INT, INT])
CTX = TOpt(TDict())
SAME_GEO = "geo_k == pgeo_k and geo_a == pgeo_a and geo_b == pgeo_b and geo_c == pgeo_c and geo_d == pgeo_d"
IN_BOX = ("0 <= result[0] and result[0] + result[2] <= {h} and 0 <= result[1] and result[1] + result[3] <= {w}")

# ------------------------------------------------------------------ KDRandomCrop / KDTwoRandomCrop
CROP_SELF = {"size": SIZE, "rng": RNGT, "padding": TOpt(INT), "pad_if_needed": BOOL, "fill": VAL, "padding_mode": VAL}


def crop_params(cls, file):
    return dict(
        target=f"{T}/{file}::{cls}.get_params", name=f"{cls}.get_params", self=CROP_SELF, self_class=f"{T}/{file}::{cls}",
        params={"img": IMAGE}, rng_empty_raises=True, raises=("ValueError",), returns=TTuple([INT, INT, INT, INT]),
        requires=["self.size[0] >= 1 and self.size[1] >= 1"],
        ensures=[IN_BOX.format(h="Height(img)", w="Width(img)"),
                 "result[2] == self.size[0] and result[3] == self.size[1]"],
    )


RANDOM_CROP_PARAMS = crop_params("KDRandomCrop", "kd_random_crop.py")
TWO_CROP_PARAMS = crop_params("KDTwoRandomCrop", "kd_two_random_crop.py")

RANDOM_CROP_CALL = dict(
    target=f"{T}/kd_random_crop.py::KDRandomCrop.__call__", self=CROP_SELF, params={"img": IMAGE, "ctx": CTX}, ghost=GEO_GHOST,
    raises=("ValueError",),
    requires=["self.size[0] >= 1 and self.size[1] >= 1", "self.padding is None or val(self.padding) >= 0"],
    ensures=["Height(result) == self.size[0] and Width(result) == self.size[1]",
             # the recorded parameters are the arguments of the crop that produced the output
             "geo_k == 1",
             "implies(ctx is not None, ctx['random_crop']['i'] == geo_a and ctx['random_crop']['j'] == geo_b and "
             "ctx['random_crop']['h'] == geo_c and ctx['random_crop']['w'] == geo_d)"],
)

# exact sizes of the padded image, computed by hand from the configuration: explicit padding first, then - judged on the PADDED size -
# the deficit added on both sides (so that the recorded crop box refers to the image a user obtains by padding by hand)
_P = "(0 if self.padding is None else val(self.padding))"
_W1, _H1 = f"(old(Width(img)) + 2 * {_P})", f"(old(Height(img)) + 2 * {_P})"     # `img` is reassigned in the body: old() = the parameter
PAD_IMAGE = dict(
    target=f"{T}/kd_random_crop.py::KDRandomCrop._pad_image", self=CROP_SELF, params={"img": IMAGE}, ghost=GEO_GHOST, raises=(),
    requires=["self.size[0] >= 1 and self.size[1] >= 1", "self.padding is None or val(self.padding) >= 0", "Width(img) >= 1 and Height(img) >= 1"],
    ensures=[f"Width(result) == {_W1} + (2 * (self.size[1] - {_W1}) if (self.pad_if_needed and {_W1} < self.size[1]) else 0)",
             f"Height(result) == {_H1} + (2 * (self.size[0] - {_H1}) if (self.pad_if_needed and {_H1} < self.size[0]) else 0)",
             "implies(self.pad_if_needed, Height(result) >= self.size[0] and Width(result) >= self.size[1])"],
    inline=True,
)

TWO_CROP_CALL = dict(
    target=f"{T}/kd_two_random_crop.py::KDTwoRandomCrop.__call__",
    self=dict(CROP_SELF, overlap_min=REAL, overlap_max=REAL, tries=TOpt(INT)), params={"img": IMAGE, "ctx": CTX}, ghost=GEO_GHOST,
    raises=("ValueError",),
    requires=["self.size[0] >= 1 and self.size[1] >= 1", "self.padding is None or val(self.padding) >= 0"],
    loops={0: dict(anchor="while True", invariant=["geo_k == 1 and geo_a == i0 and geo_b == j0 and geo_c == h0 and geo_d == w0",
                                                   "h0 == self.size[0] and w0 == self.size[1]", "area0 == h0 * w0"],
                   no_variant=True)},
    ensures=["len(result) == 2",
             "Height(result[0]) == self.size[0] and Width(result[0]) == self.size[1]",
             "Height(result[1]) == self.size[0] and Width(result[1]) == self.size[1]",
             "geo_k == 1 and pgeo_k == 1",
             "implies(ctx is not None, ctx['two_random_crop']['i0'] == pgeo_a and ctx['two_random_crop']['j0'] == pgeo_b and "
             "ctx['two_random_crop']['h0'] == pgeo_c and ctx['two_random_crop']['w0'] == pgeo_d)",
             "implies(ctx is not None, ctx['two_random_crop']['i1'] == geo_a and ctx['two_random_crop']['j1'] == geo_b and "
             "ctx['two_random_crop']['h1'] == geo_c and ctx['two_random_crop']['w1'] == geo_d)"],
)

# ------------------------------------------------------------------ KDRandomResizedCrop
RRC_SELF = {"size": SIZE, "scale": TTuple([REAL, REAL]), "ratio": TTuple([REAL, REAL]), "rng": RNGT, "interpolation": VAL}
RRC_REQ = ["self.size[0] >= 1 and self.size[1] >= 1",
           # domain assumption (stated in the evidence): the aspect-ratio range is positive and contains 1, as every configuration in
           # the repository's pipelines does; for ranges not containing 1 the central-crop fallback can round a side to 0
           "0 < self.ratio[0] and self.ratio[0] <= 1 and 1 <= self.ratio[1]"]
RRC_PARAMS = dict(
    target=f"{T}/kd_random_resized_crop.py::KDRandomResizedCrop.get_params", self=RRC_SELF, params={"img": IMAGE},
    rng_empty_raises=True, raises=(), requires=RRC_REQ, returns=TTuple([INT, INT, INT, INT]),
    loops={0: dict(anchor="for _ in range(10)", index="k", invariant=["area == height * width", "height == Height(img) and width == Width(img)"])},
    ensures=[IN_BOX.format(h="Height(img)", w="Width(img)"), "result[2] >= 1 and result[3] >= 1"],
)
RRC_CALL = dict(
    target=f"{T}/kd_random_resized_crop.py::KDRandomResizedCrop.__call__", self=RRC_SELF, params={"x": IMAGE, "ctx": CTX},
    ghost=GEO_GHOST, raises=(), requires=RRC_REQ,
    ensures=["Height(result) == self.size[0] and Width(result) == self.size[1]", "geo_k == 2",
             "implies(ctx is not None, ctx['random_resized_crop']['i'] == geo_a and ctx['random_resized_crop']['j'] == geo_b and "
             "ctx['random_resized_crop']['h'] == geo_c and ctx['random_resized_crop']['w'] == geo_d)",
             "implies(ctx is not None, ctx['random_resized_crop']['og_h'] == Height(x) and ctx['random_resized_crop']['og_w'] == Width(x))"],
)

# ------------------------------------------------------------------ segmentation pairs
S = f"{T}/semseg"
SEM_CROP_SELF = {"size": SIZE, "rng": RNGT, "max_category_ratio": REAL, "ignore_index": INT}
SEM_CROP_PARAMS = dict(
    target=f"{S}/kd_semseg_random_crop.py::KDSemsegRandomCrop.get_params", self=SEM_CROP_SELF, params={"height": INT, "width": INT},
    rng_empty_raises=True, raises=(), returns=TTuple([INT, INT, INT, INT]),
    requires=["self.size[0] >= 1 and self.size[1] >= 1", "height >= 1 and width >= 1"],
    ensures=[IN_BOX.format(h="height", w="width"),
             "result[2] == min(height, self.size[0]) and result[3] == min(width, self.size[1])"],
)
PAIR = TTuple([IMAGE, IMAGE])
PAIR_REQ = ["Width(xsemseg[0]) == Width(xsemseg[1]) and Height(xsemseg[0]) == Height(xsemseg[1])",
            "Width(xsemseg[0]) >= 1 and Height(xsemseg[0]) >= 1"]
PAIR_OUT = "Width(result[0]) == Width(result[1]) and Height(result[0]) == Height(result[1])"
SEM_CROP_CALL = dict(
    target=f"{S}/kd_semseg_random_crop.py::KDSemsegRandomCrop.__call__", self=SEM_CROP_SELF, params={"xsemseg": PAIR, "ctx": CTX},
    ghost=GEO_GHOST, raises=(), requires=["self.size[0] >= 1 and self.size[1] >= 1"] + PAIR_REQ,
    loops={0: dict(anchor="for _ in range(10)", index="k",
                   invariant=["geo_k == 1 and geo_a == top and geo_b == left and geo_c == crop_height and geo_d == crop_width",
                              "Height(semseg_crop) == crop_height and Width(semseg_crop) == crop_width",
                              "height == Height(xsemseg[0]) and width == Width(xsemseg[0])",
                              "0 <= top and top + crop_height <= height and 0 <= left and left + crop_width <= width",
                              "crop_height == min(height, self.size[0]) and crop_width == min(width, self.size[1])"],
                   havoc_types={"semseg_crop": IMAGE})},
    ensures=[SAME_GEO, "geo_k == 1", PAIR_OUT,
             "Height(result[0]) == min(Height(xsemseg[0]), self.size[0]) and Width(result[0]) == min(Width(xsemseg[0]), self.size[1])"],
)
SEM_PAD_CALL = dict(
    target=f"{S}/kd_semseg_pad.py::KDSemsegPad.__call__", self={"size": SIZE}, params={"xsemseg": PAIR, "ctx": CTX}, ghost=GEO_GHOST,
    raises=(), requires=["self.size[0] >= 1 and self.size[1] >= 1"] + PAIR_REQ,
    ensures=[SAME_GEO, "geo_k == 3", PAIR_OUT,
             "Height(result[0]) == max(Height(xsemseg[0]), self.size[0]) and Width(result[0]) == max(Width(xsemseg[0]), self.size[1])",
             # centred: the two sides differ by at most one
             "0 <= geo_c - geo_a and geo_c - geo_a <= 1 and 0 <= geo_d - geo_b and geo_d - geo_b <= 1"],
)
SEM_FLIP = dict(
    target=f"{S}/kd_semseg_random_horizontal_flip.py::KDSemsegRandomHorizontalFlip.forward", self={}, params={"xsemseg": PAIR, "ctx": CTX},
    ghost=GEO_GHOST, raises=(), requires=PAIR_REQ,
    ensures=[SAME_GEO, "geo_k == 5 and geo_n == 2", PAIR_OUT, "Width(result[0]) == Width(xsemseg[0]) and Height(result[0]) == Height(xsemseg[0])"],
)
SEM_RESIZE = dict(
    target=f"{S}/kd_semseg_resize.py::KDSemsegResize.__call__", self={"size": SIZE, "interpolation": VAL}, params={"xsemseg": PAIR, "ctx": CTX},
    ghost=GEO_GHOST, raises=(), requires=PAIR_REQ,
    ensures=[SAME_GEO, "geo_k == 4 and geo_n == 2", PAIR_OUT, "Height(result[0]) == self.size[0] and Width(result[0]) == self.size[1]"],
)
SEM_RANDOM_RESIZE = dict(
    target=f"{S}/kd_semseg_random_resize.py::KDSemsegRandomResize.__call__",
    self={"ratio_resolution": SIZE, "ratio_range": TTuple([REAL, REAL]), "interpolation": VAL, "rng": RNGT}, params={"xsemseg": PAIR, "ctx": CTX},
    ghost=GEO_GHOST, raises=(),
    requires=PAIR_REQ + ["self.ratio_resolution[0] >= 1 and self.ratio_resolution[1] >= 1", "self.ratio_range[0] > 0 and self.ratio_range[1] > 0"],
    ensures=[SAME_GEO, "geo_k == 4 and geo_n == 2", PAIR_OUT],
)
MULTI_CROP = dict(
    target=f"{S}/kd_semseg_overlapped_multi_crop.py::KDSemsegOverlappedMultiCrop.__call__",
    self={"crop_size": SIZE, "overlap": TTuple([REAL, REAL]), "rng": RNGT}, params={"xsemseg": PAIR, "ctx": CTX}, ghost=GEO_GHOST,
    raises=("AssertionError",), asserts={0: "reject", 1: "reject"},
    requires=PAIR_REQ + ["self.crop_size[0] >= 2 and self.crop_size[1] >= 2", "self.crop_size[0] % 2 == 0 and self.crop_size[1] % 2 == 0",
                         "2 * self.overlap[0] == 1 and 2 * self.overlap[1] == 1"],
    let={"oh": "self.crop_size[0] // 2", "ow": "self.crop_size[1] // 2"},
    loops={
        0: dict(anchor="for i in range(num_rows)", index="i",
                invariant=["len(x_crops) == i * num_cols and len(semseg_crops) == len(x_crops)",
                           "overlap_height == oh and overlap_width == ow and crop_height == 2 * oh and crop_width == 2 * ow",
                           "height == Height(xsemseg[0]) and width == Width(xsemseg[0])",
                           "num_rows >= 1 and num_cols >= 1",
                           "(num_rows - 1) * oh + 2 * oh <= height", "(num_cols - 1) * ow + 2 * ow <= width",
                           "implies(i > 0, " + SAME_GEO + ")"]),
        1: dict(anchor="for j in range(num_cols)", index="j",
                invariant=["len(x_crops) == i * num_cols + j and len(semseg_crops) == len(x_crops)",
                           "implies(i > 0 or j > 0, " + SAME_GEO + ")"]),
    },
    ensures=[SAME_GEO],
)

# ------------------------------------------------------------------ KDRandomErasing
ERASING = dict(
    target=f"{T}/kd_random_erasing.py::KDRandomErasing.forward",
    self={"min_area": REAL, "max_area": REAL, "log_aspect_ratio": TTuple([REAL, REAL]), "min_count": INT, "max_count": INT,
          "rng": RNGT, "_get_replacement": CALLABLE},
    params={"x": IMAGE, "ctx": CTX}, rng_empty_raises=True, raises=(),
    requires=["self.min_count >= 1 and self.max_count >= self.min_count", "self.min_area >= 0 and self.max_area >= self.min_area",
              "Width(x) >= 1 and Height(x) >= 1"],
    loops={0: dict(anchor="for _ in range(n_rects)", index="r", invariant=["img_h == Height(x) and img_w == Width(x)", "n_rects >= 1"]),
           1: dict(anchor="for _ in range(10)", index="t", invariant=["True"])},
    ensures=["Width(result) == Width(x) and Height(result) == Height(x)"],
)

# ------------------------------------------------------------------ normalise / denormalise
NORM_SELF = {"mean": TSeq(REAL, mutable=False), "std": TSeq(REAL, mutable=False), "inplace": BOOL, "inverse": BOOL}
NORM_REQ = ["len(self.mean) == len(self.std)", "forall(lambda c: implies(0 <= c and c < len(self.std), self.std[c] != 0))"]
IMAGE_NORM = dict(
    target=f"{T}/norm/kd_image_norm.py::KDImageNorm.normalize", self=NORM_SELF, params={"x": IMAGE, "inplace": BOOL}, raises=(),
    requires=NORM_REQ + ["Channels(x) == len(self.std)", "IsPlain(x)"],
    ensures=["forall(lambda c: implies(0 <= c and c < len(self.std), ScaleOf(result, c) * self.std[c] == 1 and "
             "ShiftOf(result, c) * self.std[c] == -self.mean[c]))"],
)
IMAGE_DENORM = dict(
    target=f"{T}/norm/kd_image_norm.py::KDImageNorm.denormalize", self=NORM_SELF, params={"x": IMAGE_AFF, "inplace": BOOL}, raises=(),
    # x is the output of normalize on the same instance
    requires=NORM_REQ + ["Channels(x) == len(self.std)",
                         "forall(lambda c: implies(0 <= c and c < len(self.std), ScaleOf(x, c) * self.std[c] == 1 and "
                         "ShiftOf(x, c) * self.std[c] == -self.mean[c]))"],
    ensures=["forall(lambda c: implies(0 <= c and c < len(self.std), ScaleOf(result, c) == 1 and ShiftOf(result, c) == 0))"],
)

RANGE_NORM = dict(
    target=f"{T}/norm/kd_image_range_norm.py::KDImageRangeNorm.normalize", self={"inplace": BOOL, "inverse": BOOL}, params={"x": IMAGE, "inplace": BOOL},
    raises=(), requires=["IsPlain(x)", "Channels(x) >= 1"],
    ensures=["forall(lambda c: implies(0 <= c and c < Channels(x), ScaleOf(result, c) == 2 and ShiftOf(result, c) == -1))"],
)
RANGE_DENORM = dict(
    target=f"{T}/norm/kd_image_range_norm.py::KDImageRangeNorm.denormalize", self={"inplace": BOOL, "inverse": BOOL}, params={"x": IMAGE_AFF, "inplace": BOOL},
    raises=(), requires=["Channels(x) >= 1", "forall(lambda c: implies(0 <= c and c < Channels(x), ScaleOf(x, c) == 2 and ShiftOf(x, c) == -1))"],
    ensures=["forall(lambda c: implies(0 <= c and c < Channels(x), ScaleOf(result, c) == 1 and ShiftOf(result, c) == 0))"],
)

CONTRACTS = [RANDOM_CROP_PARAMS, TWO_CROP_PARAMS, PAD_IMAGE, RANDOM_CROP_CALL, TWO_CROP_CALL, RRC_PARAMS, RRC_CALL, SEM_CROP_PARAMS, SEM_CROP_CALL,
             SEM_PAD_CALL, SEM_FLIP, SEM_RESIZE, SEM_RANDOM_RESIZE, MULTI_CROP, ERASING, IMAGE_NORM, IMAGE_DENORM, RANGE_NORM, RANGE_DENORM]
REGISTRY = CONTRACTS
