"""Sidecar contracts for strength scaling (C15).

Leaf `_scale_strength` functions are verified *relationally*: the body is executed twice, on two receivers that agree on
the constructed values (og_*) and on nothing else, with factors f1 <= f2. Post-conditions (from the statement):
  factor 1 restores the constructed value, factor 0 gives the identity value, larger factors move every bound
  monotonically from the identity towards the constructed value, and equal factors give equal results whatever the
  previous state was (no compounding)."""
from pyvc.values import *  # noqa
from pyvc.absobj import TRANSFORM, SCHEDULE

T = "kappadata/transforms"


def rel(field, og, ident, present=None, opt=False):
    """relational postconditions for one scaled field. self1/factor1 and self2/factor2 are the two runs"""
    g = (lambda e: f"implies({present}, {e})") if present else (lambda e: e)
    a, b, o = f"self1.{field}", f"self2.{field}", f"self2.{og}"
    if opt:
        a, b = f"val({a})", f"val({b})"
    return [
        g(f"implies(factor2 == 1, {b} == {o})"),
        g(f"implies(factor1 == 0, {a} == {ident})"),
        g(f"({ident} <= {a} and {a} <= {b} and {b} <= {o}) or ({ident} >= {a} and {a} >= {b} and {b} >= {o})"),
        g(f"implies(factor1 == factor2, {a} == {b})"),
    ]


def same(*fields):
    return [f"self1.{f} == self2.{f}" for f in fields]


FACT = ["0 <= factor1 and factor1 <= factor2 and factor2 <= 1"]

# --- colour jitter: brightness / contrast / saturation are centred at 1 (>= 0), hue at 0 (within [-0.5, 0.5])
CJ_FIELDS = {}
for k in ("brightness", "contrast", "saturation", "hue"):
    CJ_FIELDS[f"{k}_lb"] = TOpt(REAL)
    CJ_FIELDS[f"{k}_ub"] = REAL
    CJ_FIELDS[f"og_{k}_lb"] = REAL
    CJ_FIELDS[f"og_{k}_ub"] = REAL
CJ_REQ, CJ_ENS = list(FACT), []
for k, ident, dom in (("brightness", "1", None), ("contrast", "1", None), ("saturation", "1", None), ("hue", "0", 1)):
    CJ_REQ += same(f"og_{k}_lb", f"og_{k}_ub") + [f"isnone(self1.{k}_lb) == isnone(self2.{k}_lb)"]
    if dom is None:
        # torchvision ColorJitter._check_input: 0 <= min <= max
        CJ_REQ += [f"0 <= self1.og_{k}_lb and self1.og_{k}_lb <= self1.og_{k}_ub"]
    else:
        CJ_REQ += ["-0.5 <= self1.og_hue_lb and self1.og_hue_lb <= self1.og_hue_ub and self1.og_hue_ub <= 0.5"]
    pres = f"not isnone(self1.{k}_lb)"
    CJ_ENS += [f"isnone(self1.{k}_lb) == isnone(old(self.{k}_lb))"]
    CJ_ENS += rel(f"{k}_lb", f"og_{k}_lb", ident, pres, opt=True)
    CJ_ENS += rel(f"{k}_ub", f"og_{k}_ub", ident, pres)

COLOR_JITTER = dict(target=f"{T}/kd_color_jitter.py::KDColorJitter._scale_strength", relational=True, merge=False,
                    self=CJ_FIELDS, params={"factor": REAL}, requires=CJ_REQ, ensures=CJ_ENS)


def blur(file, cls):
    return dict(target=f"{T}/{file}::{cls}._scale_strength", relational=True,
                self={"sigma_lb": REAL, "sigma_ub": REAL, "og_sigma_ub": REAL}, params={"factor": REAL},
                requires=FACT + same("sigma_lb", "og_sigma_ub") + ["0 <= self1.sigma_lb and self1.sigma_lb <= self1.og_sigma_ub"],
                # the weakest blur is the lower bound of the sigma range
                ensures=rel("sigma_ub", "og_sigma_ub", "self1.sigma_lb") + ["self1.sigma_lb == old(self.sigma_lb)"])


BLUR_PIL = blur("kd_gaussian_blur_pil.py", "KDGaussianBlurPIL")
BLUR_TV = blur("kd_gaussian_blur_tv.py", "KDGaussianBlurTV")

SOLARIZE_FLOAT = dict(target=f"{T}/kd_solarize.py::KDSolarize._scale_strength", name=f"{T}/kd_solarize.py::KDSolarize._scale_strength[tensor]",
                      relational=True, self={"threshold": REAL, "og_threshold": REAL}, params={"factor": REAL},
                      requires=FACT + same("og_threshold") + ["0 <= self1.og_threshold and self1.og_threshold <= 1"],
                      ensures=rel("threshold", "og_threshold", "1"))
SOLARIZE_INT = dict(target=f"{T}/kd_solarize.py::KDSolarize._scale_strength", name=f"{T}/kd_solarize.py::KDSolarize._scale_strength[pil]",
                    relational=True, self={"threshold": INT, "og_threshold": INT}, params={"factor": REAL},
                    requires=FACT + same("og_threshold") + ["0 <= self1.og_threshold and self1.og_threshold <= 256"],
                    ensures=rel("threshold", "og_threshold", "256"))
GRAYSCALE = dict(target=f"{T}/kd_random_grayscale.py::KDRandomGrayscale._scale_strength", relational=True,
                 self={"p": REAL, "og_p": REAL}, params={"factor": REAL},
                 requires=FACT + same("og_p") + ["0 <= self1.og_p and self1.og_p <= 1"], ensures=rel("p", "og_p", "0"))
ROTATION = dict(target=f"{T}/kd_random_rotation.py::KDRandomRotation._scale_strength", relational=True,
                self={"degree_lb": REAL, "degree_ub": REAL, "og_degree_lb": REAL, "og_degree_ub": REAL}, params={"factor": REAL},
                # torchvision RandomRotation(degrees=d) stores (-d, d); (a, b) with a <= b is accepted too
                requires=FACT + same("og_degree_lb", "og_degree_ub") + ["self1.og_degree_lb <= self1.og_degree_ub"],
                # the assert restricts scaling to symmetric ranges (input rejection); it must accept (-d, d)
                asserts={0: "reject"}, raises=("AssertionError",),
                ensures_on_raise=["not (-old(self.og_degree_lb) == old(self.og_degree_ub))"],
                ensures=rel("degree_lb", "og_degree_lb", "0") + rel("degree_ub", "og_degree_ub", "0"))
MS = "kappadata/utils/magnitude_sampler.py"
MAGNITUDE = dict(target=f"{MS}::MagnitudeSampler.scale_strength", relational=True, asserts={0: "reject"},
                 self={k: REAL for k in ("magnitude", "magnitude_std", "magnitude_min", "magnitude_max", "og_magnitude",
                                         "og_magnitude_std", "og_magnitude_min", "og_magnitude_max")},
                 params={"factor": REAL},
                 requires=FACT + same("og_magnitude", "og_magnitude_std", "og_magnitude_min", "og_magnitude_max") +
                 ["0 <= self1.og_magnitude_min and self1.og_magnitude_min <= self1.og_magnitude and "
                  "self1.og_magnitude <= self1.og_magnitude_max and 0 <= self1.og_magnitude_std"],
                 ensures=rel("magnitude", "og_magnitude", "0") + rel("magnitude_std", "og_magnitude_std", "0") +
                 rel("magnitude_min", "og_magnitude_min", "0") + rel("magnitude_max", "og_magnitude_max", "0"))

# --- forwarding: the factor reaches every member exactly once, unchanged
FWD_GHOST = {"g_scaled": (TSeq(BOOL, mutable=False), None), "g_scaled_f": (TSeq(REAL, mutable=False), None),
             "g_nscaled": (INT, "0")}


def forward(file, cls, member):
    return dict(target=f"{T}/{file}::{cls}._scale_strength", self={member: TRANSFORM}, params={"factor": REAL},
                ghost=FWD_GHOST, requires=["0 <= factor and factor <= 1"],
                ensures=["g_nscaled == 1 and g_scaled[0] and g_scaled_f[0] == factor"])


FORWARDS = [
    forward("kd_threshold.py", "KDThreshold", "magnitude_sampler"),
    forward("kd_random_color_jitter.py", "KDRandomColorJitter", "color_jitter"),
    forward("kd_additive_uniform_noise.py", "KDAdditiveUniformNoise", "magnitude_sampler"),
    forward("kd_random_gaussian_blur_tv.py", "KDRandomGaussianBlurTV", "gaussian_blur"),
    forward("kd_additive_gaussian_noise.py", "KDAdditiveGaussianNoise", "magnitude_sampler"),
    forward("kd_random_gaussian_blur_pil.py", "KDRandomGaussianBlurPIL", "gaussian_blur"),
    forward("kd_random_solarize.py", "KDRandomSolarize", "solarize"),
    forward("kd_random_threshold.py", "KDRandomThreshold", "threshold"),
    forward("kd_random_additive_gaussian_noise.py", "KDRandomAdditiveGaussianNoise", "noise"),
    forward("kd_rand_augment.py", "KDRandAugment", "magnitude_sampler"),
]
COMPOSE = dict(
    target=f"{T}/base/kd_compose_transform.py::KDComposeTransform._scale_strength",
    self={"transforms": TSeq(TRANSFORM, mutable=False)}, params={"factor": REAL}, ghost=FWD_GHOST,
    requires=["0 <= factor and factor <= 1",
              "forall(lambda t: implies(0 <= t and t < len(self.transforms), not g_scaled[t]))"],
    ghost_effects={"call:scale_strength": ["g_scaled", "g_scaled_f", "g_nscaled"]},
    loops={0: dict(anchor="for t in self.transforms", index="i",
                   invariant=["forall(lambda t: implies(0 <= t and t < i and IsKD(self.transforms[t]), "
                              "g_scaled[t] and g_scaled_f[t] == factor))"])},
    ensures=["forall(lambda t: implies(0 <= t and t < len(self.transforms) and IsKD(self.transforms[t]), "
             "g_scaled[t] and g_scaled_f[t] == factor))"],
)
BASE = dict(target=f"{T}/base/kd_transform.py::KDTransform.scale_strength", self={}, params={"factor": REAL},
            asserts={0: "reject"}, raises=("AssertionError",),
            ensures=["0 <= factor and factor <= 1"])

# --- scheduled transform
SCHED_SELF = {"transform": TRANSFORM, "rank": TOpt(INT), "num_workers": TOpt(INT), "batch_size": TOpt(INT),
              "n_batches": TOpt(INT), "sample_counter": INT, "ctx_key": STR, "schedule": SCHEDULE}
SCHED_CALL = dict(
    target=f"{T}/base/kd_scheduled_transform.py::KDScheduledTransform.__call__",
    self=SCHED_SELF, params={"x": VAL, "ctx": TOpt(TDict())}, ghost=dict(FWD_GHOST, g_napplied=(INT, "0")),
    requires=[
        # after the worker hook ran (C15 domain: full batches of batch_size, round-robin over num_workers workers)
        "self.n_batches is not None and self.rank is not None and self.num_workers is not None and self.batch_size is not None",
        "val(self.batch_size) >= 1 and val(self.num_workers) >= 1 and 0 <= val(self.rank) and val(self.rank) < val(self.num_workers)",
        "self.sample_counter >= 0"],
    asserts={0: "internal"},
    defs={"BIDX": ((), "(old(self.sample_counter) // val(self.batch_size)) * val(self.num_workers) + val(self.rank)")},
    ensures=[
        # the k-th sample a worker of rank r sees lies in global batch (k // B) * W + r: that is the schedule index
        "g_nscaled == 1 and g_scaled_f[0] == SchedValue(self.schedule, BIDX, val(self.n_batches))",
        "implies(ctx is not None, DictHas(ctx, self.ctx_key) and "
        "DictGet(ctx, self.ctx_key) == SchedValue(self.schedule, BIDX, val(self.n_batches)))",
        "self.sample_counter == old(self.sample_counter) + 1",
        "g_napplied == 1",
    ],
)

SCHED_WINIT = dict(
    target=f"{T}/base/kd_scheduled_transform.py::KDScheduledTransform._worker_init_fn",
    self=SCHED_SELF, merge=False,
    params={"rank": INT, "num_workers": INT, "batch_size": TOpt(INT), "dataset_len": TOpt(INT), "world_size": TOpt(INT),
            "drop_last": TOpt(BOOL), "epochs": TOpt(INT), "updates": TOpt(INT), "samples": TOpt(INT)},
    asserts={k: "reject" for k in range(12)}, raises=("AssertionError", "NotImplementedError"),
    requires=["num_workers >= 1 and 0 <= rank",
              "implies(batch_size is not None, val(batch_size) >= 1)", "implies(world_size is not None, val(world_size) >= 1)",
              "implies(dataset_len is not None, val(dataset_len) >= 0)"],
    ensures=[
        "self.rank == rank and self.num_workers == num_workers and self.batch_size == batch_size",
        # the schedule length is the number of global batches of the budget, independent of the number of workers
        "implies(epochs is not None, val(self.n_batches) == val(epochs) * "
        " ((val(old(dataset_len)) // val(world_size)) // val(batch_size) if val(drop_last) else "
        "  cdiv(val(old(dataset_len)) // val(world_size), val(batch_size))))",
        "implies(epochs is None and updates is not None, val(self.n_batches) == val(updates))",
        "implies(epochs is None and updates is None and samples is not None, val(self.n_batches) == cdiv(val(samples), val(batch_size)))",
        "self.n_batches is not None",
    ],
)

BASE_WINIT = dict(
    target=f"{T}/base/kd_transform.py::KDTransform.worker_init_fn",
    self_class=f"{T}/base/kd_scheduled_transform.py::KDScheduledTransform", self=SCHED_SELF,
    params={"rank": INT}, ghost=dict(FWD_GHOST, g_rng_set=(TSeq(BOOL, mutable=False), None), g_rng=(TSeq(VAL, mutable=False), None)),
    requires=["0 <= rank"], raises=("AssertionError", "NotImplementedError"),
    # without a DataLoader worker the transform is its own single worker: the hook must hand num_workers >= 1 on
    # (call-site obligation: the precondition of _worker_init_fn)
    ensures=[],
)

CONTRACTS = [BASE_WINIT, SCHED_WINIT, COLOR_JITTER, BLUR_PIL, BLUR_TV, SOLARIZE_FLOAT, SOLARIZE_INT, GRAYSCALE, ROTATION, MAGNITUDE] + FORWARDS + \
            [COMPOSE, BASE, SCHED_CALL]
