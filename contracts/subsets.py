"""Sidecar contracts for the dataset-manipulation wrappers (C03): the constructor establishes self.indices == the promised
selection. Postconditions are transcriptions of the documentation promises (contiguous ranges with None-only defaults, whole
round-robin copies, permutation keyed by the seed, order preserving class filter); termination of the oversampling loops."""
from pyvc.values import *  # noqa
from pyvc.absobj import LABELDATASET

W = "kappadata/wrappers/dataset_wrappers"
N = "len(dataset)"

# ---- percent filter: contiguous [FROM, TO); a bound defaults to 0 / 1 only when the argument is None
PF_DEFS = {
    "F": (("p", "ceil"), f"(-((-(p * {N})) // 1) if ceil else int(p * {N}))"),
}
PERCENT = dict(
    target=f"{W}/percent_filter_wrapper.py::PercentFilterWrapper.__init__", self={}, merge=False,
    params={"dataset": LABELDATASET, "from_percent": TOpt(REAL), "to_percent": TOpt(REAL), "ceil_from_index": BOOL, "ceil_to_index": BOOL},
    requires=["implies(from_percent is not None, 0 <= val(from_percent) and val(from_percent) <= 1)",
              "implies(to_percent is not None, 0 <= val(to_percent) and val(to_percent) <= 1)"],
    let={"FROM": f"0 if from_percent is None else (CeilInt(val(from_percent) * {N}) if ceil_from_index else int(val(from_percent) * {N}))",
         "TO": f"{N} if to_percent is None else (CeilInt(val(to_percent) * {N}) if ceil_to_index else int(val(to_percent) * {N}))"},
    ensures=["len(self.indices) == (TO - FROM if TO > FROM else 0)",
             "forall(lambda k: implies(0 <= k and k < len(self.indices), self.indices[k] == FROM + k))",
             "self.dataset == dataset"],
)

# ---- subset wrapper: index / percent ranges
SUBSET_IDX = dict(
    target=f"{W}/subset_wrapper.py::SubsetWrapper.__init__", name=f"{W}/subset_wrapper.py::SubsetWrapper.__init__[index range]", self={},
    merge=False,
    params={"dataset": LABELDATASET, "indices": TNone(), "start_index": TOpt(INT), "end_index": TOpt(INT), "start_percent": TNone(),
            "end_percent": TNone()},
    requires=["start_index is not None or end_index is not None",
              "implies(start_index is not None, val(start_index) >= 0)", "implies(end_index is not None, val(end_index) >= 0)"],
    let={"FROM": "0 if start_index is None else val(start_index)",
         "TO": f"{N} if end_index is None else (val(end_index) if val(end_index) < {N} else {N})"},
    ensures=["len(self.indices) == (TO - FROM if TO > FROM else 0)",
             "forall(lambda k: implies(0 <= k and k < len(self.indices), self.indices[k] == FROM + k))"],
)
SUBSET_PCT = dict(
    target=f"{W}/subset_wrapper.py::SubsetWrapper.__init__", name=f"{W}/subset_wrapper.py::SubsetWrapper.__init__[percent range]", self={},
    merge=False,
    params={"dataset": LABELDATASET, "indices": TNone(), "start_index": TNone(), "end_index": TNone(), "start_percent": TOpt(REAL),
            "end_percent": TOpt(REAL)},
    requires=["start_percent is not None or end_percent is not None",
              "implies(start_percent is not None, 0 <= val(start_percent) and val(start_percent) <= 1)",
              "implies(end_percent is not None, 0 <= val(end_percent) and val(end_percent) <= 1)"],
    let={"FROM": f"0 if start_percent is None else int(val(start_percent) * {N})",
         "TO": f"{N} if end_percent is None else int(val(end_percent) * {N})"},
    ensures=["len(self.indices) == (TO - FROM if TO > FROM else 0)",
             "forall(lambda k: implies(0 <= k and k < len(self.indices), self.indices[k] == FROM + k))"],
)

# ---- repeat: whole round-robin copies reaching the requested size
REPEAT = dict(
    target=f"{W}/repeat_wrapper.py::RepeatWrapper.__init__", self={}, merge=False,
    params={"dataset": LABELDATASET, "repetitions": TOpt(INT), "min_size": TOpt(INT)},
    let={"R": f"val(repetitions) if repetitions is not None else cdiv(val(min_size), {N})"},
    ensures=[f"len(self.indices) == R * {N}", "R >= 1",
             f"forall(lambda k: implies(0 <= k and k < len(self.indices), self.indices[k] == k % {N}))",
             f"implies(min_size is not None, len(self.indices) >= val(min_size) and len(self.indices) - {N} < val(min_size))"],
)
REPEAT["ensures"][3] = H(REPEAT["ensures"][3], f"len(self.indices) == R * {N}", f"implies(min_size is not None, R == cdiv(val(min_size), {N}))",
                         f"{N} >= 1", "implies(min_size is not None, val(min_size) >= 1)")

# ---- shuffle: a permutation that is a function of the seed
SHUFFLE = dict(
    target=f"{W}/shuffle_wrapper.py::ShuffleWrapper.__init__", self={}, merge=False,
    params={"dataset": LABELDATASET, "seed": INT},
    ensures=[f"len(self.indices) == {N}",
             f"forall(lambda k: implies(0 <= k and k < {N}, self.indices[k] == Perm(seed, 1, {N}, k)))"],
)

# ---- oversampling: construction terminates for every class layout (absent classes included)
OVER_EXACT = dict(
    target=f"{W}/oversampling_wrapper.py::OversamplingWrapper.__init__", name=f"{W}/oversampling_wrapper.py::OversamplingWrapper.__init__[exact]",
    self={}, merge=False, params={"dataset": LABELDATASET}, concrete={"mode": "exact"},
    loops={
        1: dict(anchor="for i in range(len(class_counts))", index="c", invariant=["c >= 0"]),
        2: dict(anchor="while remaining_indices > 0",
                invariant=["0 <= remaining_indices and remaining_indices <= max_class_count"],
                variant="remaining_indices"),
    },
    ensures=[],
)

# ---- class filter: precisely the allowed classes, in original order
def class_filter(valid):
    arg = "valid_classes" if valid else "invalid_classes"
    member = f"exists(lambda t: 0 <= t and t < len({arg}) and {arg}[t] == LabelOf(dataset, i))"
    keep = member if valid else f"not ({member})"
    return dict(
        target=f"{W}/class_filter_wrapper.py::ClassFilterWrapper.__init__",
        name=f"{W}/class_filter_wrapper.py::ClassFilterWrapper.__init__[{arg}]", self={}, merge=False,
        params={"dataset": LABELDATASET, "valid_classes": TSeq(INT, mutable=False) if valid else TNone(),
                "invalid_classes": TNone() if valid else TSeq(INT, mutable=False), "valid_class_names": TNone(), "invalid_class_names": TNone()},
        ensures=[
            # an order preserving filter of range(n): strictly increasing, sound and complete
            f"forall(lambda k: implies(0 <= k and k + 1 < len(self.indices), self.indices[k] < self.indices[k + 1]))",
            f"forall(lambda k: implies(0 <= k and k < len(self.indices), 0 <= self.indices[k] and self.indices[k] < {N} and "
            f"({keep.replace('LabelOf(dataset, i)', 'LabelOf(dataset, self.indices[k])')})))",
            f"forall(lambda i: implies(0 <= i and i < {N} and ({keep}), exists(lambda k: 0 <= k and k < len(self.indices) and self.indices[k] == i)))",
        ],
    )



# ---- sort by class: valid labelled samples in strict (class, original position) order - that is non-decreasing class
#      order with stable ties and no sample twice (strictness); completeness is bounded only (see the note below the contract)
LEX = "(LabelOf(dataset, {a}) < LabelOf(dataset, {b}) or (LabelOf(dataset, {a}) == LabelOf(dataset, {b}) and {a} < {b}))"
SORT = dict(
    target=f"{W}/sort_by_class_wrapper.py::SortByClassWrapper.__init__", self={}, merge=False,
    params={"dataset": LABELDATASET},
    loops={0: dict(anchor="for i in range(num_classes)", index="c", havoc_types={"indices": TSeq(INT)},
                   invariant=[f"forall(lambda k: implies(0 <= k and k < len(indices), 0 <= indices[k] and indices[k] < {N} and "
                              "0 <= LabelOf(dataset, indices[k]) and LabelOf(dataset, indices[k]) < c))",
                              "forall(lambda k: implies(0 <= k and k + 1 < len(indices), "
                              + LEX.format(a="indices[k]", b="indices[k + 1]") + "))"])},
    ensures=[f"forall(lambda k: implies(0 <= k and k < len(self.indices), 0 <= self.indices[k] and self.indices[k] < {N}))",
             "forall(lambda k: implies(0 <= k and k + 1 < len(self.indices), "
             + LEX.format(a="self.indices[k]", b="self.indices[k + 1]") + "))"],
    # completeness ("every labelled sample is present": forall j exists k) was proved with some solver seeds and left *unknown* with
    # others (3 of 6): an obligation whose verdict flips with the seed is not registered; the clause stays with the bounded stand-in
)

# ---- few-shot: blocks in class order; every selected sample is valid and labelled, classes non-decreasing, no sample twice (the amount per
#      class - min(num_shots, class size) - is a counting statement and stays with the bounded stand-in)
FEWSHOT = dict(
    target=f"{W}/fewshot_wrapper.py::FewshotWrapper.__init__", self={}, merge=False,
    params={"dataset": LABELDATASET, "num_shots": INT, "seed": INT},
    requires=["num_shots >= 0", f"{N} >= 1"],
    loops={0: dict(anchor="for i in range(num_classes)", index="c", havoc_types={"indices": TSeq(INT)},
                   invariant=[f"forall(lambda k: implies(0 <= k and k < len(indices), 0 <= indices[k] and indices[k] < {N} and "
                              "0 <= LabelOf(dataset, indices[k]) and LabelOf(dataset, indices[k]) < c))",
                              "forall(lambda k: implies(0 <= k and k + 1 < len(indices), "
                              "LabelOf(dataset, indices[k]) <= LabelOf(dataset, indices[k + 1])))",
                              "forall(lambda a, b: implies(0 <= a and a < b and b < len(indices), indices[a] != indices[b]))"])},
    ensures=[f"forall(lambda k: implies(0 <= k and k < len(self.indices), 0 <= self.indices[k] and self.indices[k] < {N} and "
             "0 <= LabelOf(dataset, self.indices[k])))",
             "forall(lambda a, b: implies(0 <= a and a < b and b < len(self.indices), self.indices[a] != self.indices[b]))",
             "forall(lambda k: implies(0 <= k and k + 1 < len(self.indices), "
             "LabelOf(dataset, self.indices[k]) <= LabelOf(dataset, self.indices[k + 1])))"],
)


# ---- oversampling (multiply): every sample is kept (the original order is a prefix) and whatever is appended is a valid, labelled
#      sample - unlabeled samples are never multiplied. (How often a class is multiplied depends on the class counts, which enter as an
#      uninterpreted assumed contract: the balance clause stays with the bounded stand-in.)
OVER_MULT = dict(
    target=f"{W}/oversampling_wrapper.py::OversamplingWrapper.__init__", name=f"{W}/oversampling_wrapper.py::OversamplingWrapper.__init__[multiply]",
    self={}, merge=False, params={"dataset": LABELDATASET}, concrete={"mode": "multiply"},
    loops={0: dict(anchor="for i in range(len(class_counts))", index="c", havoc_types={"indices": TSeq(INT)},
                   invariant=[f"len(indices) >= {N}",
                              f"forall(lambda k: implies(0 <= k and k < {N}, indices[k] == k))",
                              f"forall(lambda k: implies({N} <= k and k < len(indices), 0 <= indices[k] and indices[k] < {N} and "
                              "0 <= LabelOf(dataset, indices[k]) and LabelOf(dataset, indices[k]) < c))"])},
    ensures=[f"len(self.indices) >= {N}",
             f"forall(lambda k: implies(0 <= k and k < {N}, self.indices[k] == k))",
             f"forall(lambda k: implies({N} <= k and k < len(self.indices), 0 <= self.indices[k] and self.indices[k] < {N} and "
             "0 <= LabelOf(dataset, self.indices[k])))"],
)


CONTRACTS = [PERCENT, SUBSET_IDX, SUBSET_PCT, REPEAT, SHUFFLE, class_filter(True), class_filter(False), SORT, FEWSHOT, OVER_MULT]
TERMINATION = [OVER_EXACT]


# (ClasswiseSubsetWrapper is NOT under contract. A percent-range contract over an assumed contract of get_class_counts_and_indices
#  - indices[c] the increasing enumeration of class c, rank within the class in [int(sp * n_c), int(ep * n_c)) - got every post-condition
#  and the order invariant discharged, but the preservation of the range / completeness invariants stayed *unknown* in z3 and cvc5:
#  the non-linear product int(p * Cnt(label(e))) under a quantifier. Undecided obligations are not registered; the wrapper stays bounded.)


CONTRACTS = [PERCENT, SUBSET_IDX, SUBSET_PCT, REPEAT, SHUFFLE, class_filter(True), class_filter(False), SORT, FEWSHOT, OVER_MULT]
TERMINATION = [OVER_EXACT]


# ---- class-wise subset (percent ranges): per class c the samples of rank [int(sp * n_c), int(ep * n_c)) within the class, blocks in class
#      order - so complementary percent ranges partition every class. get_class_counts_and_indices enters as an ASSUMED contract
#      (trusted, exercised by the bounded stand-in): indices[c] = increasing enumeration CIdx(c, .) of the samples labelled c,
#      counts[c] = Cnt(c) = its length, CRank the rank of a sample within its class.
def _ext_counts_and_indices(args, kwargs, st, eng):
    import z3
    from pyvc.state import uid
    from pyvc.values import VStr
    ds = eng.deref(kwargs.get("dataset", args[0] if args else None), st)
    C, n_ = ds.ncls(), ds.n
    lab = lambda j: ds.item(VStr("class").t, j).t
    CIdx = z3.Function("CIdx", z3.IntSort(), z3.IntSort(), z3.IntSort())
    Cnt = z3.Function("Cnt", z3.IntSort(), z3.IntSort())
    CRank = z3.Function("CRank", z3.IntSort(), z3.IntSort())
    i, r, j = z3.Int(uid("i")), z3.Int(uid("r")), z3.Int(uid("j"))
    st.assume(z3.ForAll([i], z3.And(0 <= Cnt(i), Cnt(i) <= n_), patterns=[Cnt(i)]),
              z3.ForAll([i, r], z3.Implies(z3.And(0 <= i, i < C, 0 <= r, r < Cnt(i)),
                                           z3.And(0 <= CIdx(i, r), CIdx(i, r) < n_, lab(CIdx(i, r)) == i, CRank(CIdx(i, r)) == r)),
                        patterns=[CIdx(i, r)]),
              z3.ForAll([i, r], z3.Implies(z3.And(0 <= i, i < C, 0 <= r, r + 1 < Cnt(i)), CIdx(i, r) < CIdx(i, r + 1)),
                        patterns=[CIdx(i, r + 1)]),
              z3.ForAll([j], z3.Implies(z3.And(0 <= j, j < n_, 0 <= lab(j), lab(j) < C),
                                        z3.And(0 <= CRank(j), CRank(j) < Cnt(lab(j)), CIdx(lab(j), CRank(j)) == j)),
                        patterns=[CRank(j)]))
    counts = VSeq(C, lambda t: VInt(Cnt(t)), INT)
    counts.kind = z3.IntVal(1)

    def per_class(t):
        sq = VSeq(Cnt(t), lambda rr, t=t: VInt(CIdx(t, rr)), INT)
        sq.kind = z3.IntVal(2)
        return sq
    idx = VSeq(C, per_class, TSeq(INT))
    return VTuple([counts, st.alloc(idx)])


_CW_IN = ("0 <= LabelOf(dataset, {e}) and LabelOf(dataset, {e}) < NumClasses(dataset) and "
          "int(SP * Cnt(LabelOf(dataset, {e}))) <= CRank({e}) and CRank({e}) < int(EP * Cnt(LabelOf(dataset, {e})))")
CLASSWISE_PCT = dict(
    target=f"{W}/classwise_subset_wrapper.py::ClasswiseSubsetWrapper.__init__", name=f"{W}/classwise_subset_wrapper.py::ClasswiseSubsetWrapper.__init__[percent range]",
    self={}, merge=False,
    params={"dataset": LABELDATASET, "start_index": TNone(), "end_index": TNone(), "start_percent": TOpt(REAL), "end_percent": TOpt(REAL),
            "check_enough_samples": BOOL},
    funcs={"CIdx": ([INT, INT], INT), "Cnt": ([INT], INT), "CRank": ([INT], INT)},
    externals={"kappadata/utils/class_counts.py::get_class_counts_and_indices": _ext_counts_and_indices},
    requires=["start_percent is not None or end_percent is not None",
              "implies(start_percent is not None, 0 <= val(start_percent) and val(start_percent) <= 1)",
              "implies(end_percent is not None, 0 <= val(end_percent) and val(end_percent) <= 1)"],
    let={"SP": "0 if start_percent is None else val(start_percent)", "EP": "1 if end_percent is None else val(end_percent)"},
    # part of the assumed contract of get_class_counts_and_indices (class sizes are non-negative), stated up front so that the
    # non-linear bound lemma below can be proved once, in isolation
    axioms=["forall(lambda i: Cnt(i) >= 0)"],
    lemmas=[H("forall(lambda i: 0 <= int(SP * Cnt(i)) and int(SP * Cnt(i)) <= int(EP * Cnt(i)) and int(EP * Cnt(i)) <= Cnt(i))",
              "0 <= SP and SP <= EP and EP <= 1", "forall(lambda i: Cnt(i) >= 0)")],
    loops={1: dict(anchor="for i in range(dataset.getdim_class())", index="c", havoc_types={"sub_indices": TSeq(INT)},
                   invariant=[f"forall(lambda k: implies(0 <= k and k < len(sub_indices), 0 <= sub_indices[k] and sub_indices[k] < {N} and "
                              "LabelOf(dataset, sub_indices[k]) < c and " + _CW_IN.format(e="sub_indices[k]") + "))",
                              "forall(lambda k: implies(0 <= k and k + 1 < len(sub_indices), "
                              + LEX.format(a="sub_indices[k]", b="sub_indices[k + 1]") + "))",
                              f"forall(lambda j: implies(0 <= j and j < {N} and LabelOf(dataset, j) < c and " + _CW_IN.format(e="j") + ", "
                              "exists(lambda k: 0 <= k and k < len(sub_indices) and sub_indices[k] == j)))"])},
    ensures=[f"forall(lambda k: implies(0 <= k and k < len(self.indices), 0 <= self.indices[k] and self.indices[k] < {N} and "
             + _CW_IN.format(e="self.indices[k]") + "))",
             "forall(lambda k: implies(0 <= k and k + 1 < len(self.indices), " + LEX.format(a="self.indices[k]", b="self.indices[k + 1]") + "))",
             f"forall(lambda j: implies(0 <= j and j < {N} and " + _CW_IN.format(e="j") + ", "
             "exists(lambda k: 0 <= k and k < len(self.indices) and self.indices[k] == j)))"],
)
