"""Sidecar contracts for the mask collators (C17). Masks are the abstract grids of pyvc/libmask.py: the number of ones of a
grid is Ones(m) = GridBoxSum(version, 0, H, 0, W); all claims are about these counts, box positions and index sequences."""
from pyvc.values import *  # noqa
from pyvc.libmask import GRID, GRID_ELEM, GEN, GRID_GHOST, GRID_LIB, ext_get_item
from pyvc.libtorch import AbsRng

C = "kappadata/collators"
RNGT = TAbs(lambda name, idx: AbsRng(__import__("z3").Int(name + "$key")), "np-rng")
CTX = TOpt(TDict())

# ------------------------------------------------------------------ DINO
DINO_SELF = {"mask_ratio": TTuple([REAL, REAL]), "mask_prob": REAL, "num_views": INT, "height": INT, "width": INT, "num_patches": INT,
             "min_num_patches": INT, "log_aspect_max": REAL, "log_aspect_min": REAL, "rng": RNGT}
DINO_DIMS = ["self.height >= 1 and self.width >= 1", "self.num_patches == self.height * self.width", "self.min_num_patches >= 0"]
GRID_OK = "GridH(mask) == self.height and GridW(mask) == self.width"

MASK_BLOCK = dict(
    target=f"{C}/kd_dino_mask_collator.py::KDDinoMaskCollator._mask_block", self=DINO_SELF,
    params={"mask": GRID, "num_remaining_patches_to_mask": INT}, ghost=GRID_GHOST, lib=GRID_LIB, returns=INT, modifies_grid=["mask"], raises=(),
    requires=DINO_DIMS + [GRID_OK, "num_remaining_patches_to_mask >= 1"],
    let={"ones0": "Ones(mask)"},
    loops={
        0: dict(anchor="for _ in range(10)", index="t", invariant=["delta == 0", "Ones(mask) == ones0"]),
        1: dict(anchor="for i in range(top, bot", index="a",
                invariant=["delta == BoxSum(mask, top, bot, left, right) - (h * w - num_unmasked_patches_in_block)", "Ones(mask) == ones0 + delta",
                           "bot == top + h and right == left + w and 0 <= h and 0 <= w",
                           "0 <= top and bot <= self.height and 0 <= left and right <= self.width",
                           "num_unmasked_patches_in_block <= num_remaining_patches_to_mask and 0 <= delta"]),
        2: dict(anchor="for j in range(left, right", index="b",
                invariant=["delta == BoxSum(mask, top, bot, left, right) - (h * w - num_unmasked_patches_in_block)", "Ones(mask) == ones0 + delta",
                           "top <= i and i < bot and 0 <= delta"]),
    },
    ensures=["0 <= result and result <= num_remaining_patches_to_mask",        # never more than the remaining budget
             "Ones(mask) == old(Ones(mask)) + result"],                        # and exactly that many cells were switched on
)

GENERATE_MASK = dict(
    target=f"{C}/kd_dino_mask_collator.py::KDDinoMaskCollator._generate_mask", self=DINO_SELF,
    params={"mask": GRID, "num_masked_patches_total": INT}, ghost=GRID_GHOST, lib=GRID_LIB, modifies_grid=["mask"], raises=(),
    requires=DINO_DIMS + [GRID_OK, "Ones(mask) == 0"],
    loops={0: dict(anchor="while num_masked_patches < num_masked_patches_total",
                   invariant=["Ones(mask) == num_masked_patches", "0 <= num_masked_patches", "num_masked_patches <= max(num_masked_patches_total, 0)"],
                   variant="num_masked_patches_total - num_masked_patches")},
    ensures=["0 <= Ones(mask) and Ones(mask) <= max(num_masked_patches_total, 0)"],
)

BOUND = "Ones({m}) <= self.mask_ratio[1] * self.num_patches"
DINO_COLLATE = dict(
    target=f"{C}/kd_dino_mask_collator.py::KDDinoMaskCollator.collate", self=DINO_SELF,
    params={"batch": VAL, "dataset_mode": VAL, "ctx": CTX}, ghost=dict(GRID_GHOST, g_batch=(INT, "0")), lib=GRID_LIB, raises=(),
    externals={"kappadata/wrappers/mode_wrapper.py::ModeWrapper.get_item": ext_get_item},
    requires=DINO_DIMS + ["0 <= self.mask_prob and self.mask_prob <= 1", "self.num_views >= 1",
                          "0 <= self.mask_ratio[0] and self.mask_ratio[0] <= self.mask_ratio[1]"],
    loops={0: dict(anchor="for i in range(num_masked_samples", index="i",
                   invariant=["len(masks) == batch_size * self.num_views", "num_masked_samples <= len(masks)",
                              "forall(lambda k: implies(i <= k and k < len(masks), Ones(masks[k]) == 0))",
                              "forall(lambda k: implies(0 <= k and k < i, " + BOUND.format(m="masks[k]") + "))",
                              "forall(lambda k: implies(0 <= k and k < len(masks), GridH(masks[k]) == self.height and GridW(masks[k]) == self.width))"])},
    # witness: the local num_masked_samples - only the masks before it can be non-empty (the loop invariant at exit, before
    # the order is permuted by the shuffle), and it is at most floor(batch * views * mask_prob)
    ensures_here=["implies(ctx is not None, 0 <= num_masked_samples and num_masked_samples <= g_batch * self.num_views * self.mask_prob)"],
    ensures=["result is batch",       # batch data passes through unchanged
             "implies(ctx is not None, len(ctx['mask']) == g_batch * self.num_views)",
             "implies(ctx is not None, forall(lambda k: implies(0 <= k and k < len(ctx['mask']), "
             "GridH(ctx['mask'][k]) == self.height and GridW(ctx['mask'][k]) == self.width and " + BOUND.format(m="ctx['mask'][k]") + ")))"],
)

DINO = [MASK_BLOCK, GENERATE_MASK, DINO_COLLATE]

# ------------------------------------------------------------------ I-JEPA
R2 = TTuple([REAL, REAL])
IJ_SELF = {"seqlen_h": INT, "seqlen_w": INT, "encoder_mask_scale": R2, "predictor_mask_scale": R2, "predictor_aspect_ratio": R2,
           "num_enc_masks": INT, "num_pred_masks": INT, "min_keep": INT, "tries": INT, "rng": RNGT, "_itr_counter": VAL}
IJ_DIMS = ["self.seqlen_h >= 2 and self.seqlen_w >= 2"]
HW = "self.seqlen_h * self.seqlen_w"
BLOCK_FITS = "1 <= block_size[0] and block_size[0] <= self.seqlen_h - 1 and 1 <= block_size[1] and block_size[1] <= self.seqlen_w - 1"
SORTED = "forall(lambda t: implies(0 <= t and t + 1 < len({m}), {m}[t] < {m}[t + 1]))"
INRANGE = "forall(lambda t: implies(0 <= t and t < len({m}), 0 <= {m}[t] and {m}[t] < " + HW + "))"

BLOCK_SIZE = dict(
    target=f"{C}/kd_ijepa_mask_collator.py::KDIjepaMaskCollator._sample_block_size", self=IJ_SELF,
    params={"generator": GEN, "scale": R2, "aspect_ratio_range": R2}, lib=GRID_LIB, raises=(), returns=TTuple([INT, INT]),
    requires=IJ_DIMS + ["0 <= scale[0] and scale[0] <= scale[1]", "0 < aspect_ratio_range[0] and aspect_ratio_range[0] <= aspect_ratio_range[1]"],
    # a block never covers a whole row / column (so that the position draw below never has an empty range)
    ensures=["0 <= result[0] and result[0] <= self.seqlen_h - 1 and 0 <= result[1] and result[1] <= self.seqlen_w - 1"],
)

BLOCK_MASK = dict(
    target=f"{C}/kd_ijepa_mask_collator.py::KDIjepaMaskCollator._sample_block_mask", self=IJ_SELF,
    params={"block_size": TTuple([INT, INT])}, ghost=GRID_GHOST, lib=GRID_LIB, raises=(), rng_empty_raises=True,
    returns=TTuple([TSeq(INT), GRID]),
    requires=IJ_DIMS + [BLOCK_FITS],
    ensures=[SORTED.format(m="result[0]"), INRANGE.format(m="result[0]"),
             "len(result[0]) == block_size[0] * block_size[1]",                       # one common size per batch: the block area
             "GridH(result[1]) == self.seqlen_h and GridW(result[1]) == self.seqlen_w",
             "Ones(result[1]) == " + HW + " - block_size[0] * block_size[1]",       # the complement misses exactly the block
             "forall(lambda t: implies(0 <= t and t < len(result[0]), not InGrid(result[1], result[0][t])))"],
    # the index set is the rectangle [top, bot) x [left, right) of the requested size, inside the grid (witnesses: the locals)
    ensures_here=["bot - top == block_size[0] and right - left == block_size[1]",
                  "0 <= top and bot <= self.seqlen_h and 0 <= left and right <= self.seqlen_w",
                  "forall(lambda t: implies(0 <= t and t < len(result[0]), top <= result[0][t] // self.seqlen_w and result[0][t] // self.seqlen_w < bot and "
                  "left <= result[0][t] % self.seqlen_w and result[0][t] % self.seqlen_w < right))"],
)

REGIONS_SAME = "forall(lambda j: implies(0 <= j and j < len(acceptable_regions), Ver(acceptable_regions[j]) == old(Ver(acceptable_regions[j]))))"
CONSTRAINED = dict(
    target=f"{C}/kd_ijepa_mask_collator.py::KDIjepaMaskCollator._sample_block_mask_constrained", self=IJ_SELF,
    params={"block_size": TTuple([INT, INT]), "acceptable_regions": TSeq(GRID_ELEM, mutable=False)}, ghost=GRID_GHOST, lib=GRID_LIB,
    raises=(), rng_empty_raises=True, returns=TSeq(INT), consts={"P": INT},
    requires=IJ_DIMS + [BLOCK_FITS, "self.tries >= 1", "P >= 0", "self.min_keep >= 0",
                        "forall(lambda j: implies(0 <= j and j < len(acceptable_regions), GridH(acceptable_regions[j]) == self.seqlen_h and "
                        "GridW(acceptable_regions[j]) == self.seqlen_w and Ones(acceptable_regions[j]) >= " + HW + " - P and Gid(acceptable_regions[j]) < 0))",
                        # the quantifier of the property: the documented constraint relaxation cannot trigger
                        "block_size[0] * block_size[1] - len(acceptable_regions) * P > self.min_keep"],
    loops={0: dict(anchor="while True", invariant=["tries == 0", REGIONS_SAME], no_variant=True),
           1: dict(anchor="for k in range(", index="k",
                   invariant=["Gid(mask) > 0", REGIONS_SAME, "GridH(mask) == self.seqlen_h and GridW(mask) == self.seqlen_w",
                              "Ones(mask) >= block_h * block_w - k * P and Ones(mask) <= block_h * block_w",
                              "forall(lambda j, p, q: implies(0 <= j and j < k and CellAt(mask, p, q), CellAt(acceptable_regions[j], p, q)))"])},
    ensures=[SORTED.format(m="result"), INRANGE.format(m="result"),
             "len(result) > self.min_keep and len(result) <= block_size[0] * block_size[1]",
             # never intersects a predictor block: every kept index lies in every acceptable region (= complement of a predictor block)
             "forall(lambda j, t: implies(0 <= j and j < len(acceptable_regions) and 0 <= t and t < len(result), InGrid(acceptable_regions[j], result[t])))",
             REGIONS_SAME],       # frame: the regions themselves are not modified
)

IJEPA = [BLOCK_SIZE, BLOCK_MASK, CONSTRAINED]
CONTRACTS = DINO + IJEPA
